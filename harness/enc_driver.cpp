// Encoder driver (C06, C10 per-call part): runs operation sequences on the real
// CDNS::CdnsEncoder and records, per call, the argument, the return value, the
// bytes that reached the output during the call and the staging-buffer level.
//
//   enc_driver sweep  <tier> <seed> <shard> <nshards> <out.ndjson>
//   enc_driver replay <histories.ndjson> <out.ndjson>
//
// Trace events:
//   {"e":"R","kind":"fd|file|gz|xz","B":<buffer size>}            new encoder, new output
//   {"e":"W","op":..,"a":..,"r":ret,"av":avail,"d":segs}          one public write (d: delivered, fd only)
//   {"e":"T","all":segs}                                          rotate_output: full content of the closed output
//   {"e":"D","all":segs}                                          destructor: full content of the closed output
#include "common.h"
#include "probe.h"
#include <memory>
#include <sys/wait.h>

#include <sys/syscall.h>
#include <cerrno>

using namespace CDNS;

static std::string g_tmpdir;

// Fault injection: the driver executable defines write(); the library's descriptor writer resolves to it.  While armed,
// the g_fault_at-th write to any descriptor other than the trace's fails once (nothing is written).
static int g_fault_at = 0;        // 0 = not armed
static int g_fault_errno = EAGAIN;
static int g_fault_seen = 0;
static int g_trace_fd_guard = -1;
extern "C" ssize_t write(int fd, const void* buf, size_t n) {
    if (g_fault_at > 0 && fd > 2 && fd != g_trace_fd_guard) {
        if (++g_fault_seen == g_fault_at) { g_fault_at = 0; errno = g_fault_errno; return -1; }
    }
    return syscall(SYS_write, fd, buf, n);
}

static std::string gunzip_or_unxz(const std::string& path, bool gz)
{
    // independent decompressor: python3 zlib / lzma (single complete stream required)
    std::string cmd = std::string("python3 -c \"import sys,zlib,lzma\nd=open(sys.argv[1],'rb').read()\n") +
        (gz ? "o=zlib.decompressobj(31)\nr=o.decompress(d)\nassert o.eof and not o.unused_data\n"
            : "o=lzma.LZMADecompressor(lzma.FORMAT_XZ)\nr=o.decompress(d)\nassert o.eof and not o.unused_data\n") +
        "sys.stdout.buffer.write(r)\" '" + path + "'";
    FILE* p = popen(cmd.c_str(), "r");
    std::string out;
    char buf[65536];
    size_t n;
    while ((n = fread(buf, 1, sizeof(buf), p)) > 0) out.append(buf, n);
    int rc = pclose(p);
    if (rc != 0) return std::string("\xff\xff\xff" "DECOMPRESS-FAILED");
    return out;
}

struct Session {
    std::string kind;
    std::unique_ptr<CdnsEncoder> enc;
    int fd = -1;          // fd kind: duplicate of the memfd (the writer closes its own copy)
    off_t seen = 0;       // bytes of the current output already reported
    std::string name;     // file kinds: current base name
    int serial = 0;

    void open_output(bool first) {
        if (kind == "fd") {
            int m = vh::new_memfd();
            if (fd >= 0) close(fd);
            fd = dup(m);
            seen = 0;
            if (first) enc.reset(new CdnsEncoder(m, CborOutputCompression::NO_COMPRESSION));
            else enc->rotate_output(m);
        } else {
            name = g_tmpdir + "/enc_" + std::to_string(getpid()) + "_" + std::to_string(serial++);
            CborOutputCompression c = kind == "gz" ? CborOutputCompression::GZIP
                                    : kind == "xz" ? CborOutputCompression::XZ
                                    : CborOutputCompression::NO_COMPRESSION;
            if (first) enc.reset(new CdnsEncoder(name, c));
            else enc->rotate_output(name);
        }
    }
    std::string closed_content(const std::string& nm) {
        std::string path = nm + (kind == "gz" ? ".gz" : kind == "xz" ? ".xz" : "");
        std::string data;
        if (kind == "file") data = vh::read_file(path);
        else data = gunzip_or_unxz(path, kind == "gz");
        unlink(path.c_str());
        return data;
    }
    void start(const std::string& k) {
        kind = k;
        vh::trace().emit({{"e", "R"}, {"kind", kind}, {"B", CdnsEncoder::BUFFER_SIZE}});
        open_output(true);
    }
    json delivered() {
        if (kind != "fd") return nullptr;
        off_t now = vh::fd_size(fd);
        std::string d = vh::read_fd_range(fd, seen, now);
        seen = now;
        return vh::segs(d);
    }
    void rotate() {
        if (kind == "fd") {
            int old = fd; fd = -1;
            off_t oldseen = seen; (void)oldseen;
            std::string oldname;
            int m = vh::new_memfd();
            int keep = dup(m);
            enc->rotate_output(m);
            std::string all = vh::read_fd_range(old, 0, vh::fd_size(old));
            close(old);
            fd = keep; seen = 0;
            vh::trace().emit({{"e", "T"}, {"all", vh::segs(all)}});
        } else {
            std::string old = name;
            open_output(false);
            vh::trace().emit({{"e", "T"}, {"all", vh::segs(closed_content(old))}});
        }
    }
    void finish() {
        enc.reset();
        std::string all;
        if (kind == "fd") { all = vh::read_fd_range(fd, 0, vh::fd_size(fd)); close(fd); fd = -1; }
        else all = closed_content(name);
        vh::trace().emit({{"e", "D"}, {"all", vh::segs(all)}});
    }

    // one public write; a: 8-byte image / 0|1 / byte string
    void call(const std::string& op, uint64_t v, const std::string& s) {
        try { call1(op, v, s); }
        catch (std::exception& e) {
            // the output rejected data (injected fault): log what reached the output during the failed call, then
            // repeat the call - the fault is transient
            json ev = {{"e", "X"}, {"op", op}, {"what", std::string(e.what()).substr(0, 120)}};
            json d = delivered();
            if (!d.is_null()) ev["d"] = d;
            vh::trace().emit(ev);
            call1(op, v, s);
        }
    }
    void call1(const std::string& op, uint64_t v, const std::string& s) {
        std::size_t r = 0;
        json a;
        if (op == "arr")       { r = enc->write_array_start(v); a = vh::img8(v); }
        else if (op == "map")  { r = enc->write_map_start(v); a = vh::img8(v); }
        else if (op == "iarr") { r = enc->write_indef_array_start(); a = 0; }
        else if (op == "imap") { r = enc->write_indef_map_start(); a = 0; }
        else if (op == "brk")  { r = enc->write_break(); a = 0; }
        else if (op == "bool") { r = enc->write(static_cast<bool>(v != 0)); a = v ? 1 : 0; }
        else if (op == "u8")   { r = enc->write(static_cast<uint8_t>(v)); a = vh::img8(static_cast<uint8_t>(v)); }
        else if (op == "u16")  { r = enc->write(static_cast<uint16_t>(v)); a = vh::img8(static_cast<uint16_t>(v)); }
        else if (op == "u32")  { r = enc->write(static_cast<uint32_t>(v)); a = vh::img8(static_cast<uint32_t>(v)); }
        else if (op == "u64")  { r = enc->write(static_cast<uint64_t>(v)); a = vh::img8(v); }
        else if (op == "i8")   { int8_t x = static_cast<int8_t>(v); r = enc->write(x); a = vh::img8s(x); }
        else if (op == "i16")  { int16_t x = static_cast<int16_t>(v); r = enc->write(x); a = vh::img8s(x); }
        else if (op == "i32")  { int32_t x = static_cast<int32_t>(v); r = enc->write(x); a = vh::img8s(x); }
        else if (op == "i64")  { int64_t x = static_cast<int64_t>(v); r = enc->write(x); a = vh::img8s(x); }
        else if (op == "bstr") { r = enc->write_bytestring(s); a = vh::segs(s); }
        else if (op == "bstrp"){ r = enc->write_bytestring(reinterpret_cast<const unsigned char*>(s.data()), s.size()); a = vh::segs(s); }
        else if (op == "tstr") { r = enc->write_textstring(s); a = vh::segs(s); }
        else if (op == "tstrp"){ r = enc->write_textstring(reinterpret_cast<const unsigned char*>(s.data()), s.size()); a = vh::segs(s); }
        else { fprintf(stderr, "unknown op %s\n", op.c_str()); _exit(3); }
        json ev = {{"e", "W"}, {"op", op}, {"a", a}, {"r", r}, {"av", CdnsVerifProbe::enc_avail(*enc)}};
        json d = delivered();
        if (!d.is_null()) ev["d"] = d;
        vh::trace().emit(ev);
    }

    // bring the staging buffer to exactly `fill` bytes (starting from empty):
    // one byte string as large as fits, then 1-byte break codes
    void fill_to(std::size_t fill) {
        std::size_t best_total = 0, best_n = 0;
        const std::size_t lo[3] = {0, 24, 256}, hi[3] = {23, 255, 65535};
        for (std::size_t hl = 1; hl <= 3; hl++) {
            if (fill < hl) continue;
            std::size_t n = std::min(hi[hl - 1], fill - hl);
            if (n < lo[hl - 1]) continue;
            if (hl + n > best_total) { best_total = hl + n; best_n = n; }
        }
        if (best_total > 0) call("bstr", 0, std::string(best_n, 'x'));
        for (std::size_t i = best_total; i < fill; i++) call("brk", 0, "");
    }
};

static const std::vector<std::string> INT_OPS = {"u8", "u16", "u32", "u64", "i8", "i16", "i32", "i64"};
static const std::vector<std::string> STR_OPS = {"bstr", "bstrp", "tstr", "tstrp"};
static const std::vector<std::string> ALL_OPS = {"arr", "iarr", "map", "imap", "bstr", "bstrp", "tstr", "tstrp", "brk",
                                                 "bool", "u8", "u16", "u32", "u64", "i8", "i16", "i32", "i64"};

static std::vector<uint64_t> boundary_values(const std::string& op)
{
    std::vector<uint64_t> u = {0, 1, 23, 24, 255, 256, 65535, 65536, 0xFFFFFFFFull, 0x100000000ull,
                               0x7FFFFFFFFFFFFFFFull, 0x8000000000000000ull, 0xFFFFFFFFFFFFFFFFull};
    std::vector<int64_t> s = {0, 23, 24, 127, 128, 255, 256, 32767, 32768, 65535, 65536, 2147483647LL, 2147483648LL,
                              4294967295LL, 4294967296LL, INT64_MAX, -1, -24, -25, -128, -129, -256, -257, -32768, -32769,
                              -65536, -65537, -2147483648LL, -2147483649LL, -4294967296LL, -4294967297LL, INT64_MIN};
    std::vector<uint64_t> out;
    auto add = [&](uint64_t v) { out.push_back(v); };
    if (op == "u8")  { for (auto v : u) if (v <= 0xFF) add(v); }
    else if (op == "u16") { for (auto v : u) if (v <= 0xFFFF) add(v); }
    else if (op == "u32") { for (auto v : u) if (v <= 0xFFFFFFFFull) add(v); }
    else if (op == "u64" || op == "arr" || op == "map") { for (auto v : u) add(v); }
    else if (op == "i8")  { for (auto v : s) if (v >= -128 && v <= 127) add(static_cast<uint64_t>(v)); }
    else if (op == "i16") { for (auto v : s) if (v >= -32768 && v <= 32767) add(static_cast<uint64_t>(v)); }
    else if (op == "i32") { for (auto v : s) if (v >= -2147483648LL && v <= 2147483647LL) add(static_cast<uint64_t>(v)); }
    else if (op == "i64") { for (auto v : s) add(static_cast<uint64_t>(v)); }
    else if (op == "bool") { add(0); add(1); }
    else add(0);
    return out;
}

static std::string make_string(std::size_t n, std::mt19937_64& rng, bool runs)
{
    std::string s(n, 'a');
    if (!runs) for (auto& c : s) c = static_cast<char>(rng() & 0xFF);
    else if (n > 2) { s[0] = 'S'; s[n - 1] = 'E'; }
    return s;
}

static void sweep(const std::string& tier, uint64_t seed, unsigned shard, unsigned nshards)
{
    const std::size_t B = CdnsEncoder::BUFFER_SIZE;
    bool thorough = tier == "thorough";
    bool scaled = tier == "scaled";     // small buffer: exhaustive over fills, fewer long sweeps
    std::mt19937_64 rng(seed * 1000003 + 17);
    uint64_t job = 0;
    auto mine = [&]() { return (job++ % nshards) == shard; };

    // A. every operation x boundary argument x fill level of the staging buffer
    std::vector<std::size_t> fills;
    if (thorough || B <= 64) for (std::size_t f = 0; f <= B; f++) fills.push_back(f);
    else {
        for (std::size_t f = 0; f <= 12; f++) fills.push_back(f);
        for (std::size_t f = B - 12; f <= B; f++) fills.push_back(f);
        fills.push_back(B / 2);
    }
    std::vector<std::size_t> strlens = {0, 1, 23, 24, 255, 256};
    std::vector<std::size_t> biglens = {B > 9 ? B - 9 : 1, B - 1, B, B + 1, 2 * B, 3 * B + 56};
    for (auto f : fills) {
        for (auto& op : ALL_OPS) {
            bool is_str = op.find("str") != std::string::npos;
            if (is_str) {
                std::vector<std::size_t> lens = strlens;
                bool edge = f <= 10 || f + 10 >= B;
                if (edge || (thorough && f % 64 == 0)) lens.insert(lens.end(), biglens.begin(), biglens.end());
                // strings whose length needs a 5-byte head (>= 65536), where only few bytes are left in the buffer
                if (B > 64 && f + 9 >= B) { lens.push_back(65536); if (thorough) lens.push_back(70001); }
                for (auto n : lens) {
                    if (!mine()) continue;
                    Session s; s.start("fd"); s.fill_to(f);
                    s.call(op, 0, make_string(n, rng, true));
                    s.finish();
                }
            } else {
                for (auto v : boundary_values(op)) {
                    if (!mine()) continue;
                    Session s; s.start("fd"); s.fill_to(f);
                    s.call(op, v, "");
                    s.call("brk", 0, "");       // a sentinel item after it
                    s.finish();
                }
            }
        }
    }

    // B. all values of the 8-bit (and, thorough, 16-bit) overloads, in sequence, from several start fills
    std::vector<std::size_t> starts = {0, 1, B - 3, B - 2, B - 1, B};
    for (auto f : starts) {
        for (const char* op : {"u8", "i8"}) {
            if (!mine()) continue;
            Session s; s.start("fd"); s.fill_to(f);
            for (unsigned v = 0; v < 256; v++) s.call(op, static_cast<uint64_t>(static_cast<int64_t>(static_cast<int8_t>(v))), "");
            s.finish();
        }
    }
    {
        unsigned step = thorough ? 1 : scaled ? 257 : 37;
        for (auto f : starts) {
            for (const char* op : {"u16", "i16"}) {
                // chunks of 4096 values per execution
                for (unsigned base = 0; base < 65536; base += 4096) {
                    if (!mine()) continue;
                    Session s; s.start("fd"); s.fill_to(f);
                    for (unsigned v = base; v < base + 4096; v += step)
                        s.call(op, static_cast<uint64_t>(static_cast<int64_t>(static_cast<int16_t>(v))), "");
                    s.finish();
                }
            }
        }
    }

    // D. transient output faults: sequences of non-string operations on a descriptor output; the k-th write system call
    //    of the sequence is rejected once (EAGAIN as on a full non-blocking pipe, ENOSPC), the call that got the
    //    exception is repeated.  Nothing that a call appended before may be lost or doubled.
    {
        static const std::vector<std::string> NS = {"arr", "iarr", "map", "imap", "brk", "bool", "u8", "u16", "u32", "u64",
                                                    "i8", "i16", "i32", "i64"};
        unsigned nf = thorough ? 400 : scaled ? 120 : 60;
        for (unsigned q = 0; q < nf; q++) {
            uint64_t sub = rng();
            if (!mine()) continue;
            std::mt19937_64 r(sub);
            Session s; s.start("fd");
            s.fill_to(r() % (B + 1));
            g_fault_seen = 0;
            g_fault_errno = (q % 3 == 0) ? ENOSPC : EAGAIN;
            g_fault_at = 1 + r() % 4;
            unsigned len = static_cast<unsigned>(B / 2 + r() % (2 * B + 40));
            for (unsigned i = 0; i < len; i++) {
                const std::string& op = NS[r() % NS.size()];
                auto vals = boundary_values(op);
                uint64_t v = (r() % 2) ? vals[r() % vals.size()] : (r() >> (r() % 64));
                s.call(op, v, "");
                if (g_fault_at == 0 && (r() % 200) == 0) { g_fault_seen = 0; g_fault_at = 1 + r() % 3; }   // another one later
            }
            g_fault_at = 0;
            if (q % 2) s.rotate();
            s.finish();
        }
    }

    // C. random operation sequences with rotations, all output kinds
    unsigned nseq = thorough ? 3000 : scaled ? 400 : 240;
    std::vector<std::string> kinds = {"fd", "fd", "fd", "file", "gz", "xz"};
    for (unsigned q = 0; q < nseq; q++) {
        uint64_t sub = rng();
        if (!mine()) continue;
        std::mt19937_64 r(sub);
        std::string kind = kinds[r() % kinds.size()];
        if (kind != "fd" && (q % 4) != 0) kind = "fd";   // compressed kinds cost a python start each
        Session s; s.start(kind);
        unsigned len = 20 + r() % (thorough ? 300 : 120);
        for (unsigned i = 0; i < len; i++) {
            unsigned pick = r() % 100;
            if (pick < 3) { s.rotate(); continue; }
            const std::string& op = ALL_OPS[r() % ALL_OPS.size()];
            bool is_str = op.find("str") != std::string::npos;
            if (is_str) {
                std::size_t n;
                unsigned c = r() % 10;
                if (c < 5) n = r() % 40;
                else if (c < 8) n = r() % 700;
                else if (c < 9) n = (B > 20 ? B - 20 : 0) + r() % 40;
                else n = r() % (3 * B);
                s.call(op, 0, make_string(n, r, (r() & 1) != 0));
            } else {
                auto vals = boundary_values(op);
                uint64_t v;
                if (r() % 3 == 0) v = vals[r() % vals.size()];
                else { unsigned bits = 1 + r() % 64; v = r() >> (64 - bits); if (r() & 1) v = ~v; }
                s.call(op, v, "");
            }
        }
        s.finish();
    }
}

// replay of TLC-generated histories: one JSON object per line:
//   {"fill": n, "ops": [{"op":..,"a":..}, ...]}
static void replay(const std::string& path)
{
    std::ifstream in(path);
    std::string line;
    while (std::getline(in, line)) {
        if (line.empty()) continue;
        json h = json::parse(line);
        Session s; s.start("fd");
        s.fill_to(h.value("fill", 0));
        for (auto& o : h["ops"]) {
            std::string op = o["op"];
            if (op == "rot") { s.rotate(); continue; }
            bool is_str = op.find("str") != std::string::npos;
            if (is_str) s.call(op, 0, vh::bytes_from_json(o["a"]));
            else if (o["a"].is_array()) s.call(op, vh::u64_from_nat(o["a"]), "");
            else s.call(op, o["a"].get<uint64_t>(), "");
        }
        s.finish();
    }
}

int main(int argc, char** argv)
{
    if (argc < 2) return 2;
    const char* td = getenv("VERIF_TMP");
    g_tmpdir = td ? td : "/tmp";
    std::string mode = argv[1];
    if (mode == "sweep" && argc == 7) {
        vh::trace().open(argv[6]);
        vh::install_crash_handlers();
        sweep(argv[2], strtoull(argv[3], nullptr, 10), atoi(argv[4]), atoi(argv[5]));
    } else if (mode == "replay" && argc == 4) {
        vh::trace().open(argv[3]);
        vh::install_crash_handlers();
        replay(argv[2]);
    } else {
        fprintf(stderr, "usage: enc_driver sweep <tier> <seed> <shard> <nshards> <out> | replay <in> <out>\n");
        return 2;
    }
    vh::trace().emit({{"e", "END"}});
    vh::trace().close();
    return 0;
}
