// Output-stack driver (C14, C15, C16): runs writer / exporter scenarios in child
// processes with write/writev/rename interposed (in this executable, -rdynamic; no hook
// in /repo) so that the child can be killed immediately before its k-th output-related
// system call (crash points) or have that call fail (fault points).
//
//   wr_driver c14 <scenarios.ndjson> <shard> <nshards> <out.ndjson>
//   wr_driver c15 <scenarios.ndjson> <shard> <nshards> <out.ndjson>
//   wr_driver c16 <scenarios.ndjson> <shard> <nshards> <out.ndjson>
//
// Scenario: {"id":..,"target":"writer|exporter","comp":"none|gz|xz","kind":"file|fd",
//            "chunks":[{"id":1,"n":bytes,"pat":"zero|text|rand","seed":s}],
//            "steps":[{"op":"w","c":chunk id}|{"op":"rec","n":k}|{"op":"wb"}|{"op":"rot","export":b[,"to":name index]}],
//            "pre":[output index whose final name exists before],
//            "prepart":[name index whose '.part' file exists before (left by a run that died)]}
#include "common.h"
#include <functional>
#include "records.h"
#include <dirent.h>
#include <sys/uio.h>
#include <sys/wait.h>
#include <sys/syscall.h>
#include <cerrno>
#include <chrono>
#include <memory>
#include <map>
#include <set>

using namespace CDNS;

// ------------------------------------------------------------------ interposer
static std::string g_dir;            // scenario directory: only calls on files below it are counted
static int g_count = 0;              // output-related system calls so far
static int g_crash_at = 0;           // _exit immediately before this call (0 = never)
static int g_fault_at = 0;           // this write fails (0 = never)
static bool g_fault_persistent = false;
static int g_fault_kind = 0;         // 0 ENOSPC, 1 EIO, 2 short write
static int g_syslog = -1;            // raw log of the calls
static bool g_hooks = false;
static bool g_recovering = false;    // recovery phase: only the output that failed keeps failing (if persistent)
static int g_fault_output = -1;      // index of the output whose write failed first
static int g_rename_fail_at = 0;     // this rename is refused (EPERM, nothing renamed); 0 = never
static int g_renames = 0;

static bool tracked_fd(int fd, char* path, size_t cap) {
    char link[64];
    snprintf(link, sizeof(link), "/proc/self/fd/%d", fd);
    ssize_t n = readlink(link, path, cap - 1);
    if (n <= 0) return false;
    path[n] = 0;
    return strncmp(path, g_dir.c_str(), g_dir.size()) == 0;
}
static void syslog_line(const char* call, const char* p, const char* q, long n, const char* res) {
    if (g_syslog < 0) return;
    static long lines = 0;
    if (++lines > 20000) return;
    char buf[1024];
    int len = snprintf(buf, sizeof(buf), "sys\t%s\t%s\t%s\t%ld\t%s\n", call, p + (strlen(p) > g_dir.size() ? g_dir.size() + 1 : 0),
                       q ? q + (strlen(q) > g_dir.size() ? g_dir.size() + 1 : 0) : "-", n, res);
    syscall(SYS_write, g_syslog, buf, len);
}
static long content_hash(const std::string& data) {      // 31-bit FNV-1a (fits a TLC integer)
    uint32_t h = 2166136261u;
    for (unsigned char c : data) { h ^= c; h *= 16777619u; }
    return static_cast<long>(h & 0x7fffffffu);
}
static int output_index(const char* path) {
    const char* p = path + g_dir.size();
    if (p[0] == '/' && p[1] == 'o') return atoi(p + 2);
    return 0;
}
static bool before_call(const char* path) {
    g_count++;
    if (g_count > 100000) _exit(78);      // runaway: no scenario issues that many output system calls (an endless loop does)
    if (g_crash_at && g_count == g_crash_at) _exit(0);
    bool fail;
    if (g_recovering) fail = g_fault_persistent && g_fault_output >= 0 && output_index(path) == g_fault_output;
    else fail = g_fault_at && (g_count == g_fault_at || (g_fault_persistent && g_count >= g_fault_at));
    if (fail && g_fault_output < 0) g_fault_output = output_index(path);
    return fail;
}

// Under AddressSanitizer its own interceptor of write() would check that [buf, buf+n) is addressable; this definition
// replaces that interceptor, so the check is made here (a compressor that was offered more room than its scratch
// buffer has makes the writer hand over bytes from beyond the array).
extern "C" void* __asan_region_is_poisoned(void* beg, size_t size) __attribute__((weak));
static void check_region(const void* buf, size_t n) {
    if (&__asan_region_is_poisoned && n > 0 && __asan_region_is_poisoned(const_cast<void*>(buf), n)) {
        static const char msg[] = "wr_driver: write() was handed a buffer that reaches into poisoned (out-of-bounds) memory\n";
        syscall(SYS_write, 2, msg, sizeof(msg) - 1);
        abort();
    }
}
extern "C" ssize_t write(int fd, const void* buf, size_t n) {
    check_region(buf, n);
    char path[512];
    if (!g_hooks || !tracked_fd(fd, path, sizeof(path))) return syscall(SYS_write, fd, buf, n);
    bool fail = before_call(path);
    if (fail) {
        if (g_fault_kind == 2 && n > 1) {
            ssize_t r = syscall(SYS_write, fd, buf, n / 2);
            syslog_line("write", path, nullptr, static_cast<long>(n), "short");
            return r;
        }
        syslog_line("write", path, nullptr, static_cast<long>(n), "fail");
        errno = g_fault_kind == 1 ? EIO : ENOSPC;
        return -1;
    }
    ssize_t r = syscall(SYS_write, fd, buf, n);
    syslog_line("write", path, nullptr, static_cast<long>(n), "ok");
    return r;
}
extern "C" ssize_t writev(int fd, const struct iovec* iov, int cnt) {
    char path[512];
    if (!g_hooks || !tracked_fd(fd, path, sizeof(path))) return syscall(SYS_writev, fd, iov, cnt);
    long total = 0;
    for (int i = 0; i < cnt; i++) { total += iov[i].iov_len; check_region(iov[i].iov_base, iov[i].iov_len); }
    bool fail = before_call(path);
    if (fail) {
        if (g_fault_kind == 2 && cnt > 0 && iov[0].iov_len > 1) {
            ssize_t r = syscall(SYS_write, fd, iov[0].iov_base, iov[0].iov_len / 2);
            syslog_line("writev", path, nullptr, total, "short");
            return r;
        }
        syslog_line("writev", path, nullptr, total, "fail");
        errno = g_fault_kind == 1 ? EIO : ENOSPC;
        return -1;
    }
    ssize_t r = syscall(SYS_writev, fd, iov, cnt);
    syslog_line("writev", path, nullptr, total, "ok");
    return r;
}
extern "C" int rename(const char* a, const char* b) {
    if (!g_hooks || strncmp(a, g_dir.c_str(), g_dir.size()) != 0) return syscall(SYS_rename, a, b);
    { bool r = g_recovering; g_recovering = true; bool p = g_fault_persistent; g_fault_persistent = false; before_call(a); g_recovering = r; g_fault_persistent = p; }   // a crash point; renames are not made to fail
    if (g_rename_fail_at > 0 && ++g_renames == g_rename_fail_at) {
        // the environment refuses this rename (sticky directory, a file system that cannot replace a file, ...)
        syslog_line("rename", a, b, 0, "fail");
        errno = EPERM;
        return -1;
    }
    int r = syscall(SYS_rename, a, b);
    // reference run: remember what became visible under the final name (one of the complete outputs of that name)
    long h = (r == 0 && !g_crash_at && !g_fault_at) ? content_hash(vh::read_file(b)) : 0;
    syslog_line("rename", a, b, h, r == 0 ? "ok" : "fail");
    return r;
}

// ------------------------------------------------------------------ scenarios
static std::string g_root;

static std::string chunk_bytes(const json& c) {
    size_t n = c["n"].get<size_t>();
    std::string pat = c.value("pat", "rand");
    std::string s(n, '\0');
    if (pat == "text") for (size_t i = 0; i < n; i++) s[i] = "the quick brown fox "[i % 20];
    else if (pat == "rand") { std::mt19937_64 r(c.value("seed", 1)); for (size_t i = 0; i < n; i += 8) { uint64_t v = r(); memcpy(&s[i], &v, std::min<size_t>(8, n - i)); } }
    if (n >= 8) { uint64_t tag = 0xC0DEC0DE00000000ULL | c["id"].get<uint64_t>(); memcpy(&s[0], &tag, 8); }
    else for (size_t i = 0; i < n; i++) s[i] = static_cast<char>(c["id"].get<uint64_t>() * 16 + i);   // short chunks differ by id
    return s;
}

static std::string suffix(const std::string& comp) { return comp == "gz" ? ".gz" : comp == "xz" ? ".xz" : ""; }
static CborOutputCompression cc(const std::string& comp) {
    return comp == "gz" ? CborOutputCompression::GZIP : comp == "xz" ? CborOutputCompression::XZ : CborOutputCompression::NO_COMPRESSION;
}
static std::string decompress(const std::string& path, const std::string& comp, bool& ok) {
    ok = true;
    if (comp == "none") return vh::read_file(path);
    bool gz = comp == "gz";
    std::string cmd = std::string("python3 -c \"import sys,zlib,lzma\nd=open(sys.argv[1],'rb').read()\n") +
        (gz ? "o=zlib.decompressobj(31)\nr=o.decompress(d)\nassert o.eof and not o.unused_data\n"
            : "o=lzma.LZMADecompressor(lzma.FORMAT_XZ)\nr=o.decompress(d)\nassert o.eof and not o.unused_data\n") +
        "sys.stdout.buffer.write(r)\" '" + path + "' 2>/dev/null";
    FILE* p = popen(cmd.c_str(), "r");
    std::string out; char buf[1 << 16]; size_t n;
    while ((n = fread(buf, 1, sizeof(buf), p)) > 0) out.append(buf, n);
    if (pclose(p) != 0) ok = false;
    return out;
}
static GenericQueryResponse mk_rec(unsigned i) {
    GenericQueryResponse g;
    g.client_port = static_cast<uint16_t>(i);
    g.transaction_id = static_cast<uint16_t>(i * 7);
    g.query_name = std::string(60 + (i % 5) * 40, static_cast<char>('a' + i % 26));
    g.client_ip = std::string("\x0a\x00\x00", 3) + static_cast<char>(i % 200);
    return g;
}

// equal entries in the address / name tables of the blocks of a (decompressed) output, as the library's reader fills them
static unsigned table_dups(const std::string& plain) {
    unsigned d = 0;
    try {
        std::istringstream is(plain, std::ios::binary);
        CdnsReader rd(is);
        bool eof = false;
        while (true) {
            CdnsBlockRead b = rd.read_block(eof);
            if (eof) break;
            std::set<std::string> ips, names;
            for (std::size_t i = 0; i < b.m_ip_address.size(); i++) if (!ips.insert(b.m_ip_address[static_cast<index_t>(i)].data).second) d++;
            for (std::size_t i = 0; i < b.m_name_rdata.size(); i++) if (!names.insert(b.m_name_rdata[static_cast<index_t>(i)].data).second) d++;
        }
    } catch (std::exception&) {}
    return d;
}

// runs the scenario's API calls in THIS process; logs one line per API call to apilog (fd)
struct Runner {
    const json& sc;
    std::string dir, comp, kind, target;
    int apilog;
    int serial = 1, maxserial = 1;
    std::unique_ptr<BaseCborOutputWriter> wr;
    std::unique_ptr<CdnsExporter> ex;
    unsigned rec = 0;
    Runner(const json& s, const std::string& d, int al) : sc(s), dir(d), apilog(al) {
        comp = sc.value("comp", "none"); kind = sc.value("kind", "file"); target = sc.value("target", "writer");
    }
    std::string name(int i) { return dir + "/o" + std::to_string(i); }
    void api(const std::string& what, const std::string& res) {
        // (exporter) n = 1000000 * blocks written to the current output + items in the buffered block, after the call
        long n = ex ? static_cast<long>(ex->get_blocks_written_count() % 2000) * 1000000L + static_cast<long>(ex->get_block_item_count() % 1000000) : 0;
        std::string l = "api\t" + what + "\t-\t-\t" + std::to_string(n) + "\t" + (res.substr(0, 3) == "exc" ? "exc" : "ok") + "\n";
        syscall(SYS_write, g_syslog, l.data(), l.size());
    }
    int open_fd(int i) { return ::open((name(i) + ".fd").c_str(), O_CREAT | O_WRONLY | O_TRUNC, 0600); }
    template<typename F> void guarded(const std::string& what, F f) {
        try { f(); api(what, "ok"); }
        catch (std::exception& e) { api(what, std::string("exc:") + e.what()); }
    }
    void start() {
        guarded("open", [&] {
            if (target == "writer") {
                if (kind == "file") {
                    if (comp == "gz") wr.reset(new GzipCborOutputWriter(name(1)));
                    else if (comp == "xz") wr.reset(new XzCborOutputWriter(name(1)));
                    else wr.reset(new CborOutputWriter(name(1)));
                } else {
                    int fd = open_fd(1);
                    if (comp == "gz") wr.reset(new GzipCborOutputWriter(fd));
                    else if (comp == "xz") wr.reset(new XzCborOutputWriter(fd));
                    else wr.reset(new CborOutputWriter(fd));
                }
            } else {
                FilePreamble fp;
                fp.m_block_parameters[0].storage_parameters.max_block_items = sc.value("max", 4);
                if (kind == "file") ex.reset(new CdnsExporter(fp, name(1), cc(comp)));
                else ex.reset(new CdnsExporter(fp, open_fd(1), cc(comp)));
            }
        });
    }
    // mismatch: (exporter) the argument is of the other kind than the constructor's - a name for a descriptor exporter and vice versa
    void rotate(bool exp_block, const std::string& label, int to = 0, bool mismatch = false) {
        if (to > 0) serial = to; else serial = maxserial + 1;      // "to": rotation onto a name already used (also the one in use)
        if (serial > maxserial) maxserial = serial;
        guarded(label, [&] {
            if (target == "writer") {
                if (kind == "file") wr->rotate_output(name(serial));
                else wr->rotate_output(open_fd(serial));
            } else {
                if ((kind == "file") != mismatch) ex->rotate_output(name(serial), exp_block);
                else ex->rotate_output(open_fd(serial), exp_block);
            }
        });
    }
    bool block_exc = false;      // a block-writing call (buffer_* / write_block) threw
    template<typename F> void guarded_block(const std::string& what, F f) {
        try { f(); api(what, "ok"); }
        catch (std::exception& e) { api(what, std::string("exc:") + e.what()); block_exc = true; }
    }
    void recover() {       // documented recovery: rotate to a healthy destination, then write the block
        g_recovering = true;      // the new destination is healthy; a persistently failing old output keeps failing
        rotate(false, "recover-rot");
        guarded("recover-wb", [&] { ex->write_block(); });
    }
    void run_steps(const std::map<int, std::string>& chunks) {
        start();
        bool has_recover = false;
        for (auto& st : sc["steps"]) if (st["op"] == "recover") has_recover = true;
        for (auto& st : sc["steps"]) {
            std::string op = st["op"];
            if (op == "w") { const std::string& c = chunks.at(st["c"].get<int>()); guarded("w", [&] { wr->write(c.data(), c.size()); }); }
            else if (op == "rec") {
                for (unsigned i = 0; i < st["n"].get<unsigned>() && !(block_exc && has_recover); i++) {
                    unsigned r = rec++;
                    GenericQueryResponse g = mk_rec(r);
                    // "big": every big-th record carries a name larger than the encoder's staging buffer (large RDATA, payloads)
                    unsigned big = st.value("big", 0u);
                    if (big && r % big == big - 1) g.query_name = std::string(3000 + r % 7, static_cast<char>('A' + r % 26));
                    // "asn": the record ends with a text of that length (the last member of the last record decides where
                    // the closing break meets the staging buffer)
                    if (st.contains("asn")) g.asn = std::string(st["asn"].get<unsigned>() + r % 2, 'z');
                    guarded_block("rec", [&] { ex->buffer_qr(g); });
                }
            }
            else if (op == "wb") guarded_block("wb", [&] { ex->write_block(); });
            else if (op == "addbp") guarded("addbp", [&] {       // one more parameter set: part of the preamble of the outputs opened from now on
                BlockParameters bp; bp.storage_parameters.ticks_per_second = 1000; bp.storage_parameters.max_block_items = sc.value("max", 4);
                ex->add_block_parameters(bp);
            });
            else if (op == "rot") rotate(st.value("export", false), "rot", st.value("to", 0), st.value("mismatch", false));
            else if (op == "rotbad") {
                // a rotation that cannot succeed: the new name lies in a directory that does not exist (a descriptor
                // that is not open); the call reports it, the outputs published so far are not touched again
                guarded("rotbad", [&] {
                    if (target == "writer") {
                        if (kind == "file") wr->rotate_output(dir + "/no-such-dir/x");
                        else wr->rotate_output(-1);
                    } else {
                        if (kind == "file") ex->rotate_output(dir + "/no-such-dir/x", st.value("export", false));
                        else ex->rotate_output(-1, st.value("export", false));
                    }
                });
            }
            else if (op == "recover") recover();
            // after a failed block write the documented reaction is the recovery, at once
            if (block_exc && has_recover && op != "recover") {
                // "rebuffer": before the recovery the application goes on buffering - records whose address and name are those
                // of the last record it had buffered (values the block that could not be written already holds)
                for (unsigned i = 0; i < sc.value("rebuffer", 0u) && rec > 0; i++) {
                    GenericQueryResponse src = mk_rec(rec - 1 - i % 2);
                    GenericQueryResponse g = mk_rec(rec++);
                    g.client_ip = src.client_ip; g.query_name = src.query_name;
                    guarded("rec", [&] { ex->buffer_qr(g); });
                }
                recover(); break;
            }
        }
        guarded("destroy", [&] { wr.reset(); ex.reset(); });
    }
};

// content of the files that exist before a scenario starts; "old" = the file still holds exactly that
static std::string pre_content(int idx) { return "PRE-EXISTING-CONTENT-" + std::to_string(idx); }
static std::string stale_content(int idx) { return "STALE-PART-CONTENT-" + std::string(3000, 'x') + std::to_string(idx); }
static bool is_old_content(const std::string& name, const std::string& content) {
    int idx = name.size() > 1 ? atoi(name.c_str() + 1) : 0;
    return content == pre_content(idx) || content == stale_content(idx);
}
static void rm_rf(const std::string& d) { std::string c = "rm -rf '" + d + "'"; if (system(c.c_str())) {} }

static long g_child_limit_ms = 120000;     // per child; after the reference run: 30 x its duration, at least 5 s
static const int HUNG_STATUS = 99999;      // the child had to be killed: it did not terminate
struct ChildResult { int status; std::vector<std::string> sys; /* ordered log: api and sys lines */ int nsys = 0; };

static ChildResult run_child(const json& sc, const std::string& dir, int crash_at, int fault_at, bool persistent, int fkind,
                             const std::map<int, std::string>& chunks)
{
    rm_rf(dir);
    mkdir(dir.c_str(), 0700);
    std::string comp = sc.value("comp", "none"), kind = sc.value("kind", "file");
    if (sc.contains("pre")) for (auto& o : sc["pre"]) {
        std::string p = dir + "/o" + std::to_string(o.get<int>()) + (kind == "file" ? suffix(comp) : ".fd");
        std::ofstream f(p); f << pre_content(o.get<int>());
    }
    // final names that exist as SYMBOLIC LINKS to an earlier output (a stable "current" name pointing at the last file)
    if (sc.contains("presym")) for (auto& o : sc["presym"]) {
        std::string t = "t" + std::to_string(o.get<int>());
        { std::ofstream f(dir + "/" + t); f << pre_content(o.get<int>()); }
        std::string p = dir + "/o" + std::to_string(o.get<int>()) + suffix(comp);
        if (symlink(t.c_str(), p.c_str()) != 0) perror("symlink");
    }
    // '.part' files left behind by an earlier run that died while producing the same names
    if (sc.contains("prepart")) for (auto& o : sc["prepart"]) {
        std::string p = dir + "/o" + std::to_string(o.get<int>()) + suffix(comp) + ".part";
        std::ofstream f(p); f << stale_content(o.get<int>());
    }
    std::string sl = dir + ".sys", al = dir + ".api";
    pid_t pid = fork();
    if (pid == 0) {
        g_dir = dir;
        g_syslog = ::open(sl.c_str(), O_CREAT | O_WRONLY | O_TRUNC, 0600);
        int apifd = ::open(al.c_str(), O_CREAT | O_WRONLY | O_TRUNC, 0600);
        g_crash_at = crash_at; g_fault_at = fault_at; g_fault_persistent = persistent; g_fault_kind = fkind;
        g_count = 0; g_hooks = true;
        g_rename_fail_at = sc.value("rename_fail", 0); g_renames = 0;
        int devnull = ::open("/dev/null", O_WRONLY); dup2(devnull, 2);
        if (sc.value("unwind", false)) {
            // the whole session (construction, writes, rotations, destruction) runs inside a clean-up routine while an
            // unrelated exception of the application unwinds the stack: a legitimate place to produce an output
            struct Cleanup { std::function<void()> f; ~Cleanup() { f(); } };
            try {
                Cleanup c{[&] { Runner r(sc, dir, apifd); r.run_steps(chunks); }};
                throw std::runtime_error("unrelated application error");
            } catch (std::runtime_error&) {}
        } else { Runner r(sc, dir, apifd); r.run_steps(chunks); }
        _exit(0);
    }
    ChildResult res;
    // a scenario that does not end (an endless loop in the output stack) is an outcome, not a reason to wait for ever
    {
        const long limit_ms = g_child_limit_ms;
        long waited = 0;
        for (;;) {
            pid_t w = waitpid(pid, &res.status, WNOHANG);
            if (w == pid) { if (WIFEXITED(res.status) && WEXITSTATUS(res.status) == 78) res.status = HUNG_STATUS; break; }
            if (w < 0) { res.status = HUNG_STATUS; break; }
            if (waited >= limit_ms) { kill(pid, SIGKILL); waitpid(pid, &res.status, 0); res.status = HUNG_STATUS; break; }
            usleep(waited < 200 ? 1000 : 10000);
            waited += waited < 200 ? 1 : 10;
        }
    }
    auto lines = [](const std::string& p) { std::vector<std::string> v; std::ifstream f(p); std::string l; while (std::getline(f, l)) v.push_back(l); unlink(p.c_str()); return v; };
    res.sys = lines(sl); lines(al);
    for (auto& l : res.sys) if (l.rfind("sys\t", 0) == 0) res.nsys++;
    return res;
}

static std::map<std::string, std::string> snapshot(const std::string& dir) {
    std::map<std::string, std::string> m;
    DIR* d = opendir(dir.c_str());
    if (!d) return m;
    while (dirent* e = readdir(d)) { std::string n = e->d_name; if (n == "." || n == "..") continue; m[n] = vh::read_file(dir + "/" + n); }
    closedir(d);
    return m;
}
static json sys_json(const std::vector<std::string>& sys) {
    json a = json::array();
    for (auto& l : sys) {
        std::vector<std::string> f; std::stringstream ss(l); std::string x;
        while (std::getline(ss, x, '\t')) f.push_back(x);
        if (f.size() < 6) continue;
        int oidx = (f[2].size() > 1 && f[2][0] == 'o') ? atoi(f[2].c_str() + 1) : 0;
        bool part = f[2].size() >= 5 && f[2].substr(f[2].size() - 5) == ".part";
        a.push_back({{"t", f[0]}, {"c", f[1]}, {"p", f[2]}, {"q", f[3]}, {"n", atol(f[4].c_str())}, {"r", f[5]}, {"o", oidx},
                     {"part", part}, {"pq", f[3] + ".part" == f[2]}});
    }
    return a;
}
static bool is_final(const std::string& n) { return n.size() < 5 || n.substr(n.size() - 5) != ".part"; }

// description of each final file of a directory relative to the chunks / records handed in
static json describe_outputs(const std::map<std::string, std::string>& snap, const json& sc, const std::string& dir,
                             const std::map<int, std::string>& chunks)
{
    std::string comp = sc.value("comp", "none"), target = sc.value("target", "writer");
    json outs = json::array();
    for (auto& kv : snap) {
        json o = {{"name", kv.first}, {"final", is_final(kv.first)}, {"size", kv.second.size()},
                  {"o", kv.first.size() > 1 ? atoi(kv.first.c_str() + 1) : 0}};
        bool pre = is_old_content(kv.first, kv.second);
        o["old"] = pre;
        if (is_final(kv.first) && !pre) {
            bool ok = true;
            std::string plain = decompress(dir + "/" + kv.first, comp, ok);
            o["stream_ok"] = ok;
            o["plain_size"] = plain.size();
            if (target == "writer") {
                // split the plain content into the chunks it consists of (primitive byte comparison only)
                json ids = json::array(); size_t pos = 0; bool matched = true;
                while (ok && pos < plain.size() && matched) {
                    matched = false;
                    for (auto& c : chunks) {
                        if (c.second.size() <= plain.size() - pos && c.second.size() > 0 &&
                            memcmp(plain.data() + pos, c.second.data(), c.second.size()) == 0) {
                            ids.push_back(c.first); pos += c.second.size(); matched = true; break;
                        }
                    }
                }
                o["chunks"] = ids; o["rest"] = plain.size() - pos;
            } else if (ok && !plain.empty()) {
                json rd = vr::reader_dump(plain);
                json ports = json::array();
                for (auto& b : rd["blocks"]) for (auto& q : b["qrs"]) ports.push_back(vh::u64_from_nat(q["client_port"]));
                o["fin"] = rd["fin"]; o["ports"] = ports; o["dups"] = table_dups(plain);
                o["nbps"] = rd.contains("preamble") && rd["preamble"].contains("bps") ? rd["preamble"]["bps"].size() : 0;
            } else { o["fin"] = plain.empty() ? "empty" : "nostream"; o["ports"] = json::array(); }
        }
        outs.push_back(o);
    }
    return outs;
}

static void do_scenario(const std::string& mode, const json& sc)
{
    std::string dir = g_root + "/s" + std::to_string(getpid());
    std::map<int, std::string> chunks;
    if (sc.contains("chunks")) for (auto& c : sc["chunks"]) chunks[c["id"].get<int>()] = chunk_bytes(c);
    json chunkdesc = json::array();
    for (auto& c : chunks) chunkdesc.push_back({{"id", c.first}, {"n", c.second.size()}});

    // reference run: no crash, no fault
    g_child_limit_ms = 120000;
    auto t0 = std::chrono::steady_clock::now();
    ChildResult ref = run_child(sc, dir, 0, 0, false, 0, chunks);
    long ref_ms = std::chrono::duration_cast<std::chrono::milliseconds>(std::chrono::steady_clock::now() - t0).count();
    g_child_limit_ms = std::max(5000L, 30 * ref_ms);
    int hung = 0;                          // two children that had to be killed are enough for one scenario
    auto refsnap = snapshot(dir);
    json refouts = describe_outputs(refsnap, sc, dir, chunks);
    vh::trace().emit({{"e", "R"}, {"mode", mode}, {"scn", sc}, {"status", ref.status},
                      {"log", sys_json(ref.sys)}, {"outs", refouts}});
    int K = ref.nsys;
    std::vector<std::string> syscalls;
    for (auto& l : ref.sys) if (l.rfind("sys\t", 0) == 0) syscalls.push_back(l.substr(4));
    if (mode == "c15") {
        for (int k = 1; k <= K; k++) {
            ChildResult r = run_child(sc, dir, k, 0, false, 0, chunks);
            if (r.status == HUNG_STATUS && ++hung > 2) break;
            auto snap = snapshot(dir);
            json files = json::array();
            for (auto& kv : snap) {
                bool pre = is_old_content(kv.first, kv.second);
                auto it = refsnap.find(kv.first);
                files.push_back({{"name", kv.first}, {"final", is_final(kv.first)}, {"old", pre}, {"size", kv.second.size()},
                                 {"same", it != refsnap.end() && it->second == kv.second}, {"h", content_hash(kv.second)}});
            }
            vh::trace().emit({{"e", "K"}, {"k", k}, {"nsys", r.nsys}, {"files", files}});
        }
    } else if (mode == "c16") {
        for (int persistent = 0; persistent <= 1; persistent++)
            for (int fk = 0; fk <= 2; fk++)
                for (int k = 1; k <= K; k++) {
                    if (syscalls[k - 1].rfind("rename", 0) == 0) continue;     // renames are not made to fail
                    if (fk == 1 && (k % 3) != 0) continue;                       // EIO: every third point
                    if (hung >= 2) continue;
                    ChildResult r = run_child(sc, dir, 0, k, persistent != 0, fk, chunks);
                    if (r.status == HUNG_STATUS) hung++;
                    auto snap = snapshot(dir);
                    vh::trace().emit({{"e", "F"}, {"k", k}, {"persistent", persistent != 0}, {"fault", fk == 0 ? "ENOSPC" : fk == 1 ? "EIO" : "short"},
                                      {"status", r.status}, {"log", sys_json(r.sys)},
                                      {"outs", describe_outputs(snap, sc, dir, chunks)}});
                }
    }
    rm_rf(dir);
}

int main(int argc, char** argv)
{
    const char* td = getenv("VERIF_TMP");
    g_root = td ? td : "/tmp";
    if (argc != 6) { fprintf(stderr, "usage: wr_driver c14|c15|c16 <scenarios> <shard> <n> <out>\n"); return 2; }
    std::string mode = argv[1];
    unsigned shard = atoi(argv[3]), nshards = atoi(argv[4]);
    vh::trace().open(argv[5]);
    std::ifstream in(argv[2]);
    std::string line; uint64_t job = 0;
    while (std::getline(in, line)) {
        if (line.empty()) continue;
        if ((job++ % nshards) != shard) continue;
        do_scenario(mode, json::parse(line));
        vh::trace().flush();
    }
    vh::trace().emit({{"e", "END"}});
    vh::trace().close();
    return 0;
}
