// Timestamp driver (C17): calls the real CDNS::Timestamp operations (UBSan build) on
// boundary and random values and records arguments and results as Nat256 numbers.
//
//   ts_driver sweep <tier> <seed> <shard> <nshards> <out.ndjson>
// Trace events (one execution each):
//   {"e":"OFF","t":{s,t},"ref":{s,t},"tps":n,"r":{neg,a}}                       get_time_offset
//   {"e":"ADD","ref":{s,t},"off":{neg,a},"tps":n,"out":"ok|refused","res":{s,t}}  add_time_offset (res = value afterwards)
//   {"e":"INV","t":..,"ref":..,"tps":n,"out":..,"res":{s,t}}                     ref + offset(t, ref)
//   {"e":"CMP","a":..,"b":..,"tps":n,"lt":bool,"le":bool}                        operators on normalised values
#include "common.h"
#include "records.h"

using namespace CDNS;

static json snum(int64_t v) { return vr::snum(v); }

static void emit_off(const Timestamp& t, const Timestamp& ref, uint64_t tps) {
    Timestamp tt = t;
    json ev = {{"e", "OFF"}, {"t", vr::ts_out(t)}, {"ref", vr::ts_out(ref)}, {"tps", vh::nat(tps)}};
    vh::set_context(ev);
    try { ev["r"] = snum(tt.get_time_offset(ref, tps)); ev["out"] = "ok"; }
    catch (std::exception&) { ev["out"] = "refused"; }
    vh::trace().emit(ev);
}
static void emit_add(const Timestamp& ref, int64_t off, uint64_t tps) {
    Timestamp r = ref;
    json ev = {{"e", "ADD"}, {"ref", vr::ts_out(ref)}, {"off", snum(off)}, {"tps", vh::nat(tps)}};
    vh::set_context(ev);
    try { r.add_time_offset(off, tps); ev["out"] = "ok"; }
    catch (std::exception&) { ev["out"] = "refused"; }
    ev["res"] = vr::ts_out(r);
    vh::trace().emit(ev);
}
static void emit_inv(const Timestamp& t, const Timestamp& ref, uint64_t tps) {
    Timestamp tt = t, r = ref;
    json ev = {{"e", "INV"}, {"t", vr::ts_out(t)}, {"ref", vr::ts_out(ref)}, {"tps", vh::nat(tps)}};
    vh::set_context(ev);
    try { int64_t off = tt.get_time_offset(ref, tps); r.add_time_offset(off, tps); ev["out"] = "ok"; }
    catch (std::exception&) { ev["out"] = "refused"; }
    ev["res"] = vr::ts_out(r);
    vh::trace().emit(ev);
}
static void emit_cmp(const Timestamp& a, const Timestamp& b, uint64_t tps) {
    vh::trace().emit({{"e", "CMP"}, {"a", vr::ts_out(a)}, {"b", vr::ts_out(b)}, {"tps", vh::nat(tps)},
                      {"lt", a < b}, {"le", a <= b}});
}

int main(int argc, char** argv)
{
    if (argc != 7 || std::string(argv[1]) != "sweep") { fprintf(stderr, "usage: ts_driver sweep <tier> <seed> <shard> <n> <out>\n"); return 2; }
    bool thorough = std::string(argv[2]) == "thorough";
    uint64_t seed = strtoull(argv[3], nullptr, 10);
    unsigned shard = atoi(argv[4]), nshards = atoi(argv[5]);
    vh::trace().open(argv[6]);
    vh::install_crash_handlers();
    std::mt19937_64 rng(seed * 7 + 5);
    uint64_t job = 0;
    auto mine = [&]() { return (job++ % nshards) == shard; };

    std::vector<uint64_t> rates = {1, 2, 3, 7, 10, 1000, 1000000, 1000000000};
    const uint64_t LIM = (1ULL << 63) - 1;
    auto secs_for = [&](uint64_t tps) {
        std::vector<uint64_t> s = {0, 1, 2, 59, 1500000000ULL, 2147483647ULL, 2147483648ULL, 4294967295ULL, 4294967296ULL,
                                   9223372036ULL /* 2262 */};
        std::vector<uint64_t> out;
        for (auto v : s) if (v < LIM / tps) out.push_back(v);
        out.push_back(LIM / tps - 1);
        out.push_back(LIM / tps);          // the last, only partly representable second: ticks up to LIM % tps
        return out;
    };
    // (secs, ticks) stays within 2^63 - 1 ticks since the epoch
    auto inrange = [&](uint64_t s, uint64_t t, uint64_t tps) { return s < LIM / tps || (s == LIM / tps && t <= LIM % tps); };
    auto ticks_for = [&](uint64_t tps) {
        std::vector<uint64_t> t = {0, 1, tps / 2, tps - 1, LIM % tps, (LIM % tps) > 0 ? (LIM % tps) - 1 : 0};
        std::sort(t.begin(), t.end()); t.erase(std::unique(t.begin(), t.end()), t.end());
        std::vector<uint64_t> out; for (auto v : t) if (v < tps) out.push_back(v);
        return out;
    };
    // exhaustive small grid
    for (uint64_t tps = 1; tps <= 4; tps++)
        for (uint64_t s = 0; s <= 3; s++) for (uint64_t t = 0; t < tps; t++)
            for (uint64_t rs = 0; rs <= 3; rs++) for (uint64_t rt = 0; rt < tps; rt++) {
                if (!mine()) continue;
                Timestamp a(s, t), b(rs, rt);
                emit_off(a, b, tps); emit_inv(a, b, tps); emit_cmp(a, b, tps);
                for (int64_t off = -20; off <= 20; off++) emit_add(b, off, tps);
            }
    // boundary values at realistic rates
    std::vector<int64_t> offs = {0, 1, -1, 999, -999, 1000000, -1000000, INT64_MAX, INT64_MIN, INT64_MIN + 1, -INT64_MAX,
                                 2147483647LL, -2147483648LL, 4294967296LL, -4294967296LL};
    for (auto tps : rates) {
        auto ss = secs_for(tps); auto tt = ticks_for(tps);
        for (auto s : ss) for (auto t : tt) for (auto rs : ss) for (auto rt : tt) {
            if (!inrange(s, t, tps) || !inrange(rs, rt, tps)) continue;
            if (!mine()) continue;
            Timestamp a(s, t), b(rs, rt);
            emit_off(a, b, tps); emit_inv(a, b, tps); emit_cmp(a, b, tps);
        }
        for (auto rs : ss) for (auto rt : tt) for (auto off : offs) {
            if (!inrange(rs, rt, tps)) continue;
            // sums beyond 2^63 - 1 ticks are included: the result is unconstrained then, but the addition must be defined
            if (!mine()) continue;
            emit_add(Timestamp(rs, rt), off, tps);
        }
    }
    // rate 0 is refused whatever the offset
    for (auto off : offs) { if (mine()) { emit_add(Timestamp(5, 0), off, 0); emit_off(Timestamp(5, 0), Timestamp(1, 0), 0); } }
    // random
    unsigned n = thorough ? 400000 : 20000;
    for (unsigned i = 0; i < n; i++) {
        uint64_t tps = rates[rng() % rates.size()];
        if (rng() % 4 == 0) tps = 1 + rng() % 1000000000ULL;
        uint64_t maxs = LIM / tps - 1;
        unsigned bits = 1 + rng() % 63;
        uint64_t s = (rng() >> (64 - bits)) % (maxs + 1), rs = (rng() >> (64 - bits)) % (maxs + 1);
        if (rng() % 2) rs = s + (rng() % 3) - 1 > maxs ? s : s + (rng() % 3) - 1;
        if (rs > maxs) rs = maxs;
        uint64_t t = rng() % tps, rt = rng() % tps;
        if (!mine()) continue;
        Timestamp a(s, t), b(rs, rt);
        switch (rng() % 4) {
            case 0: emit_off(a, b, tps); break;
            case 1: emit_inv(a, b, tps); break;
            case 2: emit_cmp(a, b, tps); break;
            default: {
                unsigned ob = 1 + rng() % 63;
                int64_t off = static_cast<int64_t>(rng() >> (64 - ob));
                if (rng() % 2) off = -off - 1;
                __int128 total = static_cast<__int128>(rs) * tps + rt + off;
                if (total > static_cast<__int128>(LIM) && rng() % 4) off = -off;      // one in four stays beyond the range
                emit_add(b, off, tps);
            }
        }
    }
    vh::trace().emit({{"e", "END"}});
    vh::trace().close();
    return 0;
}
