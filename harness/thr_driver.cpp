// Concurrency driver (C20): N threads, each with its OWN exporter, encoder, reader,
// blocks and renderers on distinct outputs, run API histories concurrently without any
// synchronisation between them (the per-thread trace writers are separate objects too).
// Every thread writes a trace in exactly the format of exp_driver, so the very same
// TraceExporter specification validates every per-thread execution.
//
//   thr_driver run <histories.ndjson> <nthreads> <rounds> <out-prefix>
//       thread t executes histories t, t+N, ... (rounds times) -> <out-prefix>.<t>.ndjson
//   thr_driver seq <histories.ndjson> <nthreads> <rounds> <out-prefix>
//       the same work executed sequentially: the program of thread 0, then that of thread 1, ... on one thread
#include "exp_run.h"
#include <thread>
#include <atomic>
#include <sched.h>

static std::atomic<int> g_go{0};

static void worker(int t, int nthreads, int rounds, const std::vector<std::string>* lines, std::string outp)
{
    vh::Trace tr;
    tr.open(outp);
    while (!g_go.load()) sched_yield();
    for (int round = 0; round < rounds; round++) {
        for (size_t j = t; j < lines->size(); j += nthreads) {
            json h = json::parse((*lines)[j]);
            Run r;
            r.tr = &tr;
            r.tag = "_t" + std::to_string(t);
            r.run(h);
            // renderers on the same thread (they use per-call scratch buffers); with VERIF_RENDER_DIGEST the rendered text is
            // logged as a digest (an "output" of the work like the files: it must not depend on what other threads do)
            uint64_t rh = 1469598103934665603ULL;
            auto mix = [&](const std::string& s) { for (unsigned char c : s) { rh ^= c; rh *= 1099511628211ULL; } };
            for (auto& op : h["ops"]) {
                if (op["op"] == "qr") { auto g = vr::qr_in(op["r"]); mix(g.string()); }
                if (op["op"] == "mm") { auto g = vr::mm_in(op["r"]); mix(g.string()); }
                if (op["op"] == "aec") { auto g = vr::aec_in(op["r"]); mix(g.string()); }
            }
            if (getenv("VERIF_RENDER_DIGEST")) tr.emit({{"e", "OUT"}, {"why", "render"}, {"raw_ok", true}, {"bytes", json::array({json{{"l", json::array({rh & 0xFFFFFF, (rh >> 24) & 0xFFFFFF, (rh >> 48) & 0xFFFF})}}})}});
            if ((j & 3) == 0) sched_yield();
        }
    }
    tr.emit({{"e", "END"}});
    tr.close();
}

// readers: every thread has its own stream, reader and blocks and reads (and renders) a list of files, among them
// files from other producers (unknown members, indefinite lengths) so that the skip / default branches run concurrently
static void read_worker(int t, int rounds, const std::vector<std::string>* paths, std::string outp)
{
    vh::Trace tr;
    tr.open(outp);
    while (!g_go.load()) sched_yield();
    for (int round = 0; round < rounds; round++) {
        for (size_t k = 0; k < paths->size(); k++) {
            const std::string& path = (*paths)[(k + t * 7) % paths->size()];
            std::string bytes = vh::read_file(path);
            tr.emit({{"e", "RD"}, {"file", path.substr(path.find_last_of('/') + 1)}, {"rd", vr::reader_dump(bytes)}});
            if ((k & 7) == 0) sched_yield();
        }
    }
    tr.emit({{"e", "END"}});
    tr.close();
}

// copies of one read block, one per thread: a copy is an instance of its own.  The main thread reads every block of a file and
// makes N copies of it; N threads then walk their copies at the same time (every item through read_generic_*, rendered too).
// What each thread gets is compared with the walk of a block read independently, alone, before any thread started.
static std::string walk_block(CdnsBlockRead& blk)
{
    uint64_t h = 1469598103934665603ULL;
    std::size_t n = 0;
    auto mix = [&](const std::string& s) { for (unsigned char c : s) { h ^= c; h *= 1099511628211ULL; } h ^= 0xff; h *= 1099511628211ULL; };
    bool end = false;
    while (true) { GenericQueryResponse g = blk.read_generic_qr(end); if (end) break; mix(vr::qr_out(g).dump()); mix(g.string()); n++; }
    while (true) { GenericAddressEventCount g = blk.read_generic_aec(end); if (end) break; mix(vr::aec_out(g).dump()); mix(g.string()); n++; }
    while (true) { GenericMalformedMessage g = blk.read_generic_mm(end); if (end) break; mix(vr::mm_out(g).dump()); mix(g.string()); n++; }
    char buf[64];
    snprintf(buf, sizeof(buf), "%zu:%016llx", n, static_cast<unsigned long long>(h));
    return buf;
}
typedef std::vector<std::unique_ptr<CdnsBlockRead>> Blocks;
static Blocks read_blocks(const std::string& bytes)
{
    Blocks out;
    try {
        std::istringstream is(bytes, std::ios::binary);
        CdnsReader rd(is);
        bool eof = false;
        while (true) { CdnsBlockRead b = rd.read_block(eof); if (eof) break; out.emplace_back(new CdnsBlockRead(b)); }
    } catch (std::exception&) {}
    return out;
}
static int read_copies(const std::vector<std::string>& paths, int nthreads, int rounds, const std::string& outp)
{
    vh::Trace tr;
    tr.open(outp);
    for (int round = 0; round < rounds; round++)
    for (auto& path : paths) {
        std::string bytes = vh::read_file(path);
        std::string name = path.substr(path.find_last_of('/') + 1);
        // alone: an independent reading of the file, walked before any thread exists
        json alone = json::array();
        { auto bl = read_blocks(bytes); for (auto& b : bl) alone.push_back(walk_block(*b)); }
        auto blocks = read_blocks(bytes);
        std::vector<Blocks> copies(nthreads);
        for (int t = 0; t < nthreads; t++) for (auto& b : blocks) {
            if (t % 3 == 0) copies[t].emplace_back(new CdnsBlockRead(*b));                                          // copy construction
            else if (t % 3 == 1) { copies[t].emplace_back(new CdnsBlockRead()); *copies[t].back() = *b; }           // copy assignment
            else { CdnsBlockRead tmp(*b); copies[t].emplace_back(new CdnsBlockRead(std::move(tmp))); }              // a copy handed on by move
        }
        std::vector<json> got(nthreads);
        std::atomic<int> go{0};
        std::vector<std::thread> ths;
        for (int t = 0; t < nthreads; t++)
            ths.emplace_back([&, t] {
                while (!go.load()) sched_yield();
                json r = json::array();
                for (auto& b : copies[t]) { r.push_back(walk_block(*b)); if (t & 1) sched_yield(); }
                got[t] = r;
            });
        go.store(1);
        for (auto& th : ths) th.join();
        for (int t = 0; t < nthreads; t++)
            tr.emit({{"e", "S"}, {"file", name}, {"thread", t}, {"rd_seq", {{"fin", "eof"}, {"blocks", alone}}}, {"rd_thr", {{"fin", "eof"}, {"blocks", got[t]}}}});
    }
    tr.emit({{"e", "END"}});
    tr.close();
    return 0;
}

int main(int argc, char** argv)
{
    const char* td = getenv("VERIF_TMP");
    g_tmpdir = td ? td : "/tmp";
    g_inproc_decompress = true;
    if (argc == 6 && std::string(argv[1]) == "read") {
        int nthreads = atoi(argv[3]), rounds = atoi(argv[4]);
        std::vector<std::string> paths;
        { std::ifstream in(argv[2]); std::string l; while (std::getline(in, l)) if (!l.empty()) paths.push_back(l); }
        std::vector<std::thread> ths;
        for (int t = 0; t < nthreads; t++)
            ths.emplace_back(read_worker, t, rounds, &paths, std::string(argv[5]) + "." + std::to_string(t) + ".ndjson");
        g_go.store(1);
        for (auto& th : ths) th.join();
        return 0;
    }
    if (argc == 6 && std::string(argv[1]) == "readcopies") {
        std::vector<std::string> paths;
        { std::ifstream in(argv[2]); std::string l; while (std::getline(in, l)) if (!l.empty()) paths.push_back(l); }
        return read_copies(paths, atoi(argv[3]), atoi(argv[4]), std::string(argv[5]) + ".copies.ndjson");
    }
    if (argc == 6 && std::string(argv[1]) == "seq") {
        int nthreads = atoi(argv[3]), rounds = atoi(argv[4]);
        std::vector<std::string> lines;
        { std::ifstream in(argv[2]); std::string l; while (std::getline(in, l)) if (!l.empty()) lines.push_back(l); }
        g_go.store(1);
        for (int t = 0; t < nthreads; t++)
            worker(t, nthreads, rounds, &lines, std::string(argv[5]) + "." + std::to_string(t) + ".ndjson");
        return 0;
    }
    if (argc != 6 || std::string(argv[1]) != "run") { fprintf(stderr, "usage: thr_driver run <histories> <nthreads> <rounds> <out-prefix>\n"); return 2; }
    int nthreads = atoi(argv[3]), rounds = atoi(argv[4]);
    std::vector<std::string> lines;
    { std::ifstream in(argv[2]); std::string l; while (std::getline(in, l)) if (!l.empty()) lines.push_back(l); }
    std::vector<std::thread> ths;
    for (int t = 0; t < nthreads; t++)
        ths.emplace_back(worker, t, nthreads, rounds, &lines, std::string(argv[5]) + "." + std::to_string(t) + ".ndjson");
    g_go.store(1);
    for (auto& th : ths) th.join();
    return 0;
}
