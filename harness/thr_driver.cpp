// Concurrency driver (C20): N threads, each with its OWN exporter, encoder, reader,
// blocks and renderers on distinct outputs, run API histories concurrently without any
// synchronisation between them (the per-thread trace writers are separate objects too).
// Every thread writes a trace in exactly the format of exp_driver, so the very same
// TraceExporter specification validates every per-thread execution.
//
//   thr_driver run <histories.ndjson> <nthreads> <rounds> <out-prefix>
//       thread t executes histories t, t+N, ... (rounds times) -> <out-prefix>.<t>.ndjson
//   thr_driver seq <histories.ndjson> <nthreads> <rounds> <out-prefix>
//       the same work executed sequentially: the program of thread 0, then that of thread 1, ... on one thread
#include "exp_run.h"
#include <thread>
#include <atomic>
#include <sched.h>

static std::atomic<int> g_go{0};

static void worker(int t, int nthreads, int rounds, const std::vector<std::string>* lines, std::string outp)
{
    vh::Trace tr;
    tr.open(outp);
    while (!g_go.load()) sched_yield();
    for (int round = 0; round < rounds; round++) {
        for (size_t j = t; j < lines->size(); j += nthreads) {
            json h = json::parse((*lines)[j]);
            Run r;
            r.tr = &tr;
            r.tag = "_t" + std::to_string(t);
            r.run(h);
            // renderers on the same thread (they use per-call scratch buffers); with VERIF_RENDER_DIGEST the rendered text is
            // logged as a digest (an "output" of the work like the files: it must not depend on what other threads do)
            uint64_t rh = 1469598103934665603ULL;
            auto mix = [&](const std::string& s) { for (unsigned char c : s) { rh ^= c; rh *= 1099511628211ULL; } };
            for (auto& op : h["ops"]) {
                if (op["op"] == "qr") { auto g = vr::qr_in(op["r"]); mix(g.string()); }
                if (op["op"] == "mm") { auto g = vr::mm_in(op["r"]); mix(g.string()); }
                if (op["op"] == "aec") { auto g = vr::aec_in(op["r"]); mix(g.string()); }
            }
            if (getenv("VERIF_RENDER_DIGEST")) tr.emit({{"e", "OUT"}, {"why", "render"}, {"raw_ok", true}, {"bytes", json::array({json{{"l", json::array({rh & 0xFFFFFF, (rh >> 24) & 0xFFFFFF, (rh >> 48) & 0xFFFF})}}})}});
            if ((j & 3) == 0) sched_yield();
        }
    }
    tr.emit({{"e", "END"}});
    tr.close();
}

// readers: every thread has its own stream, reader and blocks and reads (and renders) a list of files, among them
// files from other producers (unknown members, indefinite lengths) so that the skip / default branches run concurrently
static void read_worker(int t, int rounds, const std::vector<std::string>* paths, std::string outp)
{
    vh::Trace tr;
    tr.open(outp);
    while (!g_go.load()) sched_yield();
    for (int round = 0; round < rounds; round++) {
        for (size_t k = 0; k < paths->size(); k++) {
            const std::string& path = (*paths)[(k + t * 7) % paths->size()];
            std::string bytes = vh::read_file(path);
            tr.emit({{"e", "RD"}, {"file", path.substr(path.find_last_of('/') + 1)}, {"rd", vr::reader_dump(bytes)}});
            if ((k & 7) == 0) sched_yield();
        }
    }
    tr.emit({{"e", "END"}});
    tr.close();
}

int main(int argc, char** argv)
{
    const char* td = getenv("VERIF_TMP");
    g_tmpdir = td ? td : "/tmp";
    g_inproc_decompress = true;
    if (argc == 6 && std::string(argv[1]) == "read") {
        int nthreads = atoi(argv[3]), rounds = atoi(argv[4]);
        std::vector<std::string> paths;
        { std::ifstream in(argv[2]); std::string l; while (std::getline(in, l)) if (!l.empty()) paths.push_back(l); }
        std::vector<std::thread> ths;
        for (int t = 0; t < nthreads; t++)
            ths.emplace_back(read_worker, t, rounds, &paths, std::string(argv[5]) + "." + std::to_string(t) + ".ndjson");
        g_go.store(1);
        for (auto& th : ths) th.join();
        return 0;
    }
    if (argc == 6 && std::string(argv[1]) == "seq") {
        int nthreads = atoi(argv[3]), rounds = atoi(argv[4]);
        std::vector<std::string> lines;
        { std::ifstream in(argv[2]); std::string l; while (std::getline(in, l)) if (!l.empty()) lines.push_back(l); }
        g_go.store(1);
        for (int t = 0; t < nthreads; t++)
            worker(t, nthreads, rounds, &lines, std::string(argv[5]) + "." + std::to_string(t) + ".ndjson");
        return 0;
    }
    if (argc != 6 || std::string(argv[1]) != "run") { fprintf(stderr, "usage: thr_driver run <histories> <nthreads> <rounds> <out-prefix>\n"); return 2; }
    int nthreads = atoi(argv[3]), rounds = atoi(argv[4]);
    std::vector<std::string> lines;
    { std::ifstream in(argv[2]); std::string l; while (std::getline(in, l)) if (!l.empty()) lines.push_back(l); }
    std::vector<std::thread> ths;
    for (int t = 0; t < nthreads; t++)
        ths.emplace_back(worker, t, nthreads, rounds, &lines, std::string(argv[5]) + "." + std::to_string(t) + ".ndjson");
    g_go.store(1);
    for (auto& th : ths) th.join();
    return 0;
}
