// Shared helpers for the c-dns verification drivers.
// The drivers only OBSERVE the implementation and write NDJSON traces; every
// verdict is taken by TLC evaluating the TLA+ specification on those traces.
#pragma once

#include <ctime>
#include <cstdint>
#include <cstdio>
#include <cstdlib>
#include <cstring>
#include <csignal>
#include <string>
#include <vector>
#include <fstream>
#include <sstream>
#include <random>
#include <exception>
#include <unistd.h>
#include <fcntl.h>
#include <sys/mman.h>
#include <sys/stat.h>

#include <nlohmann/json.hpp>

using json = nlohmann::json;

namespace vh {
// CPU time of this process in ms (C03's "time proportional to the input" is judged on CPU time: wall time depends on the load)
inline long cpu_ms() { timespec ts; clock_gettime(CLOCK_PROCESS_CPUTIME_ID, &ts); return ts.tv_sec * 1000L + ts.tv_nsec / 1000000L; }

// ---- trace output -------------------------------------------------------
struct Trace {
    FILE* f = nullptr;
    std::string path;
    uint64_t lines = 0;
    std::vector<char> buf;
    void open(const std::string& p) {
        path = p;
        f = fopen(p.c_str(), "w");
        if (!f) { perror(p.c_str()); _exit(3); }
        buf.resize(1 << 20);       // per-trace buffer: traces of different threads share nothing
        setvbuf(f, buf.data(), _IOFBF, buf.size());
    }
    void emit(const json& j) {
        std::string s = j.dump();
        fwrite(s.data(), 1, s.size(), f);
        fputc('\n', f);
        lines++;
    }
    void flush() { if (f) fflush(f); }
    void close() { if (f) { fclose(f); f = nullptr; } }
};

inline Trace& trace() { static Trace t; return t; }

// A crash of the implementation must not lose the trace: it is flushed and an
// explicit event is appended, which the trace specification rejects.
// what the driver was about to do when the implementation crashed (set before risky calls)
inline std::string& context() { static std::string c; return c; }
inline void set_context(const json& j) { context() = j.dump(); }
inline void crash_event(const char* what) {
    Trace& t = trace();
    if (t.f) {
        if (!context().empty()) fprintf(t.f, "{\"e\":\"CRASH\",\"what\":\"%s\",\"during\":%s}\n{\"e\":\"END\"}\n", what, context().c_str());
        else fprintf(t.f, "{\"e\":\"CRASH\",\"what\":\"%s\"}\n{\"e\":\"END\"}\n", what);
        fflush(t.f);
    }
}
inline void on_signal(int sig) {
    crash_event(sig == SIGSEGV ? "SIGSEGV" : sig == SIGABRT ? "SIGABRT" : sig == SIGBUS ? "SIGBUS" : sig == SIGFPE ? "SIGFPE" : "signal");
    _exit(0);
}
inline void on_terminate() {
    crash_event("terminate");
    _exit(0);
}
inline void install_crash_handlers() {
    std::set_terminate(on_terminate);
    signal(SIGSEGV, on_signal);
    signal(SIGABRT, on_signal);
    signal(SIGBUS, on_signal);
    signal(SIGFPE, on_signal);
}

// ---- byte strings as JSON -----------------------------------------------
// "segments": a list of {"l":[..literal bytes..]} and {"b":byte,"n":count}
// records (run-length form for long runs).  Lossless; expanded by Bytes/Trace
// modules on the TLA+ side.
inline json segs(const uint8_t* p, size_t n) {
    json out = json::array();
    size_t i = 0;
    json lit = json::array();
    auto flush_lit = [&]() {
        if (!lit.empty()) { out.push_back({{"l", lit}}); lit = json::array(); }
    };
    while (i < n) {
        size_t j = i + 1;
        while (j < n && p[j] == p[i]) j++;
        if (j - i >= 24) {
            flush_lit();
            out.push_back({{"b", p[i]}, {"n", j - i}});
        } else {
            for (size_t k = i; k < j; k++) lit.push_back(p[k]);
        }
        i = j;
    }
    flush_lit();
    return out;
}
inline json segs(const std::string& s) { return segs(reinterpret_cast<const uint8_t*>(s.data()), s.size()); }
inline json segs(const std::vector<uint8_t>& v) { return segs(v.data(), v.size()); }

// plain JSON array of bytes
inline json barr(const uint8_t* p, size_t n) {
    json a = json::array();
    for (size_t i = 0; i < n; i++) a.push_back(p[i]);
    return a;
}
inline json barr(const std::string& s) { return barr(reinterpret_cast<const uint8_t*>(s.data()), s.size()); }

// 8-byte big-endian two's-complement image of an integer (sign-extended)
inline json img8(uint64_t v) {
    json a = json::array();
    for (int i = 7; i >= 0; i--) a.push_back(static_cast<unsigned>((v >> (8 * i)) & 0xFF));
    return a;
}
inline json img8s(int64_t v) { return img8(static_cast<uint64_t>(v)); }

// canonical unsigned number: big-endian bytes, leading zeros stripped (Nat256)
inline json nat(uint64_t v) {
    json a = json::array();
    bool started = false;
    for (int i = 7; i >= 0; i--) {
        unsigned b = (v >> (8 * i)) & 0xFF;
        if (b || started) { a.push_back(b); started = true; }
    }
    return a;
}
// signed number: {"n":[..]} for v >= 0, {"m":[..]} for v < 0 with m = -1 - v
inline json znum(int64_t v) {
    if (v >= 0) return json{{"n", nat(static_cast<uint64_t>(v))}};
    return json{{"m", nat(~static_cast<uint64_t>(v))}};
}

inline std::string bytes_from_json(const json& a) {
    std::string s;
    for (auto& x : a) s.push_back(static_cast<char>(x.get<int>()));
    return s;
}
inline uint64_t u64_from_nat(const json& a) {
    uint64_t v = 0;
    for (auto& x : a) v = (v << 8) | static_cast<uint64_t>(x.get<int>());
    return v;
}

// ---- files ----------------------------------------------------------------
inline std::string read_file(const std::string& path) {
    std::ifstream f(path, std::ios::binary);
    std::stringstream ss;
    ss << f.rdbuf();
    return ss.str();
}
inline std::string read_fd_range(int fd, off_t from, off_t to) {
    std::string s(static_cast<size_t>(to - from), '\0');
    size_t got = 0;
    while (got < s.size()) {
        ssize_t r = pread(fd, &s[got], s.size() - got, from + got);
        if (r <= 0) break;
        got += r;
    }
    s.resize(got);
    return s;
}
inline off_t fd_size(int fd) {
    struct stat st;
    if (fstat(fd, &st) != 0) return -1;
    return st.st_size;
}
inline int new_memfd(const char* name = "vh") {
    int fd = memfd_create(name, 0);
    if (fd < 0) { perror("memfd_create"); _exit(3); }
    return fd;
}

inline uint64_t env_u64(const char* name, uint64_t dflt) {
    const char* v = getenv(name);
    if (!v || !*v) return dflt;
    return strtoull(v, nullptr, 10);
}

} // namespace vh
