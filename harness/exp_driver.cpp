// Exporter / reader driver (C01, C02, C04, C09, C10, C12, C13): executes API
// histories (JSON, one per line) on the real CdnsExporter and records every call's
// return value and counters, the decompressed bytes of every closed output and
// what the library's own reader returns for them.
//
//   exp_driver run <histories.ndjson> <shard> <nshards> <out.ndjson>
//
// History: {"comp":"none|gz|xz","out":"file|fd","preamble":{..},"ops":[..]}
// Trace events:
//   {"e":"R", comp, out, preamble}
//   {"e":"C","op":{..},"ret":n,"cnt":{items,qr,aec,mm,bw,active},"exc":msg?}
//   {"e":"OUT","why":"rot|destroy","bytes":segs,"rd":{reader dump},"raw_ok":bool}
#include "exp_run.h"

int main(int argc, char** argv)
{
    const char* td = getenv("VERIF_TMP");
    g_tmpdir = td ? td : "/tmp";
    if (argc == 6 && std::string(argv[1]) == "run") {
        unsigned shard = atoi(argv[3]), nshards = atoi(argv[4]);
        vh::trace().open(argv[5]);
        vh::install_crash_handlers();
        std::ifstream in(argv[2]);
        std::string line;
        uint64_t job = 0;
        while (std::getline(in, line)) {
            if (line.empty()) continue;
            if ((job++ % nshards) != shard) continue;
            json h = json::parse(line);
            Run r;
            r.history_no = job - 1;
            r.run(h);
        }
    } else {
        fprintf(stderr, "usage: exp_driver run <histories> <shard> <nshards> <out>\n");
        return 2;
    }
    vh::trace().emit({{"e", "END"}});
    vh::trace().close();
    return 0;
}
