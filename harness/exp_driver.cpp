// Exporter / reader driver (C01, C02, C04, C09, C10, C12, C13): executes API
// histories (JSON, one per line) on the real CdnsExporter and records every call's
// return value and counters, the decompressed bytes of every closed output and
// what the library's own reader returns for them.
//
//   exp_driver run <histories.ndjson> <shard> <nshards> <out.ndjson>
//
// History: {"comp":"none|gz|xz","out":"file|fd","preamble":{..},"ops":[..]}
// Trace events:
//   {"e":"R", comp, out, preamble}
//   {"e":"C","op":{..},"ret":n,"cnt":{items,qr,aec,mm,bw,active},"exc":msg?}
//   {"e":"OUT","why":"rot|destroy","bytes":segs,"rd":{reader dump},"raw_ok":bool}
#include "common.h"
#include "probe.h"
#include "records.h"
#include <memory>

using namespace CDNS;

static std::string g_tmpdir;

static std::string decompress(const std::string& path, const std::string& comp, bool& ok)
{
    ok = true;
    if (comp == "none") return vh::read_file(path);
    bool gz = comp == "gz";
    std::string cmd = std::string("python3 -c \"import sys,zlib,lzma\nd=open(sys.argv[1],'rb').read()\n") +
        (gz ? "o=zlib.decompressobj(31)\nr=o.decompress(d)\nassert o.eof and not o.unused_data\n"
            : "o=lzma.LZMADecompressor(lzma.FORMAT_XZ)\nr=o.decompress(d)\nassert o.eof and not o.unused_data\n") +
        "sys.stdout.buffer.write(r)\" '" + path + "' 2>/dev/null";
    FILE* p = popen(cmd.c_str(), "r");
    std::string out;
    char buf[65536];
    size_t n;
    while ((n = fread(buf, 1, sizeof(buf), p)) > 0) out.append(buf, n);
    int rc = pclose(p);
    if (rc != 0) ok = false;
    return out;
}

struct Run {
    std::string comp, outkind;
    std::unique_ptr<CdnsExporter> exp;
    std::string cur_name;   // file kind: base name of current output
    std::string cur_path;   // fd kind: path of the file behind the descriptor
    int serial = 0;

    CborOutputCompression cc() const {
        return comp == "gz" ? CborOutputCompression::GZIP : comp == "xz" ? CborOutputCompression::XZ
                                                                         : CborOutputCompression::NO_COMPRESSION;
    }
    std::string suffix() const { return comp == "gz" ? ".gz" : comp == "xz" ? ".xz" : ""; }
    std::string fresh() { return g_tmpdir + "/exp_" + std::to_string(getpid()) + "_" + std::to_string(serial++); }

    void counters(json& ev) {
        ev["cnt"] = {{"items", exp->get_block_item_count()}, {"qr", exp->get_block_qr_count()},
                     {"aec", exp->get_block_aec_count()}, {"mm", exp->get_block_mm_count()},
                     {"bw", exp->get_blocks_written_count()}, {"active", exp->get_active_block_parameters()}};
    }
    void emit_out(const std::string& why, const std::string& path) {
        bool ok = true;
        std::string data = decompress(path, comp, ok);
        json ev = {{"e", "OUT"}, {"why", why}, {"raw_ok", ok}, {"bytes", vh::segs(data)}};
        if (!data.empty()) ev["rd"] = vr::reader_dump(data);
        vh::trace().emit(ev);
        unlink(path.c_str());
    }
    void open_first(FilePreamble& fp) {
        if (outkind == "file") {
            cur_name = fresh();
            exp.reset(new CdnsExporter(fp, cur_name, cc()));
        } else {
            cur_path = fresh() + ".fd";
            int fd = ::open(cur_path.c_str(), O_CREAT | O_WRONLY | O_TRUNC, 0600);
            exp.reset(new CdnsExporter(fp, fd, cc()));
        }
    }
    std::size_t rotate(bool exp_block) {
        std::size_t r;
        if (outkind == "file") {
            std::string old = cur_name;
            std::string next = fresh();
            r = exp->rotate_output(next, exp_block);
            cur_name = next;
            json ev; // OUT is emitted by the caller after the C event
            pending_out = old + suffix();
        } else {
            std::string oldp = cur_path;
            std::string next = fresh() + ".fd";
            int fd = ::open(next.c_str(), O_CREAT | O_WRONLY | O_TRUNC, 0600);
            r = exp->rotate_output(fd, exp_block);
            cur_path = next;
            pending_out = oldp;
        }
        return r;
    }
    std::string pending_out;

    void run(const json& h) {
        comp = h.value("comp", "none");
        outkind = h.value("out", "file");
        vh::trace().emit({{"e", "R"}, {"comp", comp}, {"out", outkind}, {"preamble", h["preamble"]}});
        FilePreamble fp = vr::preamble_in(h["preamble"]);
        open_first(fp);
        for (auto& op : h["ops"]) {
            std::string o = op["op"];
            json ev = {{"e", "C"}, {"op", op}};
            std::size_t ret = 0;
            pending_out.clear();
            try {
                boost::optional<BlockStatistics> st;
                if (op.contains("stats")) st = vr::stats_in(op["stats"]);
                if (o == "qr") ret = exp->buffer_qr(vr::qr_in(op["r"]), st);
                else if (o == "aec") ret = exp->buffer_aec(vr::aec_in(op["r"]), st);
                else if (o == "mm") ret = exp->buffer_mm(vr::mm_in(op["r"]), st);
                else if (o == "wb") ret = exp->write_block();
                else if (o == "rot") ret = rotate(op.value("export", false));
                else if (o == "addbp") { BlockParameters bp = vr::bp_in(op["bp"]); ret = exp->add_block_parameters(bp); }
                else if (o == "setbp") ret = exp->set_active_block_parameters(static_cast<index_t>(op["i"].get<uint64_t>())) ? 1 : 0;
                else if (o == "counts") ret = 0;
                else { fprintf(stderr, "unknown op %s\n", o.c_str()); _exit(3); }
            } catch (std::exception& e) {
                ev["exc"] = std::string(e.what()).substr(0, 200);
            }
            ev["ret"] = ret;
            counters(ev);
            vh::trace().emit(ev);
            if (!pending_out.empty()) emit_out("rot", pending_out);
        }
        // destruction closes the last output
        std::string last = outkind == "file" ? cur_name + suffix() : cur_path;
        exp.reset();
        emit_out("destroy", last);
    }
};

int main(int argc, char** argv)
{
    const char* td = getenv("VERIF_TMP");
    g_tmpdir = td ? td : "/tmp";
    if (argc == 6 && std::string(argv[1]) == "run") {
        unsigned shard = atoi(argv[3]), nshards = atoi(argv[4]);
        vh::trace().open(argv[5]);
        vh::install_crash_handlers();
        std::ifstream in(argv[2]);
        std::string line;
        uint64_t job = 0;
        while (std::getline(in, line)) {
            if (line.empty()) continue;
            if ((job++ % nshards) != shard) continue;
            json h = json::parse(line);
            Run r;
            r.run(h);
        }
    } else {
        fprintf(stderr, "usage: exp_driver run <histories> <shard> <nshards> <out>\n");
        return 2;
    }
    vh::trace().emit({{"e", "END"}});
    vh::trace().close();
    return 0;
}
