// Exporter / reader driver (C01, C02, C04, C09, C10, C12, C13): executes API
// histories (JSON, one per line) on the real CdnsExporter and records every call's
// return value and counters, the decompressed bytes of every closed output and
// what the library's own reader returns for them.
//
//   exp_driver run <histories.ndjson> <shard> <nshards> <out.ndjson>
//   exp_driver run2 <histories.ndjson> <shard> <nshards> <outA.ndjson> <outB.ndjson>
//       histories 2k and 2k+1 are executed by two instances operated alternately on one thread (their calls interleaved
//       pseudo-randomly); each instance writes its own trace, validated like any other execution
//
// History: {"comp":"none|gz|xz","out":"file|fd","preamble":{..},"ops":[..]}
// Trace events:
//   {"e":"R", comp, out, preamble}
//   {"e":"C","op":{..},"ret":n,"cnt":{items,qr,aec,mm,bw,active},"exc":msg?}
//   {"e":"OUT","why":"rot|destroy","bytes":segs,"rd":{reader dump},"raw_ok":bool}
#include "exp_run.h"

int main(int argc, char** argv)
{
    const char* td = getenv("VERIF_TMP");
    g_tmpdir = td ? td : "/tmp";
    // descriptors 0..2 are taken, as in any ordinary process (the trace file must not end up on descriptor 0: histories rotate to it)
    while (true) { int f = ::open("/dev/null", O_RDWR); if (f < 0 || f > 2) { if (f > 2) ::close(f); break; } }
    if (argc == 6 && std::string(argv[1]) == "run") {
        unsigned shard = atoi(argv[3]), nshards = atoi(argv[4]);
        vh::trace().open(argv[5]);
        vh::install_crash_handlers();
        std::ifstream in(argv[2]);
        std::string line;
        uint64_t job = 0;
        while (std::getline(in, line)) {
            if (line.empty()) continue;
            if ((job++ % nshards) != shard) continue;
            json h = json::parse(line);
            Run r;
            r.history_no = job - 1;
            r.run(h);
        }
    } else if (argc == 4 && std::string(argv[1]) == "many") {
        // One output that receives very many blocks (max_block_items = 1, n records), closed by a rotation; then a second
        // output with a few blocks, closed by destruction.  Only sizes and counts are logged (the files are MiB large):
        // reported byte counts, file sizes, blocks and record ids the library's reader returns, occurrences of the file
        // type id.  {"e":"MANY", ...} is judged by TraceExporter.
        vh::trace().open(argv[3]);
        vh::install_crash_handlers();
        for (uint64_t n : {static_cast<uint64_t>(atoll(argv[2]))}) {
            std::string p1 = g_tmpdir + "/many_" + std::to_string(getpid()) + "_1", p2 = g_tmpdir + "/many_" + std::to_string(getpid()) + "_2";
            uint64_t rep1 = 0, rep2 = 0, nz = 0;
            {
                FilePreamble fp;
                fp.m_block_parameters[0].storage_parameters.max_block_items = 1;
                CdnsExporter ex(fp, p1, CborOutputCompression::NO_COMPRESSION);
                for (uint64_t i = 0; i < n; i++) {
                    GenericQueryResponse g; g.transaction_id = static_cast<uint16_t>(i & 0xFFFF); g.client_port = static_cast<uint16_t>((i >> 16) + 1);
                    std::size_t r = ex.buffer_qr(g); rep1 += r; if (r) nz++;
                }
                rep1 += ex.rotate_output(p2, true);
                for (uint64_t i = 0; i < 3; i++) { GenericQueryResponse g; g.transaction_id = static_cast<uint16_t>(i); rep2 += ex.buffer_qr(g); }
            }
            auto summary = [&](const std::string& path, uint64_t want) {
                std::string data = vh::read_file(path);
                uint64_t blocks = 0, ids_ok = 1, headers = 0;
                std::string fin = "eof";
                for (size_t pos = data.find("eC-DNS"); pos != std::string::npos; pos = data.find("eC-DNS", pos + 1)) headers++;
                try {
                    std::istringstream is(data, std::ios::binary);
                    CdnsReader rd(is);
                    bool eof = false;
                    uint64_t i = 0;
                    while (true) {
                        CdnsBlockRead b = rd.read_block(eof);
                        if (eof) break;
                        blocks++;
                        bool end = false;
                        while (true) { GenericQueryResponse g = b.read_generic_qr(end); if (end) break;
                                       if (!g.transaction_id || *g.transaction_id != (i & 0xFFFF)) ids_ok = 0; i++; }
                    }
                    if (i != want) ids_ok = 0;
                } catch (CdnsDecoderEnd&) { fin = "end"; } catch (std::exception&) { fin = "err"; }
                unlink(path.c_str());
                return json{{"size", data.size()}, {"blocks", blocks}, {"ids_ok", ids_ok == 1}, {"headers", headers}, {"fin", fin},
                            {"last", data.empty() ? -1 : static_cast<int>(static_cast<unsigned char>(data.back()))}};
            };
            vh::trace().emit({{"e", "MANY"}, {"n", n}, {"nonzero_returns", nz}, {"rep1", rep1}, {"rep2", rep2},
                              {"out1", summary(p1, n)}, {"out2", summary(p2, 3)}});
        }
    } else if (argc == 7 && std::string(argv[1]) == "run2") {
        unsigned shard = atoi(argv[3]), nshards = atoi(argv[4]);
        vh::trace().open(argv[5]);
        vh::Trace trb;
        trb.open(argv[6]);
        vh::install_crash_handlers();
        std::ifstream in(argv[2]);
        std::string l1, l2;
        uint64_t pair = 0;
        while (std::getline(in, l1) && std::getline(in, l2)) {
            if (l1.empty() || l2.empty()) continue;
            if ((pair++ % nshards) != shard) continue;
            json ha = json::parse(l1), hb = json::parse(l2);
            Run a, b;
            a.tag = "_a"; b.tag = "_b"; b.tr = &trb;
            a.history_no = 2 * (pair - 1); b.history_no = 2 * (pair - 1) + 1;
            uint64_t x = pair * 2654435761u + 12345;
            auto coin = [&]() { x = x * 6364136223846793005ULL + 1442695040888963407ULL; return (x >> 33) & 1; };
            if (coin()) { a.begin(ha); b.begin(hb); } else { b.begin(hb); a.begin(ha); }
            size_t ia = 0, ib = 0, na = ha["ops"].size(), nb = hb["ops"].size();
            while (ia < na || ib < nb) {
                bool pa = ib >= nb || (ia < na && coin());
                if (pa) a.step(ha["ops"][ia++]); else b.step(hb["ops"][ib++]);
            }
            if (coin()) { a.finish(ha); b.finish(hb); } else { b.finish(hb); a.finish(ha); }
        }
        trb.emit({{"e", "END"}});
        trb.close();
    } else {
        fprintf(stderr, "usage: exp_driver run <histories> <shard> <nshards> <out>\n");
        return 2;
    }
    vh::trace().emit({{"e", "END"}});
    vh::trace().close();
    return 0;
}
