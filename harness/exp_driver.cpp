// Exporter / reader driver (C01, C02, C04, C09, C10, C12, C13): executes API
// histories (JSON, one per line) on the real CdnsExporter and records every call's
// return value and counters, the decompressed bytes of every closed output and
// what the library's own reader returns for them.
//
//   exp_driver run <histories.ndjson> <shard> <nshards> <out.ndjson>
//   exp_driver run2 <histories.ndjson> <shard> <nshards> <outA.ndjson> <outB.ndjson>
//       histories 2k and 2k+1 are executed by two instances operated alternately on one thread (their calls interleaved
//       pseudo-randomly); each instance writes its own trace, validated like any other execution
//
// History: {"comp":"none|gz|xz","out":"file|fd","preamble":{..},"ops":[..]}
// Trace events:
//   {"e":"R", comp, out, preamble}
//   {"e":"C","op":{..},"ret":n,"cnt":{items,qr,aec,mm,bw,active},"exc":msg?}
//   {"e":"OUT","why":"rot|destroy","bytes":segs,"rd":{reader dump},"raw_ok":bool}
#include "exp_run.h"

int main(int argc, char** argv)
{
    const char* td = getenv("VERIF_TMP");
    g_tmpdir = td ? td : "/tmp";
    if (argc == 6 && std::string(argv[1]) == "run") {
        unsigned shard = atoi(argv[3]), nshards = atoi(argv[4]);
        vh::trace().open(argv[5]);
        vh::install_crash_handlers();
        std::ifstream in(argv[2]);
        std::string line;
        uint64_t job = 0;
        while (std::getline(in, line)) {
            if (line.empty()) continue;
            if ((job++ % nshards) != shard) continue;
            json h = json::parse(line);
            Run r;
            r.history_no = job - 1;
            r.run(h);
        }
    } else if (argc == 7 && std::string(argv[1]) == "run2") {
        unsigned shard = atoi(argv[3]), nshards = atoi(argv[4]);
        vh::trace().open(argv[5]);
        vh::Trace trb;
        trb.open(argv[6]);
        vh::install_crash_handlers();
        std::ifstream in(argv[2]);
        std::string l1, l2;
        uint64_t pair = 0;
        while (std::getline(in, l1) && std::getline(in, l2)) {
            if (l1.empty() || l2.empty()) continue;
            if ((pair++ % nshards) != shard) continue;
            json ha = json::parse(l1), hb = json::parse(l2);
            Run a, b;
            a.tag = "_a"; b.tag = "_b"; b.tr = &trb;
            a.history_no = 2 * (pair - 1); b.history_no = 2 * (pair - 1) + 1;
            uint64_t x = pair * 2654435761u + 12345;
            auto coin = [&]() { x = x * 6364136223846793005ULL + 1442695040888963407ULL; return (x >> 33) & 1; };
            if (coin()) { a.begin(ha); b.begin(hb); } else { b.begin(hb); a.begin(ha); }
            size_t ia = 0, ib = 0, na = ha["ops"].size(), nb = hb["ops"].size();
            while (ia < na || ib < nb) {
                bool pa = ib >= nb || (ia < na && coin());
                if (pa) a.step(ha["ops"][ia++]); else b.step(hb["ops"][ib++]);
            }
            if (coin()) { a.finish(ha); b.finish(hb); } else { b.finish(hb); a.finish(ha); }
        }
        trb.emit({{"e", "END"}});
        trb.close();
    } else {
        fprintf(stderr, "usage: exp_driver run <histories> <shard> <nshards> <out>\n");
        return 2;
    }
    vh::trace().emit({{"e", "END"}});
    vh::trace().close();
    return 0;
}
