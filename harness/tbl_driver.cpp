// Block-table / block value-semantics driver (C11, C19): replays operation histories
// (TLC-generated from MCBlockTable, and random growth sequences) on real CdnsBlock
// objects, for each of the nine block tables and each way of copying a block.
//
//   tbl_driver run <histories.ndjson> <shard> <nshards> <out.ndjson>
//   tbl_driver runblk <histories.ndjson> <shard> <nshards> <out.ndjson>   whole blocks: items, copies, reads (BlockValue.tla)
//
// History: {"ops":[{"op":"add","t":slot,"v":id},{"op":"addv","t":slot,"v":id} (add_value: no de-duplication),{"op":"clear","t":..},
//                  {"op":"copy","src":..,"dst":..},{"op":"destroy","t":..}]}
// Each history is executed for every table kind and copy manner.  Value ids are mapped
// to concrete table values built in a FRESH object for every call.
// Trace events:
//   {"e":"R","tab":..,"how":"copy|move|read","cls":"block|blockread"}
//   {"e":"A","t":slot,"v":id,"idx":i,"size":n,"back":id|-1}     add + get of the returned index
//   {"e":"CL","t":slot} {"e":"DS","t":slot}
//   {"e":"CP","src":s,"dst":d,"foreign":k,"size":n}               k: keys of dst's tables not referring to dst's storage
//   {"e":"F","t":slot,"vals":[ids...]}                            final content of each live slot
#include "common.h"
#include "probe.h"
#include <memory>
#include <map>
#include <thread>

using namespace CDNS;

static std::string g_tmpdir;
static const char* TABS[] = {"ip", "ct", "name", "sig", "qlist", "qrr", "rrlist", "rr", "mmd"};

static std::string mk_string(int id) {
    std::string s = "v" + std::to_string(id);
    if (id % 3 == 0) s += std::string(40, 'x');     // heap-allocated: a dangling reference is a use-after-free
    if (id == 1) s = "";                              // the empty string is a value too
    if (id % 5 == 4) s += std::string(256 + id % 300, static_cast<char>('a' + id % 7));   // longer than any domain name (large RDATA)
    if (id == 2) s = std::string(255, 'n');           // ... and exactly the longest name
    return s;
}
static ClassType mk_ct(int id) { ClassType c; c.type = id / 2; c.class_ = id % 2; return c; }
// neighbouring ids differ in exactly one optional member (present with value 0 vs absent)
static QueryResponseSignature mk_sig(int id) {
    QueryResponseSignature s; int b = id / 4;
    s.server_port = b;
    switch (id % 4) {
        case 1: s.qr_type = QueryResponseTypeValues::stub; break;
        case 2: s.query_opcode = 0; break;
        case 3: s.response_rcode = 0; break;
    }
    return s;
}
static std::vector<index_t> mk_list(int id) {
    std::vector<index_t> l;
    if (id == 3) return l;                            // the empty list is a value too (a message without questions / answers)
    if (id % 2 == 0) l = {static_cast<index_t>(id)};
    else l = {static_cast<index_t>(id), 0};
    if (id % 7 == 6) l.insert(l.end(), 50, static_cast<index_t>(id));
    return l;
}
static Question mk_q(int id) { Question q; q.name_index = id / 2; q.classtype_index = id % 2; return q; }
static RR mk_rr(int id) {
    RR r; r.name_index = id / 4; r.classtype_index = 0;
    if (id % 4 == 1 || id % 4 == 3) r.ttl = 0;
    if (id % 4 >= 2) r.rdata_index = 0;
    return r;
}
static MalformedMessageData mk_mmd(int id) {
    MalformedMessageData m; int b = id / 4;
    switch (id % 4) {
        case 0: m.mm_payload = mk_string(3 * b); break;
        case 1: m.mm_payload = mk_string(3 * b); m.server_port = 0; break;
        case 2: m.mm_payload = mk_string(3 * b); m.mm_transport_flags = static_cast<QueryResponseTransportFlagsMask>(0); break;
        case 3: m.server_address_index = b; break;
    }
    return m;
}

struct Slot {
    std::shared_ptr<CdnsBlock> blk;   // shared_ptr keeps the deleter of the dynamic type (no virtual destructor)
    bool is_read = false;
};

// Every other call hands the value over in a scratch object the caller re-uses (as a collector does): it held a larger
// value before, so strings and vectors keep their old capacity - an empty vector then still owns a buffer.
static unsigned g_calls = 0;
static index_t do_add(CdnsBlock& b, const std::string& tab, int id) {
    if (g_calls++ % 2) {
        static std::string str;
        static std::vector<index_t> vec;
        if (tab == "ip" || tab == "name") {
            str.assign(200, 'q'); str.clear(); str += mk_string(id);
            return tab == "ip" ? b.add_ip_address(str) : b.add_name_rdata(str);
        }
        if (tab == "qlist" || tab == "rrlist") {
            std::vector<index_t> l = mk_list(id);
            vec.assign(70, 9); vec.clear(); vec.insert(vec.end(), l.begin(), l.end());
            return tab == "qlist" ? b.add_question_list(vec) : b.add_rr_list(vec);
        }
        if (tab == "mmd") {
            static MalformedMessageData m;
            m = mk_mmd(3); m.mm_payload = std::string(90, 'z'); m.server_port = 9;
            MalformedMessageData w = mk_mmd(id);
            m.server_address_index = w.server_address_index; m.server_port = w.server_port; m.mm_transport_flags = w.mm_transport_flags;
            if (w.mm_payload) { if (!m.mm_payload) m.mm_payload = std::string(); m.mm_payload->assign(*w.mm_payload); } else m.mm_payload = boost::none;
            return b.add_malformed_message_data(m);
        }
    }
    if (tab == "ip") return b.add_ip_address(mk_string(id));
    if (tab == "name") return b.add_name_rdata(mk_string(id));
    if (tab == "ct") return b.add_classtype(mk_ct(id));
    if (tab == "sig") return b.add_qr_signature(mk_sig(id));
    if (tab == "qlist") return b.add_question_list(mk_list(id));
    if (tab == "rrlist") return b.add_rr_list(mk_list(id));
    if (tab == "qrr") return b.add_question(mk_q(id));
    if (tab == "rr") return b.add_rr(mk_rr(id));
    return b.add_malformed_message_data(mk_mmd(id));
}
// BlockTable::add_value(): append without looking the value up (what the reader does with every entry of a file)
static index_t do_addv(CdnsBlock& b, const std::string& tab, int id) {
    if (tab == "ip" || tab == "name") { StringItem it; it.data = mk_string(id); return (tab == "ip" ? b.m_ip_address : b.m_name_rdata).add_value(it); }
    if (tab == "ct") return b.m_classtype.add_value(mk_ct(id));
    if (tab == "sig") return b.m_qr_sig.add_value(mk_sig(id));
    if (tab == "qlist" || tab == "rrlist") { IndexListItem it; it.list = mk_list(id); return (tab == "qlist" ? b.m_qlist : b.m_rrlist).add_value(it); }
    if (tab == "qrr") return b.m_qrr.add_value(mk_q(id));
    if (tab == "rr") return b.m_rr.add_value(mk_rr(id));
    return b.m_malformed_message_data.add_value(mk_mmd(id));
}
static std::size_t tab_size(CdnsBlock& b, const std::string& tab) {
    if (tab == "ip") return b.m_ip_address.size();
    if (tab == "name") return b.m_name_rdata.size();
    if (tab == "ct") return b.m_classtype.size();
    if (tab == "sig") return b.m_qr_sig.size();
    if (tab == "qlist") return b.m_qlist.size();
    if (tab == "rrlist") return b.m_rrlist.size();
    if (tab == "qrr") return b.m_qrr.size();
    if (tab == "rr") return b.m_rr.size();
    return b.m_malformed_message_data.size();
}
// which value id (among the candidates) is stored at index i, -1 if none / out of range
static int id_at(CdnsBlock& b, const std::string& tab, index_t i, const std::vector<int>& cands) {
    try {
        for (int id : cands) {
            bool eq;
            if (tab == "ip") eq = b.get_ip_address(i) == mk_string(id);
            else if (tab == "name") eq = b.get_name_rdata(i) == mk_string(id);
            else if (tab == "ct") eq = b.get_classtype(i) == mk_ct(id);
            else if (tab == "sig") eq = b.get_qr_signature(i) == mk_sig(id);
            else if (tab == "qlist") eq = b.get_question_list(i) == mk_list(id);
            else if (tab == "rrlist") eq = b.get_rr_list(i) == mk_list(id);
            else if (tab == "qrr") eq = b.get_question(i) == mk_q(id);
            else if (tab == "rr") eq = b.get_rr(i) == mk_rr(id);
            else eq = b.get_malformed_message_data(i) == mk_mmd(id);
            if (eq) return id;
        }
    } catch (std::exception&) {
        return -2;
    }
    return -1;
}
static std::size_t foreign(CdnsBlock& b) {
    return CdnsVerifProbe::foreign_keys(b.m_ip_address) + CdnsVerifProbe::foreign_keys(b.m_classtype) +
           CdnsVerifProbe::foreign_keys(b.m_name_rdata) + CdnsVerifProbe::foreign_keys(b.m_qr_sig) +
           CdnsVerifProbe::foreign_keys(b.m_qlist) + CdnsVerifProbe::foreign_keys(b.m_qrr) +
           CdnsVerifProbe::foreign_keys(b.m_rrlist) + CdnsVerifProbe::foreign_keys(b.m_rr) +
           CdnsVerifProbe::foreign_keys(b.m_malformed_message_data);
}

// write the block through a real exporter and read it back with the real reader (tables that need no closure only)
static CdnsBlockRead* read_back(CdnsBlock& src, bool assign) {
    std::string path = g_tmpdir + "/tbl_" + std::to_string(getpid());
    {
        FilePreamble fp;
        CdnsExporter ex(fp, path, CborOutputCompression::NO_COMPRESSION);
        CdnsBlock tmp(src);
        GenericQueryResponse g; g.client_port = 1;
        tmp.add_question_response_record(g);
        ex.write_block(tmp);
    }
    std::ifstream in(path, std::ios::binary);
    CdnsReader rd(in);
    bool eof = false;
    CdnsBlockRead* out;
    if (assign) { out = new CdnsBlockRead(); *out = rd.read_block(eof); }
    else out = new CdnsBlockRead(rd.read_block(eof));
    unlink(path.c_str());
    return out;
}

// VERIF_HANDOFF=1: a block is handed from thread to thread - every other add runs on a thread of its own that is joined before the
// history goes on (no two calls ever overlap).  What a table holds and returns is a matter of the values added, not of who adds.
static bool g_handoff = getenv("VERIF_HANDOFF") != nullptr;
static unsigned g_hand = 0;
template <class F> static index_t maybe_elsewhere(F f) {
    if (!g_handoff || (g_hand++ % 2) == 0) return f();
    index_t r = 0;
    std::thread t([&] { r = f(); });
    t.join();
    return r;
}

static void run_history(const json& h, const std::string& tab, const std::string& how, const std::string& cls)
{
    vh::trace().emit({{"e", "R"}, {"tab", tab}, {"how", how}, {"cls", cls}});
    std::map<int, Slot> slots;
    std::vector<int> cands;
    for (auto& o : h["ops"]) if (o["op"] == "add" || o["op"] == "addv") { int v = o["v"]; if (std::find(cands.begin(), cands.end(), v) == cands.end()) cands.push_back(v); }
    if (cls == "blockread") slots[1].blk = std::shared_ptr<CdnsBlockRead>(new CdnsBlockRead());
    else slots[1].blk = std::shared_ptr<CdnsBlock>(new CdnsBlock());
    for (auto& o : h["ops"]) {
        std::string op = o["op"];
        if (op == "add") {
            int t = o["t"], v = o["v"];
            CdnsBlock& b = *slots[t].blk;
            index_t idx = maybe_elsewhere([&] { return do_add(b, tab, v); });
            vh::trace().emit({{"e", "A"}, {"t", t}, {"v", v}, {"idx", idx}, {"size", tab_size(b, tab)}, {"back", id_at(b, tab, idx, cands)}});
        } else if (op == "addv") {
            int t = o["t"], v = o["v"];
            CdnsBlock& b = *slots[t].blk;
            index_t idx = maybe_elsewhere([&] { return do_addv(b, tab, v); });
            vh::trace().emit({{"e", "AV"}, {"t", t}, {"v", v}, {"idx", idx}, {"size", tab_size(b, tab)}, {"back", id_at(b, tab, idx, cands)}});
        } else if (op == "clear") {
            int t = o["t"];
            slots[t].blk->clear();
            vh::trace().emit({{"e", "CL"}, {"t", t}});
        } else if (op == "destroy") {
            int t = o["t"];
            slots[t].blk.reset();
            vh::trace().emit({{"e", "DS"}, {"t", t}});
        } else if (op == "copy") {
            int s = o["src"], d = o["dst"];
            CdnsBlock& src = *slots[s].blk;
            bool live = static_cast<bool>(slots[d].blk);
            if (how == "read" && (tab == "ip" || tab == "name")) {
                slots[d].blk = std::shared_ptr<CdnsBlockRead>(read_back(src, live));
            } else if (cls == "blockread") {
                CdnsBlockRead& rs = static_cast<CdnsBlockRead&>(src);
                if (!live) slots[d].blk = std::shared_ptr<CdnsBlockRead>(how == "move" ? new CdnsBlockRead(std::move(rs)) : new CdnsBlockRead(rs));
                else if (how == "move") static_cast<CdnsBlockRead&>(*slots[d].blk) = std::move(rs);
                else static_cast<CdnsBlockRead&>(*slots[d].blk) = rs;
            } else {
                if (!live) slots[d].blk = std::shared_ptr<CdnsBlock>(how == "move" ? new CdnsBlock(std::move(src)) : new CdnsBlock(src));
                else if (how == "move") *slots[d].blk = std::move(src);
                else *slots[d].blk = src;
            }
            CdnsBlock& db = *slots[d].blk;
            vh::trace().emit({{"e", "CP"}, {"src", s}, {"dst", d}, {"foreign", foreign(db)}, {"size", tab_size(db, tab)}});
        }
    }
    for (auto& kv : slots) {
        if (!kv.second.blk) continue;
        json vals = json::array();
        std::size_t n = tab_size(*kv.second.blk, tab);
        for (std::size_t i = 0; i < n; i++) vals.push_back(id_at(*kv.second.blk, tab, static_cast<index_t>(i), cands));
        vh::trace().emit({{"e", "F"}, {"t", kv.first}, {"vals", vals}});
    }
}

// ---------------------------------------------------------------------------------------------
// whole-block value semantics (mode runblk, spec/BlockValue.tla, spec/TraceBlockValue.tla)
// ---------------------------------------------------------------------------------------------
static std::string blk_ip(int id) { return std::string({static_cast<char>(10), 0, static_cast<char>(id / 256), static_cast<char>(id % 256)}); }
static std::string blk_name(int id) { return std::string(1, static_cast<char>(2)) + "n" + std::to_string(id % 10) + std::string(1, '\0'); }
// parameter sets (BlockValue.tla ParamIds): 0 default; 1: 1000 ticks/s, 2 items, response-rcode not stored;
// 2: 10^6 ticks/s, 3 items, query-opcode not stored.  All of them are written as set #0 of their file.
static BlockParameters mk_bp(int p) {
    BlockParameters bp;
    if (p == 1) {
        bp.storage_parameters.ticks_per_second = 1000;
        bp.storage_parameters.max_block_items = 2;
        bp.storage_parameters.storage_hints.query_response_signature_hints &= ~static_cast<uint32_t>(QueryResponseSignatureHintsMask::response_rcode);
    } else if (p == 2) {
        bp.storage_parameters.max_block_items = 3;
        bp.storage_parameters.storage_hints.query_response_signature_hints &= ~static_cast<uint32_t>(QueryResponseSignatureHintsMask::query_opcode);
    }
    return bp;
}
static GenericQueryResponse mk_gqr(int id) {
    GenericQueryResponse g;
    if (id % 5 != 4) g.ts = Timestamp(100 + id, (id * 37 + 5) % 1000);     // ticks valid at every rate in use; every fifth record carries no time
    g.transaction_id = id;
    g.client_port = 1000 + id;
    g.client_ip = blk_ip(id % 2);
    g.server_ip = blk_ip(7);
    g.query_name = blk_name(id % 3);
    ClassType ct; ct.type = 1 + id % 2; ct.class_ = 1;
    g.query_classtype = ct;
    g.query_opcode = id % 2;
    if (id % 2) g.response_rcode = 3;
    return g;
}
// all members but query-opcode / response-rcode (their presence is logged: it depends on the block's hints)
static bool same_gqr(GenericQueryResponse& g, int id) {
    GenericQueryResponse w = mk_gqr(id);
    return g.client_port == w.client_port && g.client_ip == w.client_ip && g.server_ip == w.server_ip &&
           g.query_name == w.query_name && g.query_classtype && *g.query_classtype == *w.query_classtype &&
           (!g.query_opcode || g.query_opcode == w.query_opcode) && (!g.response_rcode || g.response_rcode == w.response_rcode) &&
           (w.ts ? (g.ts && g.ts->m_secs == w.ts->m_secs && g.ts->m_ticks == w.ts->m_ticks) : !g.ts);
}
static GenericAddressEventCount mk_gaec(int id) {
    GenericAddressEventCount a;
    a.ae_type = (id % 2) ? AddressEventTypeValues::tcp_reset : AddressEventTypeValues::icmp_dest_unreachable;
    if (id % 3 == 0) a.ae_code = id % 5;
    a.ip_address = blk_ip(100 + id);
    return a;
}
static int id_of_gaec(GenericAddressEventCount& a, bool& ok) {
    int id = -1;
    if (a.ip_address.size() == 4) id = (static_cast<unsigned char>(a.ip_address[2]) * 256 + static_cast<unsigned char>(a.ip_address[3])) - 100;
    if (id < 0) { ok = false; return -1; }
    GenericAddressEventCount w = mk_gaec(id);
    ok = a.ae_type == w.ae_type && a.ae_code == w.ae_code && a.ae_transport_flags == w.ae_transport_flags && a.ip_address == w.ip_address;
    return id;
}
static GenericMalformedMessage mk_gmm(int id) {
    GenericMalformedMessage m;
    if (id % 4 != 3) m.ts = Timestamp(200 + id, (id * 53 + 1) % 1000);      // every fourth message carries no time
    m.client_port = 2000 + id;
    m.client_ip = blk_ip(id % 2);
    m.mm_payload = mk_string(id % 4);
    if (id % 2) m.server_port = 53;
    return m;
}
static bool same_gmm(GenericMalformedMessage& g, int id) {
    GenericMalformedMessage w = mk_gmm(id);
    return g.client_port == w.client_port && g.client_ip == w.client_ip && g.mm_payload == w.mm_payload &&
           g.server_port == w.server_port && (w.ts ? (g.ts && g.ts->m_secs == w.ts->m_secs && g.ts->m_ticks == w.ts->m_ticks) : !g.ts);
}
static std::size_t kind_count(CdnsBlock& b, const std::string& k) {
    return k == "qr" ? b.get_qr_count() : k == "aec" ? b.get_aec_count() : b.get_mm_count();
}
static std::string blk_path() { return g_tmpdir + "/blk_" + std::to_string(getpid()); }
// the block written as the only block of a file whose preamble holds parameter set p as #0
static void write_out(CdnsBlock& src, const std::string& path, int p) {
    BlockParameters bp = mk_bp(p);
    std::vector<BlockParameters> bps{bp};
    FilePreamble fp(bps);
    CdnsExporter ex(fp, path, CborOutputCompression::NO_COMPRESSION);
    ex.write_block(src);
}
// one read_generic_<k>() call, logged
static json read_one(CdnsBlockRead& b, const std::string& k) {
    bool end = false, ok = true, rc = false, oc = false; int v = -1; uint64_t c = 0;
    if (k == "qr") {
        GenericQueryResponse g = b.read_generic_qr(end);
        if (!end) { v = g.transaction_id ? *g.transaction_id : -1; ok = v >= 0 && same_gqr(g, v); rc = !!g.response_rcode; oc = !!g.query_opcode; }
    } else if (k == "aec") {
        GenericAddressEventCount a = b.read_generic_aec(end);
        if (!end) { v = id_of_gaec(a, ok); c = a.ae_count; }
    } else {
        GenericMalformedMessage g = b.read_generic_mm(end);
        if (!end) { v = g.client_port ? *g.client_port - 2000 : -1; ok = v >= 0 && same_gmm(g, v); }
    }
    return {{"end", end}, {"v", v}, {"c", c}, {"ok", ok}, {"rc", rc}, {"oc", oc}};
}
static json read_one(CdnsBlock&, const std::string&) { return nullptr; }   // a plain CdnsBlock has no read API
// the block as the real exporter writes it (under the parameters p the application gave it) and the real reader reads it
static json serialised(CdnsBlock& src, int t, int p) {
    json q = json::array(), a = json::array(), m = json::array();
    bool good = true;
    if (src.get_item_count() > 0) {
        std::string path = blk_path();
        write_out(src, path, p);
        std::ifstream in(path, std::ios::binary);
        CdnsReader rd(in);
        bool eof = false;
        CdnsBlockRead blk = rd.read_block(eof);
        for (const char* k : {"qr", "aec", "mm"}) {
            for (;;) {
                json r = read_one(blk, k);
                if (r["end"]) break;
                if (!r["ok"]) good = false;
                if (std::string(k) == "qr") q.push_back(json::array({r["v"], r["rc"], r["oc"]}));
                else if (std::string(k) == "mm") m.push_back(r["v"]);
                else a.push_back(json::array({r["v"], r["c"]}));
            }
        }
        unlink(path.c_str());
    }
    return {{"e", "S"}, {"t", t}, {"p", p}, {"q", q}, {"a", a}, {"m", m}, {"ok", good}};
}

template <class B> static B* new_block(int p) { B* b = new B(); BlockParameters bp = mk_bp(p); b->set_block_parameters(bp, 0); return b; }
template <> CdnsBlock* new_block<CdnsBlock>(int p) { BlockParameters bp = mk_bp(p); return new CdnsBlock(bp, 0); }

// B = CdnsBlockRead (copies are read through the generic read API) or CdnsBlock (a block the application fills and writes)
static int stats_of(CdnsBlock& b) {
    return b.m_block_statistics && b.m_block_statistics->processed_messages ? static_cast<int>(*b.m_block_statistics->processed_messages) : 0;
}

template <class B>
static void run_blk_history(const json& h)
{
    vh::trace().emit({{"e", "R"}});
    std::map<int, std::shared_ptr<B>> slots;
    std::map<int, int> ps;           // the parameters the application gave the block in each slot (a copy has its source's)
    std::map<int, std::vector<std::pair<std::string, int>>> hist;      // the items of each slot's block, in the order they were added
    // earliest time of a freshly built block with the same parameters that is given the same items in the same order
    auto fresh_earliest_same = [&](int t) {
        std::unique_ptr<B> f(new_block<B>(ps[t]));
        for (auto& kv : hist[t]) {
            if (kv.first == "qr") f->add_question_response_record(mk_gqr(kv.second));
            else if (kv.first == "aec") f->add_address_event_count(mk_gaec(kv.second));
            else f->add_malformed_message(mk_gmm(kv.second));
        }
        const Timestamp& a = f->m_block_preamble.earliest_time; const Timestamp& b = slots[t]->m_block_preamble.earliest_time;
        return a.m_secs == b.m_secs && a.m_ticks == b.m_ticks;
    };
    slots[1] = std::make_shared<B>();
    ps[1] = 0;
    for (auto& o : h["ops"]) {
        std::string op = o["op"];
        if (op == "item") {
            int t = o["t"], v = o["v"]; std::string k = o["k"];
            CdnsBlock& b = *slots[t];
            bool full;
            // every third item comes with block statistics (processed_messages = id + 1): the statistics most recently supplied
            // are part of what the block holds (sv: supplied now, 0 = none; st: what the block states afterwards, 0 = absent)
            boost::optional<BlockStatistics> bs;
            int sv = 0;
            // (only with query/responses: whether statistics that come with an item the hints exclude count is not settled by the statement)
            if (k == "qr" && v % 3 == 1) { bs = BlockStatistics(); bs->processed_messages = static_cast<unsigned>(v + 1); sv = v + 1; }
            if (k == "qr") full = b.add_question_response_record(mk_gqr(v), bs);
            else if (k == "aec") full = b.add_address_event_count(mk_gaec(v), bs);
            else full = b.add_malformed_message(mk_gmm(v), bs);
            hist[t].push_back({k, v});
            vh::trace().emit({{"e", "I"}, {"t", t}, {"k", k}, {"v", v}, {"n", kind_count(b, k)}, {"full", full},
                              {"fe", fresh_earliest_same(t)}, {"sv", sv}, {"st", stats_of(b)}});
        } else if (op == "new") {
            int t = o["t"], p = o["p"];
            slots[t] = std::shared_ptr<B>(new_block<B>(p));
            ps[t] = p; hist[t].clear();
            vh::trace().emit({{"e", "NB"}, {"t", t}, {"p", p}});
        } else if (op == "setp") {
            int t = o["t"], p = o["p"];
            BlockParameters bp = mk_bp(p);
            bool ret = slots[t]->set_block_parameters(bp, 0);
            if (ret) ps[t] = p;
            vh::trace().emit({{"e", "SP"}, {"t", t}, {"p", p}, {"ret", ret}});
        } else if (op == "clear") {
            int t = o["t"];
            slots[t]->clear();
            hist[t].clear();
            vh::trace().emit({{"e", "CL"}, {"t", t}});
        } else if (op == "destroy") {
            int t = o["t"];
            slots[t].reset();
            hist[t].clear();
            vh::trace().emit({{"e", "DS"}, {"t", t}});
        } else if (op == "copy") {
            int s = o["src"], d = o["dst"]; std::string how = o["how"];
            B& src = *slots[s];
            if (how == "cctor") slots[d] = std::shared_ptr<B>(new B(src));
            else if (how == "mctor") slots[d] = std::shared_ptr<B>(new B(std::move(src)));
            else if (how == "cassign") *slots[d] = src;
            else if (how == "massign") *slots[d] = std::move(src);
            else {
                std::string path = blk_path();
                write_out(src, path, ps[s]);
                std::ifstream in(path, std::ios::binary);
                CdnsReader rd(in);
                bool eof = false;
                if (how == "rctor") slots[d] = std::shared_ptr<B>(new B(rd.read_block(eof)));
                else *slots[d] = rd.read_block(eof);
                unlink(path.c_str());
            }
            ps[d] = ps[s];
            hist[d] = hist[s];
            CdnsBlock& db = *slots[d];
            vh::trace().emit({{"e", "CP"}, {"src", s}, {"dst", d}, {"how", how}, {"foreign", foreign(db)}, {"st", stats_of(db)},
                              {"counts", json::array({db.get_qr_count(), db.get_aec_count(), db.get_mm_count()})}});
        } else if (op == "read") {
            int t = o["t"]; std::string k = o["k"];
            json r = read_one(*slots[t], k);
            if (r.is_null()) continue;
            r["e"] = "RD"; r["t"] = t; r["k"] = k;
            vh::trace().emit(r);
        } else if (op == "ser") {
            int t = o["t"];
            json sv = serialised(*slots[t], t, ps[t]);
            sv["fe"] = fresh_earliest_same(t);
            vh::trace().emit(sv);
        }
    }
    for (auto& kv : slots) if (kv.second) { json sv = serialised(*kv.second, kv.first, ps[kv.first]); sv["fe"] = fresh_earliest_same(kv.first); vh::trace().emit(sv); }
}

int main(int argc, char** argv)
{
    const char* td = getenv("VERIF_TMP");
    g_tmpdir = td ? td : "/tmp";
    if (argc == 6 && std::string(argv[1]) == "run") {
        unsigned shard = atoi(argv[3]), nshards = atoi(argv[4]);
        vh::trace().open(argv[5]);
        vh::install_crash_handlers();
        std::ifstream in(argv[2]);
        std::string line;
        uint64_t job = 0;
        while (std::getline(in, line)) {
            if (line.empty()) continue;
            json h = json::parse(line);
            bool all = h.value("all", true);
            for (const char* tab : TABS) {
                for (const char* how : {"copy", "move", "read"}) {
                    for (const char* cls : {"block", "blockread"}) {
                        bool has_copy = false;
                        for (auto& o : h["ops"]) if (o["op"] == "copy") has_copy = true;
                        if (!has_copy && (std::string(how) != "copy" || std::string(cls) != "block")) continue;
                        if (std::string(how) == "read" && (std::string(cls) != "block" || (std::string(tab) != "ip" && std::string(tab) != "name"))) continue;
                        if (!all && std::string(tab) != h.value("tab", "name")) continue;
                        if ((job++ % nshards) != shard) continue;
                        run_history(h, tab, how, cls);
                    }
                }
            }
        }
    } else if (argc == 6 && std::string(argv[1]) == "runblk") {
        unsigned shard = atoi(argv[3]), nshards = atoi(argv[4]);
        vh::trace().open(argv[5]);
        vh::install_crash_handlers();
        std::ifstream in(argv[2]);
        std::string line;
        uint64_t job = 0;
        while (std::getline(in, line)) {
            if (line.empty()) continue;
            if ((job++ % nshards) != shard) continue;
            json h = json::parse(line);
            if (h.value("cls", std::string("blockread")) == "block") run_blk_history<CdnsBlock>(h);
            else run_blk_history<CdnsBlockRead>(h);
        }
    } else {
        fprintf(stderr, "usage: tbl_driver run <histories> <shard> <nshards> <out>\n");
        return 2;
    }
    vh::trace().emit({{"e", "END"}});
    vh::trace().close();
    return 0;
}
