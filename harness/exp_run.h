// The exporter history runner shared by exp_driver (sequential) and thr_driver (one
// instance per thread, each with its own trace): executes one API history on a real
// CdnsExporter and records calls, closed outputs and the library reader's dump.
#pragma once
#include "common.h"
#include "probe.h"
#include "records.h"
#include <memory>
#include <zlib.h>
#include <lzma.h>

using namespace CDNS;

static std::string g_tmpdir;
static bool g_inproc_decompress = false;   // thr_driver: no popen from threads

static std::string decompress_inproc(const std::string& data, const std::string& comp, bool& ok)
{
    std::string out;
    ok = true;
    if (comp == "gz") {
        z_stream z; memset(&z, 0, sizeof(z));
        if (inflateInit2(&z, 31) != Z_OK) { ok = false; return out; }
        z.next_in = reinterpret_cast<Bytef*>(const_cast<char*>(data.data())); z.avail_in = data.size();
        char buf[1 << 16]; int r;
        do { z.next_out = reinterpret_cast<Bytef*>(buf); z.avail_out = sizeof(buf); r = inflate(&z, Z_NO_FLUSH);
             if (r != Z_OK && r != Z_STREAM_END) { ok = false; break; }
             out.append(buf, sizeof(buf) - z.avail_out); } while (r != Z_STREAM_END);
        if (ok && z.avail_in != 0) ok = false;
        inflateEnd(&z);
    } else {
        lzma_stream l = LZMA_STREAM_INIT;
        if (lzma_stream_decoder(&l, UINT64_MAX, 0) != LZMA_OK) { ok = false; return out; }
        l.next_in = reinterpret_cast<const uint8_t*>(data.data()); l.avail_in = data.size();
        uint8_t buf[1 << 16]; lzma_ret r;
        do { l.next_out = buf; l.avail_out = sizeof(buf); r = lzma_code(&l, LZMA_FINISH);
             if (r != LZMA_OK && r != LZMA_STREAM_END) { ok = false; break; }
             out.append(reinterpret_cast<char*>(buf), sizeof(buf) - l.avail_out); } while (r != LZMA_STREAM_END);
        if (ok && l.avail_in != 0) ok = false;
        lzma_end(&l);
    }
    return out;
}

static std::string decompress(const std::string& path, const std::string& comp, bool& ok)
{
    ok = true;
    if (comp == "none") return vh::read_file(path);
    if (g_inproc_decompress) return decompress_inproc(vh::read_file(path), comp, ok);
    bool gz = comp == "gz";
    std::string cmd = std::string("python3 -c \"import sys,zlib,lzma\nd=open(sys.argv[1],'rb').read()\n") +
        (gz ? "o=zlib.decompressobj(31)\nr=o.decompress(d)\nassert o.eof and not o.unused_data\n"
            : "o=lzma.LZMADecompressor(lzma.FORMAT_XZ)\nr=o.decompress(d)\nassert o.eof and not o.unused_data\n") +
        "sys.stdout.buffer.write(r)\" '" + path + "' 2>/dev/null";
    FILE* p = popen(cmd.c_str(), "r");
    std::string out;
    char buf[65536];
    size_t n;
    while ((n = fread(buf, 1, sizeof(buf), p)) > 0) out.append(buf, n);
    int rc = pclose(p);
    if (rc != 0) ok = false;
    return out;
}

struct Run {
    vh::Trace* tr = &vh::trace();
    std::string tag;     // distinguishes the temporary files of concurrent runs
    std::string comp, outkind;
    std::unique_ptr<CdnsExporter> exp;
    std::string cur_name;   // file kind: base name of current output
    std::string cur_path;   // fd kind: path of the file behind the descriptor
    int serial = 0;

    CborOutputCompression cc() const {
        return comp == "gz" ? CborOutputCompression::GZIP : comp == "xz" ? CborOutputCompression::XZ
                                                                         : CborOutputCompression::NO_COMPRESSION;
    }
    std::string suffix() const { return comp == "gz" ? ".gz" : comp == "xz" ? ".xz" : ""; }
    std::string fresh() { return g_tmpdir + "/exp_" + std::to_string(getpid()) + tag + "_" + std::to_string(serial++); }

    void counters(json& ev) {
        ev["cnt"] = {{"items", exp->get_block_item_count()}, {"qr", exp->get_block_qr_count()},
                     {"aec", exp->get_block_aec_count()}, {"mm", exp->get_block_mm_count()},
                     {"bw", exp->get_blocks_written_count()}, {"active", exp->get_active_block_parameters()}};
    }
    void emit_out(const std::string& why, const std::string& path, bool keep_file = false) {
        bool ok = true;
        std::string data = decompress(path, comp, ok);
        json ev = {{"e", "OUT"}, {"why", why}, {"raw_ok", ok}, {"bytes", vh::segs(data)}};
        if (!data.empty()) ev["rd"] = vr::reader_dump(data);
        tr->emit(ev);
        // keep a copy of the (decompressed) output for tools that need real files (cdns-merge, cdns-itemcount, reader sweeps)
        const char* keep = getenv("VERIF_KEEP_DIR");
        if (keep && !data.empty()) {
            std::string kp = std::string(keep) + "/h" + std::to_string(history_no) + "_" + std::to_string(kept++) + ".cdns";
            std::ofstream o(kp, std::ios::binary); o.write(data.data(), data.size());
        }
        if (!keep_file) unlink(path.c_str());
    }
    uint64_t history_no = 0;
    int kept = 0;
    void open_first(FilePreamble& fp) {
        if (outkind == "file") {
            cur_name = fresh();
            exp.reset(new CdnsExporter(fp, cur_name, cc()));
        } else {
            cur_path = fresh() + ".fd";
            int fd = ::open(cur_path.c_str(), O_CREAT | O_WRONLY | O_TRUNC, 0600);
            cur_fd = fd;
            exp.reset(new CdnsExporter(fp, fd, cc()));
        }
    }
    bool last_rot_mismatch = false;
    int cur_fd = -1;
    // rotation whose argument is of the other kind than the constructor's (a name for a descriptor exporter)
    std::size_t rotate_mismatch(bool exp_block) {
        std::size_t r = exp->rotate_output(fresh() + ".never", exp_block);
        pending_out = cur_path;          // what the application believes it has just closed
        last_rot_mismatch = true;
        return r;
    }
    // same: the rotation goes onto the NAME that is in use (e.g. names made from a time stamp, twice within a second): the
    // output being closed is complete under that name when the call returns, the new one replaces it when it is closed
    // ext: the new name is the name in use plus the compression extension ("x" -> "x.gz" under gzip): another name, hence
    // another file ("x.gz.gz"); the output being closed ("x.gz") is not touched again
    // fd0: (descriptor outputs) the new output's descriptor is 0 - what open() returns in a process that closed its standard input
    std::size_t rotate(bool exp_block, bool same = false, bool ext = false, bool fd0 = false) {
        std::size_t r;
        last_rot_mismatch = false;
        if (outkind == "file") {
            std::string old = cur_name;
            std::string next = same ? cur_name : (ext && !suffix().empty()) ? cur_name + suffix() : fresh();
            r = exp->rotate_output(next, exp_block);
            cur_name = next;
            json ev; // OUT is emitted by the caller after the C event
            pending_out = old + suffix();
        } else {
            std::string oldp = cur_path;
            std::string next = fresh() + ".fd";
            int fd = ::open(next.c_str(), O_CREAT | O_WRONLY | O_TRUNC, 0600);
            // (not while descriptor 0 is the output in use: it would be replaced under the exporter's feet)
            if (fd0 && fd > 0 && cur_fd != 0) { dup2(fd, 0); ::close(fd); fd = 0; }
            cur_fd = fd;
            r = exp->rotate_output(fd, exp_block);
            cur_path = next;
            pending_out = oldp;
        }
        return r;
    }
    std::string pending_out;
    std::vector<BlockParameters> mybps;         // mirror of the exporter's parameter sets (for blocks the application keeps itself)
    std::unique_ptr<CdnsBlock> ext;             // a block used directly through the CdnsBlock API

    // one history = begin(h); step(op) for every op; finish(h).  run(h) does all of it; the pieces allow two instances
    // to be operated alternately on one thread (instance isolation without threads)
    void begin(const json& h) {
        comp = h.value("comp", "none");
        outkind = h.value("out", "file");
        tr->emit({{"e", "R"}, {"comp", comp}, {"out", outkind}, {"preamble", h["preamble"]}});
        FilePreamble fp = vr::preamble_in(h["preamble"]);
        mybps = fp.m_block_parameters;
        ext.reset(new CdnsBlock(mybps[0], 0));
        open_first(fp);
    }
    void step(const json& op) {
        std::string o = op["op"];
        json ev = {{"e", "C"}, {"op", op}};
        std::size_t ret = 0;
        pending_out.clear();
        try {
            boost::optional<BlockStatistics> st;
            if (op.contains("stats")) st = vr::stats_in(op["stats"]);
            if (o == "qr") ret = exp->buffer_qr(vr::qr_in(op["r"]), st);
            else if (o == "aec") ret = exp->buffer_aec(vr::aec_in(op["r"]), st);
            else if (o == "mm") ret = exp->buffer_mm(vr::mm_in(op["r"]), st);
            else if (o == "wb") ret = exp->write_block();
            else if (o == "rot" && op.value("mismatch", false) && outkind == "fd") ret = rotate_mismatch(op.value("export", false));
            else if (o == "rot") ret = rotate(op.value("export", false), op.value("same", false), op.value("ext", false), op.value("fd0", false));
            else if (o == "rotbad") {
                // a rotation that cannot succeed (a descriptor that is not open / a name in a directory that does not
                // exist); the call reports it.  Only used where outputs are compared, not modelled (C20 byte identity).
                pending_out = outkind == "file" ? cur_name + suffix() : cur_path;
                if (outkind == "file") ret = exp->rotate_output(g_tmpdir + "/no-such-dir/x", op.value("export", false));
                else ret = exp->rotate_output(-1, op.value("export", false));
            }
            else if (o == "addbp") { BlockParameters bp = vr::bp_in(op["bp"]); ret = exp->add_block_parameters(bp); mybps.push_back(bp); }
            else if (o == "setbp") ret = exp->set_active_block_parameters(static_cast<index_t>(op["i"].get<uint64_t>())) ? 1 : 0;
            else if (o == "counts") ret = 0;
            else if (o == "editbp") { exp->get_active_block_parameters_ref() = vr::bp_in(op["bp"]); mybps[exp->get_active_block_parameters()] = vr::bp_in(op["bp"]); ret = 0; }
            // ---- a block the application keeps itself, filled through the generic CdnsBlock API
            else if (o == "xnew") { index_t i = static_cast<index_t>(op["i"].get<uint64_t>()); ext.reset(new CdnsBlock(mybps.at(i), i)); ret = 0; }
            else if (o == "xset") { index_t i = static_cast<index_t>(op["i"].get<uint64_t>()); ret = ext->set_block_parameters(mybps.at(i), i) ? 1 : 0; }
            else if (o == "xclear") { ext->clear(); ret = 0; }
            else if (o == "xqr") ret = ext->add_question_response_record(vr::qr_in(op["r"]), st) ? 1 : 0;
            else if (o == "xaec") ret = ext->add_address_event_count(vr::aec_in(op["r"]), st) ? 1 : 0;
            else if (o == "xmm") ret = ext->add_malformed_message(vr::mm_in(op["r"]), st) ? 1 : 0;
            else if (o == "xwb") ret = exp->write_block(*ext);
            else if (o == "xreload") {
                // the kept block goes through a file: written by a scratch exporter with the same parameter sets, read back by
                // the reader, and the block the reader returned is the one the application goes on filling and writing
                if (ext->get_item_count() > 0) {
                    std::string path = fresh() + ".reload";
                    {
                        FilePreamble fp2(mybps);
                        CdnsExporter tmp(fp2, path, CborOutputCompression::NO_COMPRESSION);
                        tmp.write_block(*ext);
                    }
                    std::ifstream in(path, std::ios::binary);
                    CdnsReader rd(in);
                    bool eof = false;
                    ext.reset(new CdnsBlockRead(rd.read_block(eof)));
                    unlink(path.c_str());
                }
                ret = 0;
            }
            else if (o == "xmove") {
                // the kept block changes its place (the application holds its blocks by value): the block that takes
                // over is the same block - content, stated parameter set and the parameters it is filled under
                std::string how = op.value("how", "mctor");
                if (how == "mctor") { std::unique_ptr<CdnsBlock> n(new CdnsBlock(std::move(*ext))); ext = std::move(n); }
                else if (how == "cctor") { std::unique_ptr<CdnsBlock> n(new CdnsBlock(*ext)); ext = std::move(n); }
                else if (how == "massign") { std::unique_ptr<CdnsBlock> n(new CdnsBlock(mybps[0], 0)); *n = std::move(*ext); ext = std::move(n); }
                else if (how == "cassign") { std::unique_ptr<CdnsBlock> n(new CdnsBlock(mybps[0], 0)); *n = *ext; ext = std::move(n); }
                else {      // a std::vector of blocks that grows
                    std::vector<CdnsBlock> v;
                    v.reserve(1);
                    v.emplace_back(std::move(*ext));
                    for (int k = 0; k < 3; k++) v.emplace_back(mybps[0], 0);
                    ext.reset(new CdnsBlock(std::move(v[0])));
                }
                ret = 0;
            }
            else if (o == "wbx") {
                // a block the application builds directly with the raw add_* API and hands to write_block(block)
                index_t bpi = static_cast<index_t>(op["bpi"].get<uint64_t>());
                BlockParameters bp = vr::bp_in(op["bp"]);
                CdnsBlock blk(bp, bpi);
                vr::raw_block_fill(blk, op);
                if (op.value("noidx", false)) blk.m_block_preamble.block_parameters_index = boost::none;   // implicit index 0
                ev["items"] = blk.get_item_count();
                ret = exp->write_block(blk);
            }
            else { fprintf(stderr, "unknown op %s\n", o.c_str()); _exit(3); }
        } catch (std::exception& e) {
            ev["exc"] = std::string(e.what()).substr(0, 200);
        }
        ev["ret"] = ret;
        counters(ev);
        ev["xcnt"] = {{"items", ext->get_item_count()}, {"qr", ext->get_qr_count()}, {"aec", ext->get_aec_count()},
                      {"mm", ext->get_mm_count()}, {"bpi", ext->get_block_parameters_index()}};
        tr->emit(ev);
        if (!pending_out.empty()) emit_out("rot", pending_out, last_rot_mismatch);
        last_rot_mismatch = false;
    }
    void finish(const json& h) {
        // destruction closes the last output
        std::string last = outkind == "file" ? cur_name + suffix() : cur_path;
        if (h.value("unwind", false)) {
            // the exporter is destroyed by stack unwinding: an unrelated exception of the application is in flight
            struct Guard { std::unique_ptr<CdnsExporter>& e; ~Guard() { e.reset(); } };
            try { Guard g{exp}; throw std::runtime_error("unrelated application error"); } catch (std::runtime_error&) {}
        } else exp.reset();
        emit_out("destroy", last);
    }
    void run(const json& h) {
        begin(h);
        for (auto& op : h["ops"]) step(op);
        finish(h);
    }
};

