// Reader driver (C05 file level, C08, C03, C18): runs the real CdnsReader and record
// accessors on files and prints what they return.
//
//   rd_driver dump <list.txt> <out.ndjson>      one {"e":"RD","file":name,"rd":dump} per listed file
//   rd_driver render <list.txt> <out.ndjson>    additionally calls every string() renderer (outcome only)
//   rd_driver dump2 <list.txt> <out.ndjson>     files 2k and 2k+1 are read by two readers operated alternately on one
//                                               thread (one read_block() each in turn); one RD event per file
#include "common.h"
#include "records.h"
#include <chrono>

using namespace CDNS;

static json render_all(const std::string& bytes)
{
    json out = json::object();
    size_t total = 0;
    try {
        std::istringstream is(bytes, std::ios::binary);
        CdnsReader reader(is);
        total += reader.m_file_preamble.string().size();
        bool eof = false;
        while (true) {
            CdnsBlockRead blk = reader.read_block(eof);
            if (eof) break;
            total += blk.string().size();
            total += blk.m_block_preamble.string().size();
            if (blk.m_block_statistics) total += blk.m_block_statistics->string().size();
            bool end = false;
            while (true) { GenericQueryResponse g = blk.read_generic_qr(end); if (end) break; total += g.string().size(); }
            while (true) { GenericAddressEventCount g = blk.read_generic_aec(end); if (end) break; total += g.string().size(); }
            while (true) { GenericMalformedMessage g = blk.read_generic_mm(end); if (end) break; total += g.string().size(); }
            for (auto& x : blk.m_query_responses) total += x.string().size();
            for (auto& x : blk.m_malformed_messages) total += x.string().size();
            for (auto& x : blk.m_classtype) total += x.string().size();
            for (auto& x : blk.m_qr_sig) total += x.string().size();
            for (auto& x : blk.m_qrr) total += x.string().size();
            for (auto& x : blk.m_rr) total += x.string().size();
            for (auto& x : blk.m_malformed_message_data) total += x.string().size();
        }
        out["fin"] = "eof";
    } catch (CdnsDecoderEnd&) { out["fin"] = "end"; }
    catch (std::exception& e) { out["fin"] = "err"; }
    out["rendered"] = total;
    return out;
}

// The blocks of a file kept by the application: each block returned by the reader is MOVED into a container (which moves
// its elements again whenever it grows), the reader and its stream are gone before any record is read - as a queue of
// blocks handed to another stage, or the Python binding's tuple, does it.
static json kept_dump(const std::string& bytes)
{
    json out = json::object();
    size_t n = 0;
    try {
        std::vector<CdnsBlockRead> kept;
        {
            std::istringstream is(bytes, std::ios::binary);
            CdnsReader reader(is);
            bool eof = false;
            while (true) {
                CdnsBlockRead blk = reader.read_block(eof);
                if (eof) break;
                kept.push_back(std::move(blk));
                if (kept.size() > 64) kept.erase(kept.begin());      // (bounded memory on hostile inputs)
            }
        }
        for (auto& blk : kept) {
            bool end = false;
            while (true) { GenericQueryResponse g = blk.read_generic_qr(end); if (end) break; n += g.string().size(); }
            while (true) { GenericAddressEventCount g = blk.read_generic_aec(end); if (end) break; n += g.string().size(); }
            while (true) { GenericMalformedMessage g = blk.read_generic_mm(end); if (end) break; n += g.string().size(); }
        }
        out["fin"] = "eof";
    } catch (CdnsDecoderEnd&) { out["fin"] = "end"; }
    catch (std::exception& e) { out["fin"] = "err"; }
    out["rendered"] = n;
    return out;
}

int main(int argc, char** argv)
{
    if (argc != 4) { fprintf(stderr, "usage: rd_driver dump|dump2|render|safety <list> <out>\n"); return 2; }
    std::string mode = argv[1];
    vh::trace().open(argv[3]);
    vh::install_crash_handlers();
    std::ifstream in(argv[2]);
    std::string path;
    if (mode == "dump2") {
        std::string p1, p2;
        while (std::getline(in, p1) && std::getline(in, p2)) {
            if (p1.empty() || p2.empty()) continue;
            vr::ReaderSession a(vh::read_file(p1)), b(vh::read_file(p2));
            vh::set_context(json{{"files", {p1, p2}}});
            a.open(); b.open();
            bool ma = true, mb = true;
            while (ma || mb) { if (ma) ma = a.step(); if (mb) mb = b.step(); }
            vh::trace().emit({{"e", "RD"}, {"file", p1.substr(p1.find_last_of('/') + 1)}, {"rd", a.out}});
            vh::trace().emit({{"e", "RD"}, {"file", p2.substr(p2.find_last_of('/') + 1)}, {"rd", b.out}});
        }
        vh::trace().emit({{"e", "END"}});
        vh::trace().close();
        return 0;
    }
    while (std::getline(in, path)) {
        if (path.empty()) continue;
        std::string bytes = vh::read_file(path);
        vh::set_context(json{{"file", path}, {"size", bytes.size()}});
        std::string name = path.substr(path.find_last_of('/') + 1);
        json ev = {{"e", "RD"}, {"file", name}, {"size", bytes.size()}};
        if (mode == "safety") {
            // C03: both entry points, outcome class and time only
            for (const char* entry : {"reader+accessors", "renderers", "blocks kept by move"}) {
                vh::set_context(json{{"entry", entry}, {"input", name}});
                long t0 = vh::cpu_ms();
                json r = std::string(entry) == "renderers" ? render_all(bytes)
                       : std::string(entry) == "blocks kept by move" ? kept_dump(bytes) : vr::reader_dump(bytes);
                long ms = vh::cpu_ms() - t0;
                std::string fin = r["fin"];
                vh::trace().emit({{"e", "X"}, {"entry", entry}, {"input", name}, {"outcome", fin == "eof" ? "ok" : fin},
                                  {"ms", ms}, {"size", bytes.size()}});
            }
            continue;
        }
        static int nfile = 0;
        if (mode == "render") ev["rn"] = render_all(bytes);
        else if (mode == "dumpmv") ev["rd"] = vr::reader_dump(bytes, (nfile++) % 4);      // the reader is handed on after 0..3 blocks
        else ev["rd"] = vr::reader_dump(bytes);
        vh::trace().emit(ev);
    }
    vh::trace().emit({{"e", "END"}});
    vh::trace().close();
    return 0;
}
