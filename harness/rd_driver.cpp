// Reader driver (C05 file level, C08, C03, C18): runs the real CdnsReader and record
// accessors on files and prints what they return.
//
//   rd_driver dump <list.txt> <out.ndjson>      one {"e":"RD","file":name,"rd":dump} per listed file
//   rd_driver render <list.txt> <out.ndjson>    additionally calls every string() renderer (outcome only)
//   rd_driver dump2 <list.txt> <out.ndjson>     files 2k and 2k+1 are read by two readers operated alternately on one
//                                               thread (one read_block() each in turn); one RD event per file
#include "common.h"
#include "records.h"
#include <chrono>

using namespace CDNS;

// fills a large piece of the stack (and a few heap blocks) with a byte value: whatever a later call leaves uninitialised
// in its locals / fresh allocations then holds that value
__attribute__((noinline)) static void scribble(unsigned char v)
{
    volatile unsigned char a[1 << 17];
    for (size_t i = 0; i < sizeof(a); i++) a[i] = v;
    for (int k = 0; k < 64; k++) { size_t n = 16 << (k % 8); char* p = static_cast<char*>(malloc(n)); if (p) { memset(p, v, n); free(p); } }
}
static uint64_t g_render_hash = 0;
static void mix_text(const std::string& s) { for (unsigned char c : s) { g_render_hash ^= c; g_render_hash *= 1099511628211ULL; } }
#define RENDER(expr) do { std::string t_ = (expr); total += t_.size(); mix_text(t_); } while (0)

static json render_all(const std::string& bytes)
{
    json out = json::object();
    size_t total = 0;
    g_render_hash = 1469598103934665603ULL;
    try {
        std::istringstream is(bytes, std::ios::binary);
        CdnsReader reader(is);
        RENDER(reader.m_file_preamble.string());
        bool eof = false;
        while (true) {
            CdnsBlockRead blk = reader.read_block(eof);
            if (eof) break;
            RENDER(blk.string());
            RENDER(blk.m_block_preamble.string());
            if (blk.m_block_statistics) RENDER(blk.m_block_statistics->string());
            bool end = false;
            while (true) { GenericQueryResponse g = blk.read_generic_qr(end); if (end) break; RENDER(g.string()); }
            while (true) { GenericAddressEventCount g = blk.read_generic_aec(end); if (end) break; RENDER(g.string()); }
            while (true) { GenericMalformedMessage g = blk.read_generic_mm(end); if (end) break; RENDER(g.string()); }
            for (auto& x : blk.m_query_responses) RENDER(x.string());
            for (auto& x : blk.m_malformed_messages) RENDER(x.string());
            for (auto& x : blk.m_classtype) RENDER(x.string());
            for (auto& x : blk.m_qr_sig) RENDER(x.string());
            for (auto& x : blk.m_qrr) RENDER(x.string());
            for (auto& x : blk.m_rr) RENDER(x.string());
            for (auto& x : blk.m_malformed_message_data) RENDER(x.string());
        }
        out["fin"] = "eof";
    } catch (CdnsDecoderEnd&) { out["fin"] = "end"; }
    catch (std::exception& e) { out["fin"] = "err"; }
    out["rendered"] = total;
    out["hash"] = g_render_hash;
    return out;
}

// The blocks of a file kept by the application: each block returned by the reader is MOVED into a container (which moves
// its elements again whenever it grows), the reader and its stream are gone before any record is read - as a queue of
// blocks handed to another stage, or the Python binding's tuple, does it.
static json kept_dump(const std::string& bytes)
{
    json out = json::object();
    size_t n = 0;
    try {
        std::vector<CdnsBlockRead> kept;
        {
            std::istringstream is(bytes, std::ios::binary);
            CdnsReader reader(is);
            bool eof = false;
            while (true) {
                CdnsBlockRead blk = reader.read_block(eof);
                if (eof) break;
                kept.push_back(std::move(blk));
                if (kept.size() > 64) kept.erase(kept.begin());      // (bounded memory on hostile inputs)
            }
        }
        for (auto& blk : kept) {
            bool end = false;
            while (true) { GenericQueryResponse g = blk.read_generic_qr(end); if (end) break; n += g.string().size(); }
            while (true) { GenericAddressEventCount g = blk.read_generic_aec(end); if (end) break; n += g.string().size(); }
            while (true) { GenericMalformedMessage g = blk.read_generic_mm(end); if (end) break; n += g.string().size(); }
        }
        out["fin"] = "eof";
    } catch (CdnsDecoderEnd&) { out["fin"] = "end"; }
    catch (std::exception& e) { out["fin"] = "err"; }
    out["rendered"] = n;
    return out;
}

int main(int argc, char** argv)
{
    if (argc != 4) { fprintf(stderr, "usage: rd_driver dump|dump2|render|safety <list> <out>\n"); return 2; }
    std::string mode = argv[1];
    vh::trace().open(argv[3]);
    vh::install_crash_handlers();
    std::ifstream in(argv[2]);
    std::string path;
    if (mode == "dump2") {
        std::string p1, p2;
        while (std::getline(in, p1) && std::getline(in, p2)) {
            if (p1.empty() || p2.empty()) continue;
            vr::ReaderSession a(vh::read_file(p1)), b(vh::read_file(p2));
            vh::set_context(json{{"files", {p1, p2}}});
            a.open(); b.open();
            bool ma = true, mb = true;
            while (ma || mb) { if (ma) ma = a.step(); if (mb) mb = b.step(); }
            vh::trace().emit({{"e", "RD"}, {"file", p1.substr(p1.find_last_of('/') + 1)}, {"rd", a.out}});
            vh::trace().emit({{"e", "RD"}, {"file", p2.substr(p2.find_last_of('/') + 1)}, {"rd", b.out}});
        }
        vh::trace().emit({{"e", "END"}});
        vh::trace().close();
        return 0;
    }
    while (std::getline(in, path)) {
        if (path.empty()) continue;
        std::string bytes = vh::read_file(path);
        vh::set_context(json{{"file", path}, {"size", bytes.size()}});
        std::string name = path.substr(path.find_last_of('/') + 1);
        json ev = {{"e", "RD"}, {"file", name}, {"size", bytes.size()}};
        if (mode == "safety") {
            // C03: both entry points, outcome class and time only
            // (the last entry: the same reader run on a forward-only stream - a pipe, a socket, a decompression filter: its size
            // cannot be asked for, it cannot seek)
            for (const char* entry : {"reader+accessors", "renderers", "blocks kept by move", "reader+accessors (forward-only stream)"}) {
                vr::fwd_forced() = std::string(entry) == "reader+accessors (forward-only stream)";
                vh::set_context(json{{"entry", entry}, {"input", name}});
                long t0 = vh::cpu_ms();
                json r;
                if (std::string(entry) == "renderers") {
                    // rendered twice, with the stack and fresh heap blocks pre-filled with different bytes: text that differs
                    // was made of memory the renderer never initialised (or does not own)
                    scribble(0xAB);
                    r = render_all(bytes);
                    scribble(0x5A);
                    json r2 = render_all(bytes);
                    if (r["fin"] == r2["fin"] && r["hash"] != r2["hash"]) r["fin"] = "text-depends-on-uninitialised-memory";
                }
                else r = std::string(entry) == "blocks kept by move" ? kept_dump(bytes) : vr::reader_dump(bytes);
                long ms = vh::cpu_ms() - t0;
                std::string fin = r["fin"];
                vh::trace().emit({{"e", "X"}, {"entry", entry}, {"input", name}, {"outcome", fin == "eof" ? "ok" : fin},
                                  {"ms", ms}, {"size", bytes.size()}});
                vr::fwd_forced() = false;
            }
            continue;
        }
        static int nfile = 0;
        if (mode == "render") ev["rn"] = render_all(bytes);
        else if (mode == "dumpmv") ev["rd"] = vr::reader_dump(bytes, (nfile++) % 4);      // the reader is handed on after 0..3 blocks
        else ev["rd"] = vr::reader_dump(bytes);
        vh::trace().emit(ev);
    }
    vh::trace().emit({{"e", "END"}});
    vh::trace().close();
    return 0;
}
