// Read-only probe into private state of the implementation (hook CDNS_VERIF:
// `friend struct ::CdnsVerifProbe` in cdns_encoder.h, cdns_decoder.h, block_table.h).
#pragma once
#ifndef CDNS_VERIF
#error "drivers must be compiled with -DCDNS_VERIF"
#endif
#include "cdns.h"

struct CdnsVerifProbe {
    static std::size_t enc_avail(const CDNS::CdnsEncoder& e) { return e.m_avail; }
    static std::size_t enc_staged(const CDNS::CdnsEncoder& e) { return e.m_p - e.m_buffer; }

    static std::size_t dec_pos(const CDNS::CdnsDecoder& d) { return d.m_p - d.m_buffer; }
    static std::size_t dec_end(const CDNS::CdnsDecoder& d) { return d.m_end - d.m_buffer; }

    // Number of reverse-index keys of a table that do NOT refer to an element
    // of the table's own storage (a copied table whose keys still point into
    // its source shows up here without relying on the allocator).
    template<typename T, typename K>
    static std::size_t foreign_keys(const CDNS::BlockTable<T, K>& t) {
        std::size_t foreign = 0;
        for (auto& kv : t.indexes_) {
            const K* kp = &kv.first.key_;
            bool own = false;
            for (auto& it : t.items_) {
                if (&it.key() == kp) { own = true; break; }
            }
            if (!own) foreign++;
        }
        return foreign;
    }
    template<typename T, typename K>
    static std::size_t index_size(const CDNS::BlockTable<T, K>& t) { return t.indexes_.size(); }
};
