// JSON <-> c-dns generic record / preamble conversion shared by the drivers.
// Numbers are Nat256 byte arrays (big-endian, no leading zeros), signed numbers
// {"neg":bool,"a":nat} (value = a, or -1 - a when neg), strings are byte arrays,
// absent optional members are absent keys.
#pragma once
#include <cstring>
#include "common.h"
#include "cdns.h"

namespace vr {
using namespace CDNS;

inline json snum(int64_t v) {
    if (v >= 0) return json{{"neg", false}, {"a", vh::nat(static_cast<uint64_t>(v))}};
    return json{{"neg", true}, {"a", vh::nat(~static_cast<uint64_t>(v))}};
}
inline int64_t snum_in(const json& j) {
    uint64_t a = vh::u64_from_nat(j["a"]);
    return j["neg"].get<bool>() ? static_cast<int64_t>(~a) : static_cast<int64_t>(a);
}
inline json ts_out(const Timestamp& t) { return json{{"s", vh::nat(t.m_secs)}, {"t", vh::nat(t.m_ticks)}}; }
inline Timestamp ts_in(const json& j) { return Timestamp(vh::u64_from_nat(j["s"]), vh::u64_from_nat(j["t"])); }
inline json ct_out(const ClassType& c) { return json{{"type", vh::nat(c.type)}, {"class", vh::nat(c.class_)}}; }
inline ClassType ct_in(const json& j) {
    ClassType c;
    c.type = static_cast<uint16_t>(vh::u64_from_nat(j["type"]));
    c.class_ = static_cast<uint16_t>(vh::u64_from_nat(j["class"]));
    return c;
}
inline json rr_out(const GenericResourceRecord& r, bool question) {
    json j = {{"name", vh::barr(r.name)}, {"ct", ct_out(r.classtype)}};
    if (!question) {
        if (r.ttl) j["ttl"] = vh::nat(*r.ttl);
        if (r.rdata) j["rdata"] = vh::barr(*r.rdata);
    }
    return j;
}
inline GenericResourceRecord rr_in(const json& j) {
    GenericResourceRecord r;
    r.name = vh::bytes_from_json(j["name"]);
    r.classtype = ct_in(j["ct"]);
    if (j.contains("ttl")) r.ttl = static_cast<uint32_t>(vh::u64_from_nat(j["ttl"]));
    if (j.contains("rdata")) r.rdata = vh::bytes_from_json(j["rdata"]);
    return r;
}
inline json rrl_out(const std::vector<GenericResourceRecord>& l, bool question) {
    json a = json::array();
    for (auto& r : l) a.push_back(rr_out(r, question));
    return a;
}
inline std::vector<GenericResourceRecord> rrl_in(const json& j) {
    std::vector<GenericResourceRecord> l;
    for (auto& x : j) l.push_back(rr_in(x));
    return l;
}

#define VR_NUM_FIELDS(X) \
    X(client_port, uint16_t) X(transaction_id, uint16_t) X(server_port, uint16_t) \
    X(qr_transport_flags, QueryResponseTransportFlagsMask) X(qr_type, QueryResponseTypeValues) \
    X(qr_sig_flags, QueryResponseFlagsMask) X(query_opcode, uint8_t) X(qr_dns_flags, DNSFlagsMask) \
    X(query_rcode, uint16_t) X(query_qdcount, uint16_t) X(query_ancount, uint16_t) X(query_nscount, uint16_t) \
    X(query_arcount, uint16_t) X(query_edns_version, uint8_t) X(query_udp_size, uint16_t) \
    X(response_rcode, uint16_t) X(client_hoplimit, uint8_t) X(query_size, std::size_t) \
    X(response_size, std::size_t) X(processing_flags, ResponseProcessingFlagsMask)
#define VR_STR_FIELDS(X) \
    X(client_ip) X(server_ip) X(query_opt_rdata) X(query_name) X(bailiwick) X(asn) X(country_code)
#define VR_SNUM_FIELDS(X) X(response_delay) X(round_trip_time)
#define VR_QLIST_FIELDS(X) X(query_questions) X(response_questions)
#define VR_RRLIST_FIELDS(X) \
    X(query_answers) X(query_authority) X(query_additional) \
    X(response_answers) X(response_authority) X(response_additional)

inline GenericQueryResponse qr_in(const json& j) {
    GenericQueryResponse g;
    if (j.contains("ts")) g.ts = ts_in(j["ts"]);
#define X(f, T) if (j.contains(#f)) g.f = static_cast<T>(vh::u64_from_nat(j[#f]));
    VR_NUM_FIELDS(X)
#undef X
#define X(f) if (j.contains(#f)) g.f = vh::bytes_from_json(j[#f]);
    VR_STR_FIELDS(X)
#undef X
#define X(f) if (j.contains(#f)) g.f = snum_in(j[#f]);
    VR_SNUM_FIELDS(X)
#undef X
#define X(f) if (j.contains(#f)) g.f = rrl_in(j[#f]);
    VR_QLIST_FIELDS(X)
    VR_RRLIST_FIELDS(X)
#undef X
    if (j.contains("query_classtype")) g.query_classtype = ct_in(j["query_classtype"]);
    return g;
}
inline json qr_out(const GenericQueryResponse& g) {
    json j = json::object();
    if (g.ts) j["ts"] = ts_out(*g.ts);
#define X(f, T) if (g.f) j[#f] = vh::nat(static_cast<uint64_t>(*g.f));
    VR_NUM_FIELDS(X)
#undef X
#define X(f) if (g.f) j[#f] = vh::barr(*g.f);
    VR_STR_FIELDS(X)
#undef X
#define X(f) if (g.f) j[#f] = snum(*g.f);
    VR_SNUM_FIELDS(X)
#undef X
#define X(f) if (g.f) j[#f] = rrl_out(*g.f, true);
    VR_QLIST_FIELDS(X)
#undef X
#define X(f) if (g.f) j[#f] = rrl_out(*g.f, false);
    VR_RRLIST_FIELDS(X)
#undef X
    if (g.query_classtype) j["query_classtype"] = ct_out(*g.query_classtype);
    return j;
}

inline GenericAddressEventCount aec_in(const json& j) {
    GenericAddressEventCount a;
    a.ae_type = static_cast<AddressEventTypeValues>(vh::u64_from_nat(j["ae_type"]));
    if (j.contains("ae_code")) a.ae_code = static_cast<uint8_t>(vh::u64_from_nat(j["ae_code"]));
    if (j.contains("ae_transport_flags"))
        a.ae_transport_flags = static_cast<QueryResponseTransportFlagsMask>(vh::u64_from_nat(j["ae_transport_flags"]));
    a.ip_address = vh::bytes_from_json(j["ip_address"]);
    if (j.contains("ae_count_in")) a.ae_count = vh::u64_from_nat(j["ae_count_in"]);   // whatever the caller left there
    return a;
}
inline json aec_out(const GenericAddressEventCount& a) {
    json j = {{"ae_type", vh::nat(static_cast<uint64_t>(a.ae_type))}, {"ip_address", vh::barr(a.ip_address)},
              {"count", vh::nat(a.ae_count)}};
    if (a.ae_code) j["ae_code"] = vh::nat(*a.ae_code);
    if (a.ae_transport_flags) j["ae_transport_flags"] = vh::nat(static_cast<uint64_t>(*a.ae_transport_flags));
    return j;
}
inline GenericMalformedMessage mm_in(const json& j) {
    GenericMalformedMessage m;
    if (j.contains("ts")) m.ts = ts_in(j["ts"]);
    if (j.contains("client_ip")) m.client_ip = vh::bytes_from_json(j["client_ip"]);
    if (j.contains("client_port")) m.client_port = static_cast<uint16_t>(vh::u64_from_nat(j["client_port"]));
    if (j.contains("server_ip")) m.server_ip = vh::bytes_from_json(j["server_ip"]);
    if (j.contains("server_port")) m.server_port = static_cast<uint16_t>(vh::u64_from_nat(j["server_port"]));
    if (j.contains("mm_transport_flags"))
        m.mm_transport_flags = static_cast<QueryResponseTransportFlagsMask>(vh::u64_from_nat(j["mm_transport_flags"]));
    if (j.contains("mm_payload")) m.mm_payload = vh::bytes_from_json(j["mm_payload"]);
    return m;
}
inline json mm_out(const GenericMalformedMessage& m) {
    json j = json::object();
    if (m.ts) j["ts"] = ts_out(*m.ts);
    if (m.client_ip) j["client_ip"] = vh::barr(*m.client_ip);
    if (m.client_port) j["client_port"] = vh::nat(*m.client_port);
    if (m.server_ip) j["server_ip"] = vh::barr(*m.server_ip);
    if (m.server_port) j["server_port"] = vh::nat(*m.server_port);
    if (m.mm_transport_flags) j["mm_transport_flags"] = vh::nat(static_cast<uint64_t>(*m.mm_transport_flags));
    if (m.mm_payload) j["mm_payload"] = vh::barr(*m.mm_payload);
    return j;
}

#define VR_STAT_FIELDS(X) \
    X(processed_messages) X(qr_data_items) X(unmatched_queries) X(unmatched_responses) X(discarded_opcode) X(malformed_items)
inline BlockStatistics stats_in(const json& j) {
    BlockStatistics s;
#define X(f) if (j.contains(#f)) s.f = static_cast<unsigned>(vh::u64_from_nat(j[#f]));
    VR_STAT_FIELDS(X)
#undef X
    return s;
}
inline json stats_out(const BlockStatistics& s) {
    json j = json::object();
#define X(f) if (s.f) j[#f] = vh::nat(*s.f);
    VR_STAT_FIELDS(X)
#undef X
    return j;
}

// ---- preamble -------------------------------------------------------------
inline CollectionParameters coll_in(const json& j) {
    CollectionParameters c;
    if (j.contains("query_timeout")) c.query_timeout = vh::u64_from_nat(j["query_timeout"]);
    if (j.contains("skew_timeout")) c.skew_timeout = vh::u64_from_nat(j["skew_timeout"]);
    if (j.contains("snaplen")) c.snaplen = vh::u64_from_nat(j["snaplen"]);
    if (j.contains("promisc")) c.promisc = j["promisc"].get<bool>();
    if (j.contains("interfaces")) for (auto& x : j["interfaces"]) c.interfaces.push_back(vh::bytes_from_json(x));
    if (j.contains("server_address")) for (auto& x : j["server_address"]) c.server_address.push_back(vh::bytes_from_json(x));
    if (j.contains("vlan_ids")) for (auto& x : j["vlan_ids"]) c.vlan_ids.push_back(static_cast<uint16_t>(vh::u64_from_nat(x)));
    if (j.contains("filter")) c.filter = vh::bytes_from_json(j["filter"]);
    if (j.contains("generator_id")) c.generator_id = vh::bytes_from_json(j["generator_id"]);
    if (j.contains("host_id")) c.host_id = vh::bytes_from_json(j["host_id"]);
    return c;
}
// lists are always emitted (an empty list and an absent list are the same value in the API)
inline json coll_out(const CollectionParameters& c) {
    json j = json::object();
    if (c.query_timeout) j["query_timeout"] = vh::nat(*c.query_timeout);
    if (c.skew_timeout) j["skew_timeout"] = vh::nat(*c.skew_timeout);
    if (c.snaplen) j["snaplen"] = vh::nat(*c.snaplen);
    if (c.promisc) j["promisc"] = *c.promisc;
    json a = json::array();
    for (auto& x : c.interfaces) a.push_back(vh::barr(x));
    j["interfaces"] = a;
    a = json::array();
    for (auto& x : c.server_address) a.push_back(vh::barr(x));
    j["server_address"] = a;
    a = json::array();
    for (auto& x : c.vlan_ids) a.push_back(vh::nat(x));
    j["vlan_ids"] = a;
    if (c.filter) j["filter"] = vh::barr(*c.filter);
    if (c.generator_id) j["generator_id"] = vh::barr(*c.generator_id);
    if (c.host_id) j["host_id"] = vh::barr(*c.host_id);
    return j;
}
inline BlockParameters bp_in(const json& j) {
    BlockParameters bp;
    StorageParameters& sp = bp.storage_parameters;
    sp.ticks_per_second = vh::u64_from_nat(j["tps"]);
    sp.max_block_items = vh::u64_from_nat(j["max"]);
    sp.storage_hints.query_response_hints = static_cast<uint32_t>(vh::u64_from_nat(j["qrh"]));
    sp.storage_hints.query_response_signature_hints = static_cast<uint32_t>(vh::u64_from_nat(j["sigh"]));
    sp.storage_hints.rr_hints = static_cast<uint8_t>(vh::u64_from_nat(j["rrh"]));
    sp.storage_hints.other_data_hints = static_cast<uint8_t>(vh::u64_from_nat(j["odh"]));
    sp.opcodes.clear();
    for (auto& x : j["opcodes"]) sp.opcodes.push_back(static_cast<OpCodes>(vh::u64_from_nat(x)));
    sp.rr_types.clear();
    for (auto& x : j["rr_types"]) sp.rr_types.push_back(static_cast<RrTypes>(vh::u64_from_nat(x)));
    if (j.contains("storage_flags")) sp.storage_flags = static_cast<StorageFlagsMask>(vh::u64_from_nat(j["storage_flags"]));
    if (j.contains("client_address_prefix_ipv4")) sp.client_address_prefix_ipv4 = static_cast<uint8_t>(vh::u64_from_nat(j["client_address_prefix_ipv4"]));
    if (j.contains("client_address_prefix_ipv6")) sp.client_address_prefix_ipv6 = static_cast<uint8_t>(vh::u64_from_nat(j["client_address_prefix_ipv6"]));
    if (j.contains("server_address_prefix_ipv4")) sp.server_address_prefix_ipv4 = static_cast<uint8_t>(vh::u64_from_nat(j["server_address_prefix_ipv4"]));
    if (j.contains("server_address_prefix_ipv6")) sp.server_address_prefix_ipv6 = static_cast<uint8_t>(vh::u64_from_nat(j["server_address_prefix_ipv6"]));
    if (j.contains("sampling_method")) sp.sampling_method = vh::bytes_from_json(j["sampling_method"]);
    if (j.contains("anonymization_method")) sp.anonymization_method = vh::bytes_from_json(j["anonymization_method"]);
    if (j.contains("coll")) bp.collection_parameters = coll_in(j["coll"]);
    return bp;
}
inline json bp_out(const BlockParameters& bp) {
    const StorageParameters& sp = bp.storage_parameters;
    json j = {{"tps", vh::nat(sp.ticks_per_second)}, {"max", vh::nat(sp.max_block_items)},
              {"qrh", vh::nat(sp.storage_hints.query_response_hints)},
              {"sigh", vh::nat(sp.storage_hints.query_response_signature_hints)},
              {"rrh", vh::nat(sp.storage_hints.rr_hints)}, {"odh", vh::nat(sp.storage_hints.other_data_hints)}};
    json a = json::array();
    for (auto x : sp.opcodes) a.push_back(vh::nat(static_cast<uint64_t>(x)));
    j["opcodes"] = a;
    a = json::array();
    for (auto x : sp.rr_types) a.push_back(vh::nat(static_cast<uint64_t>(x)));
    j["rr_types"] = a;
    if (sp.storage_flags) j["storage_flags"] = vh::nat(static_cast<uint64_t>(*sp.storage_flags));
    if (sp.client_address_prefix_ipv4) j["client_address_prefix_ipv4"] = vh::nat(*sp.client_address_prefix_ipv4);
    if (sp.client_address_prefix_ipv6) j["client_address_prefix_ipv6"] = vh::nat(*sp.client_address_prefix_ipv6);
    if (sp.server_address_prefix_ipv4) j["server_address_prefix_ipv4"] = vh::nat(*sp.server_address_prefix_ipv4);
    if (sp.server_address_prefix_ipv6) j["server_address_prefix_ipv6"] = vh::nat(*sp.server_address_prefix_ipv6);
    if (sp.sampling_method) j["sampling_method"] = vh::barr(*sp.sampling_method);
    if (sp.anonymization_method) j["anonymization_method"] = vh::barr(*sp.anonymization_method);
    if (bp.collection_parameters) j["coll"] = coll_out(*bp.collection_parameters);
    return j;
}
inline FilePreamble preamble_in(const json& j) {
    std::vector<BlockParameters> bps;
    for (auto& b : j["bps"]) bps.push_back(bp_in(b));
    FilePreamble fp(bps);
    fp.m_major_format_version = static_cast<uint8_t>(vh::u64_from_nat(j["major"]));
    fp.m_minor_format_version = static_cast<uint8_t>(vh::u64_from_nat(j["minor"]));
    if (j.contains("private")) fp.m_private_version = static_cast<uint8_t>(vh::u64_from_nat(j["private"]));
    else fp.m_private_version = boost::none;
    return fp;
}
inline json preamble_out(FilePreamble& fp) {
    json j = {{"major", vh::nat(fp.m_major_format_version)}, {"minor", vh::nat(fp.m_minor_format_version)}};
    if (fp.m_private_version) j["private"] = vh::nat(*fp.m_private_version);
    json a = json::array();
    for (auto& b : fp.m_block_parameters) a.push_back(bp_out(b));
    j["bps"] = a;
    return j;
}

// VERIF_STREAM=fwd: the reader's input is a forward-only stream (no seeking, odd-sized pieces) instead of a string stream
struct FwdInBuf : std::streambuf {
    std::string data; std::size_t pos = 0; char buf[4096];
    explicit FwdInBuf(const std::string& d) : data(d) {}
    int_type underflow() override {
        if (pos >= data.size()) return traits_type::eof();
        std::size_t n = std::min<std::size_t>(4093, data.size() - pos);
        memcpy(buf, data.data() + pos, n); pos += n;
        setg(buf, buf, buf + n);
        return traits_type::to_int_type(buf[0]);
    }
};
inline bool& fwd_forced() { static thread_local bool f = false; return f; }      // a driver may switch to forward-only streams itself
inline bool fwd_streams() { static const bool f = getenv("VERIF_STREAM") && std::string(getenv("VERIF_STREAM")) == "fwd"; return f || fwd_forced(); }

// A FilePreamble object the application keeps and reads one file after the other into (FilePreamble::read is public API)
inline FilePreamble& reused_preamble() { static thread_local FilePreamble fp; return fp; }      // (one per thread of a driver)

// Everything the library's own reader returns for a byte string, in the same shape.
// moved_after >= 0: the reader is handed on (move construction) after that many blocks, the rest is read through the new
// object (the old one stays alive, untouched).
inline json reader_dump(const std::string& bytes, int moved_after = -1) {
    json out = json::object();
    json blocks = json::array();
    try {
        std::istringstream iss(bytes, std::ios::binary);
        FwdInBuf fb(bytes);
        std::istream ifwd(&fb);
        std::istream& is = fwd_streams() ? ifwd : static_cast<std::istream&>(iss);
        std::unique_ptr<CdnsReader> first(new CdnsReader(is)), second;
        CdnsReader* rp = first.get();
        out["preamble"] = preamble_out(rp->m_file_preamble);
        if (moved_after < 0) {
            // the same preamble once more, read into an object that has read other files before
            try {
                std::istringstream is2(bytes, std::ios::binary);
                CdnsDecoder d2(is2);
                bool indef = false;
                d2.read_array_start(indef);
                d2.read_textstring();
                reused_preamble().read(d2);
                out["preamble_reused"] = preamble_out(reused_preamble());
            } catch (std::exception&) {}
        }
        bool eof = false;
        int nread = 0;
        while (true) {
            if (moved_after >= 0 && nread == moved_after && !second) { second.reset(new CdnsReader(std::move(*first))); rp = second.get(); }
            CdnsReader& reader = *rp;
            nread++;
            CdnsBlockRead blk = reader.read_block(eof);
            if (eof) break;
            json b = json::object();
            if (blk.m_block_preamble.block_parameters_index) b["bpi"] = vh::nat(*blk.m_block_preamble.block_parameters_index);
            b["earliest"] = ts_out(blk.m_block_preamble.earliest_time);
            if (blk.m_block_statistics) b["stats"] = stats_out(*blk.m_block_statistics);
            json qrs = json::array(), aecs = json::array(), mms = json::array();
            bool end = false;
            while (true) { GenericQueryResponse g = blk.read_generic_qr(end); if (end) break; qrs.push_back(qr_out(g)); }
            while (true) { GenericAddressEventCount g = blk.read_generic_aec(end); if (end) break; aecs.push_back(aec_out(g)); }
            while (true) { GenericMalformedMessage g = blk.read_generic_mm(end); if (end) break; mms.push_back(mm_out(g)); }
            b["qrs"] = qrs; b["aecs"] = aecs; b["mms"] = mms;
            {   // what the block renders as (string() of the block and of its preamble): a digest in three small numbers
                uint64_t hsh = 1469598103934665603ULL;
                for (unsigned char c : blk.string() + blk.m_block_preamble.string()) { hsh ^= c; hsh *= 1099511628211ULL; }
                b["str"] = json::array({hsh & 0xFFFFFF, (hsh >> 24) & 0xFFFFFF, (hsh >> 48) & 0xFFFF});
            }
            blocks.push_back(b);
        }
        out["fin"] = "eof";
        // read_block() after the end was reported: [eof flag, items of the returned block] of two further calls
        json after = json::array();
        for (int k = 0; k < 2; k++) {
            bool e2 = false;
            CdnsBlockRead blk = rp->read_block(e2);
            after.push_back(json::array({e2, blk.get_item_count()}));
        }
        out["after"] = after;
    } catch (CdnsDecoderEnd& e) {
        out["fin"] = "end";
    } catch (std::exception& e) {
        out["fin"] = "err";
        out["msg"] = std::string(e.what()).substr(0, 200);
    }
    out["blocks"] = blocks;
    return out;
}


// The same, one read_block() at a time (so that several readers can be operated alternately): open(), then step() until
// it returns false; `out` is then exactly what reader_dump() returns for the same bytes.
struct ReaderSession {
    std::istringstream is;
    std::unique_ptr<CdnsReader> reader;
    json out = json::object();
    json blocks = json::array();
    bool done = false;
    std::string data;
    explicit ReaderSession(const std::string& bytes) : is(bytes, std::ios::binary), data(bytes) {}
    void fail(const char* kind, const std::exception* e) {
        out["fin"] = kind;
        if (e && std::string(kind) == "err") out["msg"] = std::string(e->what()).substr(0, 200);
        out["blocks"] = blocks; done = true;
    }
    void open() {
        try { reader.reset(new CdnsReader(is)); out["preamble"] = preamble_out(reader->m_file_preamble); }
        catch (CdnsDecoderEnd& e) { fail("end", &e); return; }
        catch (std::exception& e) { fail("err", &e); return; }
        try {       // as in reader_dump(): the preamble once more, into an object that has read other files before
            std::istringstream is2(data, std::ios::binary);
            CdnsDecoder d2(is2);
            bool indef = false;
            d2.read_array_start(indef);
            d2.read_textstring();
            reused_preamble().read(d2);
            out["preamble_reused"] = preamble_out(reused_preamble());
        } catch (std::exception&) {}
    }
    bool step() {
        if (done) return false;
        try {
            bool eof = false;
            CdnsBlockRead blk = reader->read_block(eof);
            if (eof) {
                out["fin"] = "eof";
                json after = json::array();
                for (int k = 0; k < 2; k++) { bool e2 = false; CdnsBlockRead b2 = reader->read_block(e2); after.push_back(json::array({e2, b2.get_item_count()})); }
                out["after"] = after; out["blocks"] = blocks; done = true;
                return false;
            }
            json b = json::object();
            if (blk.m_block_preamble.block_parameters_index) b["bpi"] = vh::nat(*blk.m_block_preamble.block_parameters_index);
            b["earliest"] = ts_out(blk.m_block_preamble.earliest_time);
            if (blk.m_block_statistics) b["stats"] = stats_out(*blk.m_block_statistics);
            json qrs = json::array(), aecs = json::array(), mms = json::array();
            bool end = false;
            while (true) { GenericQueryResponse g = blk.read_generic_qr(end); if (end) break; qrs.push_back(qr_out(g)); }
            while (true) { GenericAddressEventCount g = blk.read_generic_aec(end); if (end) break; aecs.push_back(aec_out(g)); }
            while (true) { GenericMalformedMessage g = blk.read_generic_mm(end); if (end) break; mms.push_back(mm_out(g)); }
            b["qrs"] = qrs; b["aecs"] = aecs; b["mms"] = mms;
            {   // what the block renders as (string() of the block and of its preamble): a digest in three small numbers
                uint64_t hsh = 1469598103934665603ULL;
                for (unsigned char c : blk.string() + blk.m_block_preamble.string()) { hsh ^= c; hsh *= 1099511628211ULL; }
                b["str"] = json::array({hsh & 0xFFFFFF, (hsh >> 24) & 0xFFFFFF, (hsh >> 48) & 0xFFFF});
            }
            blocks.push_back(b);
            return true;
        }
        catch (CdnsDecoderEnd& e) { fail("end", &e); }
        catch (std::exception& e) { fail("err", &e); }
        return false;
    }
};


// ---- raw blocks (built directly through CdnsBlock::add_*; C02) -------------------------------
#define VR_SIG_FIELDS(X) \
    X(server_address_index, index_t) X(server_port, uint16_t) X(qr_transport_flags, QueryResponseTransportFlagsMask) \
    X(qr_type, QueryResponseTypeValues) X(qr_sig_flags, QueryResponseFlagsMask) X(query_opcode, uint8_t) \
    X(qr_dns_flags, DNSFlagsMask) X(query_rcode, uint16_t) X(query_classtype_index, index_t) X(query_qdcount, uint16_t) \
    X(query_ancount, uint32_t) X(query_nscount, uint16_t) X(query_arcount, uint16_t) X(query_edns_version, uint8_t) \
    X(query_udp_size, uint16_t) X(query_opt_rdata_index, index_t) X(response_rcode, uint16_t)
inline QueryResponseSignature raw_sig_in(const json& j) {
    QueryResponseSignature s;
#define X(f, T) if (j.contains(#f)) s.f = static_cast<T>(vh::u64_from_nat(j[#f]));
    VR_SIG_FIELDS(X)
#undef X
    return s;
}
inline QueryResponseExtended raw_qre_in(const json& j) {
    QueryResponseExtended e;
    if (j.contains("question_index")) e.question_index = static_cast<index_t>(vh::u64_from_nat(j["question_index"]));
    if (j.contains("answer_index")) e.answer_index = static_cast<index_t>(vh::u64_from_nat(j["answer_index"]));
    if (j.contains("authority_index")) e.authority_index = static_cast<index_t>(vh::u64_from_nat(j["authority_index"]));
    if (j.contains("additional_index")) e.additional_index = static_cast<index_t>(vh::u64_from_nat(j["additional_index"]));
    return e;
}
inline QueryResponse raw_qr_in(const json& j) {
    QueryResponse q;
    if (j.contains("time_offset")) q.time_offset = ts_in(j["time_offset"]);
    if (j.contains("client_address_index")) q.client_address_index = static_cast<index_t>(vh::u64_from_nat(j["client_address_index"]));
    if (j.contains("client_port")) q.client_port = static_cast<uint16_t>(vh::u64_from_nat(j["client_port"]));
    if (j.contains("transaction_id")) q.transaction_id = static_cast<uint16_t>(vh::u64_from_nat(j["transaction_id"]));
    if (j.contains("qr_signature_index")) q.qr_signature_index = static_cast<index_t>(vh::u64_from_nat(j["qr_signature_index"]));
    if (j.contains("client_hoplimit")) q.client_hoplimit = static_cast<uint8_t>(vh::u64_from_nat(j["client_hoplimit"]));
    if (j.contains("response_delay")) q.response_delay = snum_in(j["response_delay"]);
    if (j.contains("query_name_index")) q.query_name_index = static_cast<index_t>(vh::u64_from_nat(j["query_name_index"]));
    if (j.contains("query_size")) q.query_size = vh::u64_from_nat(j["query_size"]);
    if (j.contains("response_size")) q.response_size = vh::u64_from_nat(j["response_size"]);
    if (j.contains("rpd")) {
        ResponseProcessingData r;
        if (j["rpd"].contains("bailiwick_index")) r.bailiwick_index = static_cast<index_t>(vh::u64_from_nat(j["rpd"]["bailiwick_index"]));
        if (j["rpd"].contains("processing_flags")) r.processing_flags = static_cast<ResponseProcessingFlagsMask>(vh::u64_from_nat(j["rpd"]["processing_flags"]));
        q.response_processing_data = r;
    }
    if (j.contains("qe")) q.query_extended = raw_qre_in(j["qe"]);
    if (j.contains("re")) q.response_extended = raw_qre_in(j["re"]);
    if (j.contains("asn")) q.asn = vh::bytes_from_json(j["asn"]);
    if (j.contains("country_code")) q.country_code = vh::bytes_from_json(j["country_code"]);
    if (j.contains("round_trip_time")) q.round_trip_time = snum_in(j["round_trip_time"]);
    return q;
}
// builds the block; table entries are added in order (the generator keeps them distinct, so index = position)
inline void raw_block_fill(CdnsBlock& b, const json& d) {
    const json& t = d["tables"];
    if (t.contains("ip")) for (auto& x : t["ip"]) b.add_ip_address(vh::bytes_from_json(x));
    if (t.contains("ct")) for (auto& x : t["ct"]) b.add_classtype(ct_in(x));
    if (t.contains("name")) for (auto& x : t["name"]) b.add_name_rdata(vh::bytes_from_json(x));
    if (t.contains("sig")) for (auto& x : t["sig"]) b.add_qr_signature(raw_sig_in(x));
    auto idxlist = [](const json& l) { std::vector<index_t> v; for (auto& i : l) v.push_back(static_cast<index_t>(vh::u64_from_nat(i))); return v; };
    if (t.contains("qrr")) for (auto& x : t["qrr"]) { Question q; q.name_index = static_cast<index_t>(vh::u64_from_nat(x["name_index"])); q.classtype_index = static_cast<index_t>(vh::u64_from_nat(x["classtype_index"])); b.add_question(q); }
    if (t.contains("qlist")) for (auto& x : t["qlist"]) b.add_question_list(idxlist(x));
    if (t.contains("rr")) for (auto& x : t["rr"]) {
        RR r; r.name_index = static_cast<index_t>(vh::u64_from_nat(x["name_index"])); r.classtype_index = static_cast<index_t>(vh::u64_from_nat(x["classtype_index"]));
        if (x.contains("ttl")) r.ttl = static_cast<uint32_t>(vh::u64_from_nat(x["ttl"]));
        if (x.contains("rdata_index")) r.rdata_index = static_cast<index_t>(vh::u64_from_nat(x["rdata_index"]));
        b.add_rr(r);
    }
    if (t.contains("rrlist")) for (auto& x : t["rrlist"]) b.add_rr_list(idxlist(x));
    if (t.contains("mmd")) for (auto& x : t["mmd"]) {
        MalformedMessageData m;
        if (x.contains("server_address_index")) m.server_address_index = static_cast<index_t>(vh::u64_from_nat(x["server_address_index"]));
        if (x.contains("server_port")) m.server_port = static_cast<uint16_t>(vh::u64_from_nat(x["server_port"]));
        if (x.contains("mm_transport_flags")) m.mm_transport_flags = static_cast<QueryResponseTransportFlagsMask>(vh::u64_from_nat(x["mm_transport_flags"]));
        if (x.contains("mm_payload")) m.mm_payload = vh::bytes_from_json(x["mm_payload"]);
        b.add_malformed_message_data(m);
    }
    boost::optional<BlockStatistics> st;
    if (d.contains("stats")) st = stats_in(d["stats"]);
    if (d.contains("qrs")) for (auto& x : d["qrs"]) b.add_question_response_record(raw_qr_in(x), st);
    if (d.contains("aecs")) for (auto& x : d["aecs"]) {
        AddressEventCount a;
        a.ae_type = static_cast<AddressEventTypeValues>(vh::u64_from_nat(x["ae_type"]));
        if (x.contains("ae_code")) a.ae_code = static_cast<uint8_t>(vh::u64_from_nat(x["ae_code"]));
        if (x.contains("ae_transport_flags")) a.ae_transport_flags = static_cast<QueryResponseTransportFlagsMask>(vh::u64_from_nat(x["ae_transport_flags"]));
        a.ae_address_index = static_cast<index_t>(vh::u64_from_nat(x["ae_address_index"]));
        b.add_address_event_count(a, st);
    }
    if (d.contains("mms")) for (auto& x : d["mms"]) {
        MalformedMessage m;
        if (x.contains("time_offset")) m.time_offset = ts_in(x["time_offset"]);
        if (x.contains("client_address_index")) m.client_address_index = static_cast<index_t>(vh::u64_from_nat(x["client_address_index"]));
        if (x.contains("client_port")) m.client_port = static_cast<uint16_t>(vh::u64_from_nat(x["client_port"]));
        if (x.contains("message_data_index")) m.message_data_index = static_cast<index_t>(vh::u64_from_nat(x["message_data_index"]));
        b.add_malformed_message(m, st);
    }
}

} // namespace vr
