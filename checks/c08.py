"""C08  Reading is invariant under equivalent re-encoding and ignores unknown members."""
import json
import random
import shutil
from pathlib import Path

import vlib
from vlib import Check
from checks.reader_common import make_files, tlc_variants, reader_dumps
from checks.c18 import segs


def run(tier):
    chk = Check("C08", tier, "model_checking")
    chk.rule = ("real exporter files (random content) are parsed by TLC, rewritten by compositions of the semantics-preserving "
                "rewrites of Rewrite.tla at seed-chosen nodes (definite<->indefinite per container/string, chunking, "
                "non-minimal head widths, rotation of map members, unknown positive/negative keys carrying tagged / float / "
                "nested / indefinite values) and serialised again; TLC checks that the variant is a valid file with the same "
                "denotation and that the library reader returns exactly the same dump for both, also through a forward-only stream "
                "on a 5-byte decoder window; every prefix of some variants is "
                "read (and fails) and right after it the whole variant again, which must read as before; distinct = variants")
    chk.assumptions = ["TLC + CommunityModules", "Cbor.tla / CdnsFormat.tla / Rewrite.tla as the reading of RFC 8949 / 8618",
                       "driver reader dump (harness/records.h)"]
    rng = random.Random(chk.seed * 37 + 8)
    work = vlib.scratch("c08")
    files = make_files(work, rng, 16 if tier == "quick" else 200)
    nvar = 12 if tier == "quick" else 50
    variants = tlc_variants(work, files, "rewrite", nvar, chk.seed)
    vdir = work / "variants"
    vdir.mkdir()
    paths = list({str(f): f for f, _, _ in variants}.values())
    vpaths = []
    for f, v, b in variants:
        p = vdir / f"{f.stem}_v{v}.cdns"
        p.write_bytes(b)
        vpaths.append(p)
    dumps, crashes = reader_dumps(work, paths + vpaths)
    # the same files through a forward-only stream (a pipe, a decompression filter: no seeking) on the build whose decoder
    # window is 5 bytes, so that every string, also of an unknown member, reaches past the window
    dumps_f, crashes_f = reader_dumps(work, vpaths, defs=("CDNS_VERIF_DEC_BUFFER=5",), fwd=True, label="c08fwd")
    crashes += crashes_f
    nsh = vlib.NCPU
    traces = [work / f"c08.{i}.ndjson" for i in range(nsh)]
    hs = [open(t, "w") for t in traces]
    k = 0
    for (f, v, b), vp in zip(variants, vpaths):
        if f.name not in dumps or vp.name not in dumps:
            continue
        ev = {"e": "V", "src": f.name, "v": v, "orig": segs(f.read_bytes()), "var": segs(b),
              "rd_orig": dumps[f.name]["rd"], "rd_var": dumps[vp.name]["rd"]}
        hs[k % nsh].write(json.dumps(ev) + "\n")
        k += 1
        if vp.name in dumps_f:
            hs[k % nsh].write(json.dumps(dict(ev, rd_var=dumps_f[vp.name]["rd"])) + "\n")
            k += 1
    # a reader is not disturbed by what an EARLIER reader on the same thread met: every prefix of a few small variants
    # (a read that fails somewhere inside - also inside the value of an unknown member) is read, and right after it the
    # complete variant once more: it must give exactly what it gave the first time (digests compared by TLC)
    import hashlib
    import os
    adir = work / "again"
    adir.mkdir()
    small = sorted((vp for vp in vpaths if vp.name in dumps and vp.stat().st_size <= 2500), key=lambda q: q.stat().st_size)
    small = small[len(small) // 2:][: (3 if tier == "quick" else 24)]          # the larger of the small ones: more members
    seq = []
    for vp in small:
        data = vp.read_bytes()
        for c in range(1, len(data), 1 if tier == "thorough" or len(data) < 1200 else 2):
            cf = adir / f"{vp.stem}_c{c}.cdns"
            cf.write_bytes(data[:c])
            af = adir / f"{vp.stem}_a{c}.cdns"
            os.link(vp, af)
            seq += [cf, af]
    dumps2, crashes2 = reader_dumps(work, seq, label="c08again", chunk=2)
    crashes += crashes2
    dig = lambda d: hashlib.sha256(json.dumps(d, sort_keys=True).encode()).hexdigest()[:24]
    nagain = 0
    for vp in small:
        first = dig(dumps[vp.name]["rd"])
        for af in (q for q in seq if q.name.startswith(vp.stem + "_a")):
            if af.name in dumps2:
                hs[k % nsh].write(json.dumps({"e": "A", "file": vp.name, "cut": int(af.stem.rsplit("_a", 1)[1]), "first": first,
                                              "again": dig(dumps2[af.name]["rd"])}) + "\n")
                k += 1
                nagain += 1
    chk.extra["reads_repeated_after_a_failed_read"] = nagain
    for h in hs:
        h.write('{"e":"END"}\n')
        h.close()
    merged = vlib.validate_traces("TraceReader", traces, constants={}, timeout=2400, label="c08tv", xmx="4g")
    spec_problems = [v for v in merged["viol"] if v.get("prop") == "SPEC"]
    if spec_problems:
        raise vlib.Infra("the rewriter / TLA+ reading is inconsistent with itself: " + json.dumps(spec_problems[0])[:800])
    for c in crashes:
        merged["viol"].append({"prop": "C08,C03", "what": "reader crashed on a re-encoded valid file: " + json.dumps(c)[:300]})
    chk.samples.append({"files": len(paths), "variants_per_file": nvar, "example_variant_head": list(variants[0][2][:48])})
    chk.add_traces(merged, relevant={"C08"})
    chk.distinct = merged["execs"]
    shutil.rmtree(work, ignore_errors=True)
    return chk.finish()


def replay(path):
    print(Path(path).read_text()[:6000])
    return 0
