"""Shared parts of C14 / C15 / C16: Writer.tla model, scenarios, wr_driver, TraceWriter."""
import json
import shutil

import vlib

SCN = {"Scn1": "<<W, W, R, W, R, R, W, W, D>>", "Scn2": "<<W, R, D>>", "Scn3": "<<R, R, W, W, W, R, W, D>>"}


def writer_model(chk, name, scn, named, compressed, fault=0, persistent=False, bug="none", invs=None, expect="ok",
                 prepart="{}"):
    work = vlib.scratch("wrmc")
    cfg = work / "MCWriter.cfg"
    cfg.write_text("\n".join([
        "SPECIFICATION Spec", "CONSTANTS", f"  Scenario <- {scn}", f"  Named = {'TRUE' if named else 'FALSE'}",
        f"  Compressed = {'TRUE' if compressed else 'FALSE'}", "  PreExisting = {2}", f"  PrePart = {prepart}", f"  FaultAt = {fault}",
        f"  Persistent = {'TRUE' if persistent else 'FALSE'}", f'  WBug = "{bug}"',
        "INVARIANTS " + " ".join(invs or ["C15_Atomic", "C16_Reported", "C14_Complete"]), "CHECK_DEADLOCK FALSE", ""]))
    res, verdict = vlib.model_check("MCWriter", cfg, workers=2, timeout=600, xmx="2g")
    chk.add_model(name, res, verdict, expect=expect)
    shutil.rmtree(work, ignore_errors=True)


def run_scenarios(chk, mode, scenarios, relevant, label, timeout=2400, flavor="plain", defs=()):
    work = vlib.scratch(label)
    sf = work / "scenarios.ndjson"
    with open(sf, "w") as f:
        for s in scenarios:
            f.write(json.dumps(s) + "\n")
    exe = vlib.build_driver("wr_driver", flavor, defs)
    nsh = min(vlib.NCPU, len(scenarios))
    files = [work / f"wr.{i}.ndjson" for i in range(nsh)]
    cmds = [[exe, mode, sf, i, nsh, files[i]] for i in range(nsh)]
    env = {"VERIF_TMP": str(work), "ASAN_OPTIONS": "abort_on_error=1:detect_leaks=0", "UBSAN_OPTIONS": "halt_on_error=1:abort_on_error=1"}
    for cmd, rc, out in vlib.run_parallel(cmds, timeout=timeout, env=env):
        if rc != 0:
            raise vlib.Infra(f"wr_driver failed rc={rc}: {out}")
    merged = vlib.validate_traces("TraceWriter", files, constants={}, timeout=timeout, label=label + "tv")
    chk.samples.append({"scenario": scenarios[0]})
    chk.add_traces(merged, relevant=relevant)
    shutil.rmtree(work, ignore_errors=True)
    return merged


def writer_scenarios(rng, tier, big=False):
    """Chunkings for the writers used directly: sizes 1 B .. MiB, compressible / incompressible / empty, rotations."""
    scs = []
    sid = 0
    sizes_small = [0, 1, 2, 100, 2047, 2048, 2049, 6000, 70000]
    n = 10 if tier == "quick" else 150
    for comp in ["none", "gz", "xz"]:
        for kind in ["file", "fd"]:
            for i in range(n):
                nch = rng.choice([1, 2, 4, 7])
                chunks = [{"id": j + 1, "n": rng.choice(sizes_small + [rng.randrange(1, 300000)]),
                           "pat": rng.choice(["zero", "text", "rand"]), "seed": rng.randrange(1 << 30)} for j in range(nch)]
                steps = []
                for _ in range(rng.choice([1, 3, 6, 12])):
                    if rng.random() < 0.2:
                        steps.append({"op": "rot"})
                    else:
                        steps.append({"op": "w", "c": rng.randrange(nch) + 1})
                sid += 1
                scs.append({"id": sid, "target": "writer", "comp": comp, "kind": kind, "chunks": chunks, "steps": steps})
    if big:
        for comp in ["gz", "xz"]:
            for mb in ([8] if tier == "quick" else [8, 16, 32]):
                for pat in (["rand"] if tier == "quick" else ["rand", "zero"]):
                    sid += 1
                    scs.append({"id": sid, "target": "writer", "comp": comp, "kind": "file",
                                "chunks": [{"id": 1, "n": mb << 20, "pat": pat, "seed": 7}, {"id": 2, "n": 5, "pat": "text"}],
                                "steps": [{"op": "w", "c": 2}, {"op": "w", "c": 1}, {"op": "rot"}, {"op": "w", "c": 2}]})
    return scs


def boundary_scenarios(tier):
    """Chunk lengths around the multiples of 4 KiB / 16 KiB up to 96 KiB (the compressors' 64 KiB scratch buffer and every
    fraction of it a size estimate might use), each written while the compressor still holds the backlog of a large
    incompressible chunk: every compression step then fills all the room it is offered."""
    step = 16384 if tier == "quick" else 4096
    sizes = sorted({m + d for m in range(step, 98304 + 1, step) for d in (-130, -96, -52, -33, -1, 0, 1, 33, 64) if m + d > 0})
    scs = []
    sid = 7000
    for comp in ["gz", "xz"]:
        # each boundary length directly behind its own 384 KiB incompressible chunk (the backlog is largest right after
        # it; the large chunks differ, a repeated one would be found in the compressor's dictionary and leave no backlog)
        chunks, steps = [], []
        for k, n in enumerate(sizes):
            chunks.append({"id": 2 * k + 1, "n": 384 << 10, "pat": "rand", "seed": 5000 + k})
            chunks.append({"id": 2 * k + 2, "n": n, "pat": "rand", "seed": 100 + k})
            steps += [{"op": "w", "c": 2 * k + 1}, {"op": "w", "c": 2 * k + 2}]
        sid += 1
        scs.append({"id": sid, "target": "writer", "comp": comp, "kind": "fd", "chunks": chunks, "steps": steps})
    return scs


def reuse_scenarios(rng, tier):
    """Named outputs rotated onto names used before: the name in use (a -> a), and an earlier one (a -> b -> a)."""
    scs = []
    sid = 5000
    for comp in ["none", "gz", "xz"]:
        chunks = [{"id": 1, "n": 5000, "pat": "text"}, {"id": 2, "n": 700, "pat": "rand", "seed": 3},
                  {"id": 3, "n": 70000, "pat": "rand", "seed": 5}, {"id": 4, "n": 9, "pat": "text"}]
        shapes = [
            [("w", 1), ("rot", 1), ("w", 2)],                          # a -> a, the second output shorter
            [("w", 2), ("rot", 1), ("w", 3), ("w", 1)],                # a -> a, the second output longer
            [("w", 3), ("w", 4), ("rot", 1), ("rot", 1), ("w", 4)],    # a -> a -> a with an empty output between
            [("w", 1), ("rot", 2), ("w", 2), ("rot", 1), ("w", 4)],    # a -> b -> a
        ]
        if tier == "thorough":
            shapes += [[("w", 4), ("rot", 2), ("w", 3), ("rot", 2), ("w", 1), ("rot", 1), ("w", 2), ("w", 2)],
                       [("rot", 1), ("w", 1), ("rot", 1)]]
        for sh in shapes:
            sid += 1
            steps = [{"op": "w", "c": a} if o == "w" else {"op": "rot", "to": a} for o, a in sh]
            scs.append({"id": sid, "target": "writer", "comp": comp, "kind": "file", "chunks": chunks, "steps": steps})
        for sh in ([[("rec", 9), ("wb", 0), ("rot", 1), ("rec", 3), ("wb", 0)],
                    [("rec", 30), ("rot", 2), ("rec", 5), ("rot", 1), ("rec", 2), ("wb", 0)]]):
            sid += 1
            steps = [{"op": "rec", "n": a} if o == "rec" else {"op": "wb"} if o == "wb" else {"op": "rot", "to": a, "export": True}
                     for o, a in sh]
            scs.append({"id": sid, "target": "exporter", "comp": comp, "kind": "file", "max": 4, "steps": steps, "pre": []})
    return scs


def exporter_scenarios(rng, tier, comps=("none", "gz", "xz"), kinds=("file", "fd"), recover=False):
    scs = []
    sid = 1000
    shapes = [
        [{"op": "rec", "n": 9}, {"op": "wb"}],
        [{"op": "rec", "n": 5}, {"op": "rot", "export": True}, {"op": "rec", "n": 6}, {"op": "wb"}],
        [{"op": "rot", "export": False}, {"op": "rec", "n": 3}, {"op": "rot", "export": False}, {"op": "rec", "n": 2}, {"op": "wb"}],
        [{"op": "rec", "n": 30}, {"op": "rot", "export": True}, {"op": "rot", "export": True}, {"op": "wb"}],
    ]
    if tier == "thorough":
        shapes += [
            [{"op": "rec", "n": 17}, {"op": "rot", "export": False}, {"op": "rec", "n": 1}, {"op": "rot", "export": True},
             {"op": "rec", "n": 4}, {"op": "wb"}],
            [{"op": "wb"}, {"op": "rot", "export": True}, {"op": "rec", "n": 8}, {"op": "wb"}, {"op": "rot", "export": False}],
            # outputs of tens / hundreds of KiB: many write system calls per output, several stream-buffer fills
            [{"op": "rec", "n": 300}, {"op": "rot", "export": True}, {"op": "rec", "n": 61}, {"op": "wb"}],
            [{"op": "rec", "n": 62}, {"op": "wb"}, {"op": "rec", "n": 63}, {"op": "rot", "export": False}, {"op": "rec", "n": 5}, {"op": "wb"}],
            [{"op": "rec", "n": 1200}, {"op": "wb"}, {"op": "rot", "export": True}, {"op": "rec", "n": 1}, {"op": "wb"}],
        ]
        for k in (1, 2, 3, 5, 7, 20, 60, 64, 65):
            shapes.append([{"op": "rec", "n": k}, {"op": "wb"}, {"op": "rec", "n": k}, {"op": "rot", "export": True},
                           {"op": "rec", "n": k}, {"op": "wb"}])
    # blocks larger than the encoder's 2 KiB staging buffer: write_block() itself issues write system calls, also for
    # the FIRST block of an output (the file header and the start of the block leave with the same call)
    big = [
        (10000, [{"op": "rec", "n": 150}, {"op": "wb"}, {"op": "rec", "n": 3}, {"op": "wb"}]),
        (10000, [{"op": "rec", "n": 2}, {"op": "wb"}, {"op": "rec", "n": 120}, {"op": "rot", "export": True}, {"op": "rec", "n": 90},
                 {"op": "wb"}]),
    ]
    # records whose strings are larger than the staging buffer (a path of their own in an encoder that hands large
    # strings to the output directly)
    big.append((10000, [{"op": "rec", "n": 12, "big": 4}, {"op": "wb"}, {"op": "rec", "n": 5, "big": 2}, {"op": "rot", "export": True},
                        {"op": "rec", "n": 3, "big": 1}, {"op": "wb"}]))
    if tier == "thorough":
        big += [(10000, [{"op": "rec", "n": 600}, {"op": "wb"}, {"op": "rot", "export": False}, {"op": "rec", "n": 200}, {"op": "wb"}]),
                (64, [{"op": "rec", "n": 400}, {"op": "rot", "export": True}, {"op": "rec", "n": 70}, {"op": "wb"}])]
    for comp in comps:
        for kind in kinds:
            for mx, sh in [(4, x) for x in shapes] + big:
                sid += 1
                steps = list(sh)
                if recover:
                    steps = steps + [{"op": "recover"}]
                scs.append({"id": sid, "target": "exporter", "comp": comp, "kind": kind, "max": mx, "steps": steps,
                            "pre": [2] if kind == "file" else []})
    return scs


def alignment_scenarios(tier):
    """For the build whose encoder staging buffer is 12 bytes: exporter outputs whose last record ends with a text of
    every length 0..13 (+1 for every other record), closed by rotation and by destruction - the closing break meets
    every fill level of the buffer, 'exactly full' included."""
    scs = []
    sid = 9900
    for comp in (["none", "gz"] if tier == "quick" else ["none", "gz", "xz"]):
        for n in range(0, 14, 1 if tier == "thorough" else 2):
            sid += 1
            scs.append({"id": sid, "target": "exporter", "comp": comp, "kind": "file", "max": 10000,
                        "steps": [{"op": "rec", "n": 1 + n % 3, "asn": n}, {"op": "rot", "export": True}, {"op": "rec", "n": 2, "asn": n + 1},
                                  {"op": "wb"}], "pre": []})
    return scs


def failed_rotation_scenarios(tier):
    """Named outputs whose LAST step is a rotation that cannot succeed (the new name lies in a directory that does not
    exist): the call reports it; the output published before it - and those before - stay what they were, whatever the
    writer does next (destruction; every crash point)."""
    scs = []
    sid = 9500
    chunks = [{"id": 1, "n": 5000, "pat": "text"}, {"id": 2, "n": 700, "pat": "rand", "seed": 3}, {"id": 3, "n": 40000, "pat": "rand", "seed": 8}]
    for comp in ["none", "gz", "xz"]:
        for sh in ([("w", 1)], [("w", 2), ("rot", 0), ("w", 3)], [("w", 1), ("w", 2), ("rot", 0)]):
            sid += 1
            steps = [{"op": "w", "c": a} if o == "w" else {"op": "rot"} for o, a in sh] + [{"op": "rotbad"}]
            scs.append({"id": sid, "target": "writer", "comp": comp, "kind": "file", "chunks": chunks, "steps": steps, "pre": []})
        for sh in ([("rec", 9), ("wb", 0)], [("rec", 30), ("rot", 0), ("rec", 5), ("wb", 0)]):
            sid += 1
            steps = [{"op": "rec", "n": a} if o == "rec" else {"op": "wb"} if o == "wb" else {"op": "rot", "export": True} for o, a in sh]
            steps.append({"op": "rotbad", "export": True})
            scs.append({"id": sid, "target": "exporter", "comp": comp, "kind": "file", "max": 4, "steps": steps, "pre": []})
    return scs


def refused_rename_scenarios(tier):
    """The environment refuses the n-th rename '<name>.part' -> '<name>' (EPERM).  That output cannot be published; whatever
    the writer does about it, no system call writes to a final name and at no crash point is a file under a final name
    anything but pre-existing or complete."""
    scs = []
    sid = 9700
    chunks = [{"id": 1, "n": 20000, "pat": "text"}, {"id": 2, "n": 700, "pat": "rand", "seed": 3}, {"id": 3, "n": 30000, "pat": "rand", "seed": 8}]
    for comp in (["none", "xz"] if tier == "quick" else ["none", "gz", "xz"]):
        for n, sh in ((1, [("w", 1), ("w", 3)]), (2, [("w", 2), ("rot", 0), ("w", 1), ("rot", 0), ("w", 3)]), (1, [("w", 3), ("rot", 0), ("w", 2)])):
            sid += 1
            steps = [{"op": "w", "c": a} if o == "w" else {"op": "rot"} for o, a in sh]
            scs.append({"id": sid, "target": "writer", "comp": comp, "kind": "file", "chunks": chunks, "steps": steps,
                        "pre": [1, 2], "rename_fail": n})
    return scs


def pending_scenarios(tier, kinds=("file",)):
    """Compressed outputs closed while the compressor still holds back much data: incompressible outputs whose sizes run
    through the residues of the compressors' internal chunking (LZMA2 chunks of up to 64 KiB are held back whole), closed
    by rotation and by destruction - finishing the stream has to drain all of it before the output is published."""
    sizes = [30000, 46500, 52000, 60000, 65000, 100000, 112000, 125000] + ([190000, 250000, 321000, 1000000] if tier == "thorough" else [])
    scs = []
    sid = 9000
    for comp in ["gz", "xz"]:
        for kind in kinds:
            for i, n in enumerate(sizes):
                sid += 1
                chunks = [{"id": 1, "n": n, "pat": "rand", "seed": 900 + i}, {"id": 2, "n": 11, "pat": "text"}]
                steps = ([{"op": "w", "c": 1}] if i % 2 == 0 else [{"op": "w", "c": 1}, {"op": "rot"}, {"op": "w", "c": 2}])
                scs.append({"id": sid, "target": "writer", "comp": comp, "kind": kind, "chunks": chunks, "steps": steps, "pre": []})
    return scs
