"""C18  cdns-merge preserves every block and record; cdns-itemcount counts are true."""
import json
import re
import os
import random
import shutil
import subprocess
from pathlib import Path

import histgen
import vlib
from vlib import Check


def segs(b):
    """run-length segments as produced by the C++ drivers"""
    out, lit, i, n = [], [], 0, len(b)
    while i < n:
        j = i + 1
        while j < n and b[j] == b[i]:
            j += 1
        if j - i >= 24:
            if lit:
                out.append({"l": lit})
                lit = []
            out.append({"b": b[i], "n": j - i})
        else:
            lit.extend(b[i:j])
        i = j
    if lit:
        out.append({"l": lit})
    return out


def make_inputs(chk, work, rng, n, nfam=None):
    """Real exporter files with differing parameters / tick rates / hints / versions."""
    hs = []
    for i in range(n):
        mism = (i % 5 == 4)
        h = histgen.gen_history(rng, nops=rng.choice([6, 12, 20]), comp="none", out="file", rot=False,
                                sizes=[1, 2, 3, 10000], nbps=rng.choice([1, 2, 3]), stats_p=0.4)
        if mism:
            k = rng.choice(["major", "minor", "private", "noprivate"])
            if k == "noprivate":
                h["preamble"].pop("private", None)
            else:
                h["preamble"][k] = histgen.nat(rng.choice([2, 3, 9]))
        h["ops"].append({"op": "wb"})
        if i % 3 == 0:
            # a block the application built itself whose preamble carries no parameter index (RFC 8618: default 0)
            pools = histgen.Pools(rng)
            raw = histgen.gen_raw_block(rng, pools, 0, h["preamble"]["bps"][0])
            raw["noidx"] = True
            h["ops"].insert(rng.randrange(len(h["ops"]) + 1), raw)
        hs.append(h)
    # inputs whose blocks go back and forth between their parameter sets (indices 0,1,0 / 1,0,1,0 / 0,2,1,0,2): a block of
    # set 0 - or one that states no index - after a block of another set
    for seq in ([0, 1, 0], [1, 0, 1, 0], [0, 2, 1, 0, 2], [2, 0, 0, 1]):
        h = histgen.gen_history(rng, nops=3, comp="none", out="file", rot=False, sizes=[10000], nbps=3, stats_p=0.3, allow_edit=False)
        pools = histgen.Pools(rng)
        tps = (min(histgen.tps_of(b) for b in h["preamble"]["bps"]), max(histgen.tps_of(b) for b in h["preamble"]["bps"]))
        ops = []
        for k, i in enumerate(seq):
            ops += [{"op": "setbp", "i": i}, {"op": "wb"}]           # (an empty write_block re-arms the buffered block)
            ops += [{"op": "qr", "r": histgen.gen_qr(rng, pools, tps, 1500000000)} for _ in range(1 + k % 2)]
            if k % 2:
                ops.append({"op": "aec", "r": histgen.gen_aec(rng, pools)})
            ops.append({"op": "wb"})
        h["ops"] = ops
        h.pop("unwind", None)
        hs.append(h)
    # a family of files that hold the SAME records under parameter sets differing in exactly one member each
    # (tick rate kept: the records are timed for it); merged pairwise below
    fam_rng = random.Random(rng.random())
    pools = histgen.Pools(fam_rng)
    base_bp = histgen.gen_bp(fam_rng, pools, tps=1000000, maxitems=10000, hints=(histgen.ALL_QRH, histgen.ALL_SIGH, 3, 3), rich=True,
                             coll=histgen.gen_coll(fam_rng, pools, mode=fam_rng.choice(["full", "some"])))
    for f, v in (("storage_flags", [1]), ("client_address_prefix_ipv4", [24]), ("client_address_prefix_ipv6", [64]),
                 ("server_address_prefix_ipv4", [32]), ("server_address_prefix_ipv6", [64]),
                 ("sampling_method", [65, 83]), ("anonymization_method", [67, 90])):
        if fam_rng.random() < 0.8:
            base_bp.setdefault(f, v)
    fam = histgen.gen_history(fam_rng, nops=5, comp="none", out="file", rot=False, sizes=[10000], nbps=1, stats_p=0.0)
    fam["ops"] = [o for o in fam["ops"] if o["op"] in ("qr", "aec", "mm")] + [{"op": "wb"}]
    variants = [("base", base_bp)] + histgen.bp_neighbours(fam_rng, pools, base_bp)
    if nfam is not None:
        variants = variants[:1] + fam_rng.sample(variants[1:], min(nfam, len(variants) - 1))
    for name, bp in variants:
        h = json.loads(json.dumps(fam))
        h["preamble"]["bps"] = [bp]
        hs.append(h)
    hist = work / "hist.ndjson"
    hist.write_text("\n".join(json.dumps(h) for h in hs) + "\n")
    keep = work / "files"
    keep.mkdir()
    exe = vlib.build_driver("exp_driver", "plain")
    r = subprocess.run([str(exe), "run", str(hist), "0", "1", str(work / "gen.ndjson")], capture_output=True, text=True,
                       env=dict(os.environ, VERIF_KEEP_DIR=str(keep), VERIF_TMP=str(work)))
    if r.returncode != 0:
        raise vlib.Infra("exp_driver failed: " + r.stderr[-500:])
    import re
    files = sorted(keep.glob("*.cdns"), key=lambda f: tuple(int(x) for x in re.findall(r"\d+", f.name)))
    # the family files are those of the last len(variants) histories (each history closes exactly one output)
    fam_first = len(hs) - len(variants)
    family = [f for f in files if int(re.findall(r"\d+", f.name)[0]) >= fam_first]
    files = [f for f in files if f not in family]
    # inputs with an "idle" block (a block without items that still carries statistics and tables; written by TLC from real
    # files, Rewrite!IdleBlock): it contributes nothing, and the blocks after it are what they were
    from checks.reader_common import tlc_variants
    idle_dir = work / "idle"
    idle_dir.mkdir()
    srcs = [f for f in files if f.stat().st_size < 8000][:10]
    for f, v, b in tlc_variants(work, srcs, "idle", 3, chk.seed):
        q = idle_dir / f"{f.stem}_idle{v}.cdns"
        q.write_bytes(b)
        files.append(q)
    if len(files) < 3 or len(family) != len(variants):
        raise vlib.Infra(f"input files missing: {len(files)} files, {len(family)} of {len(variants)} family files")
    chk.extra["parameter_neighbour_files"] = [v[0] for v in variants]
    return files, family


def run_tuple(tools, work, idx, tup, trace):
    """tup: list of (kind, path|None, cut|None, same_name|None)"""
    args, inputs = [], []
    names = {}
    for k, (kind, path, cut, same) in enumerate(tup):
        if kind == "missing":
            p = work / f"t{idx}_missing{k}"
            args.append(str(p))
            inputs.append({"kind": "unopenable"})
        elif kind in ("garbage", "empty"):
            p = work / f"t{idx}_junk{k}"
            p.write_bytes(b"" if kind == "empty" else bytes([0x82, 0x01, 0x02, 0xff, 0x00] * 7))
            args.append(str(p))
            inputs.append({"kind": "unopenable"})
        elif kind == "trunc":
            data = Path(path).read_bytes()
            p = work / f"t{idx}_trunc{k}"
            p.write_bytes(data[:cut])
            args.append(str(p))
            inputs.append({"kind": "trunc", "bytes": segs(data), "cut": cut})
        else:
            args.append(str(path))
            e = {"kind": "ok", "bytes": segs(Path(path).read_bytes())}
            # the same file listed twice is one NAME for cdns-merge's index map
            if str(path) in names:
                e["same"] = names[str(path)]
            else:
                names[str(path)] = k + 1
            inputs.append(e)
    out = work / f"t{idx}_merged"
    r = subprocess.run(["timeout", "60", str(tools / "cdns-merge"), "-o", str(out)] + args, capture_output=True)
    data = out.read_bytes() if out.exists() else b""
    trace.write(json.dumps({"e": "M", "inputs": inputs, "status": r.returncode, "out": segs(data)}) + "\n")
    return data


def run_counts(tools, work, idx, data, trace):
    p = work / f"c{idx}.cdns"
    p.write_bytes(data)
    for opts in ([], ["-b"], ["-p"], ["-b", "-p"]):
        r = subprocess.run(["timeout", "60", str(tools / "cdns-itemcount")] + opts + [str(p)], capture_output=True, text=True)
        lines = r.stdout.split("\n")
        if lines and lines[-1] == "":
            lines = lines[:-1]
        trace.write(json.dumps({"e": "I", "bytes": segs(data), "perblock": "-b" in opts, "pretty": "-p" in opts,
                                "status": r.returncode, "lines": lines}) + "\n")


HEAD_RE = re.compile(r"^(Query/Response|Address event count|Malformed message) (\d+):$")
KIND = {"Query/Response": "q", "Address event count": "a", "Malformed message": "m"}


def run_tools(tools, work, idx, data, trace, rng):
    """cdns-items / cdns-blocks on a real file (beyond the listed properties; spec/Tools.tla): which items / blocks are shown and
    under which number.  Mismatches are model drift, not violations."""
    p = work / f"t{idx}.cdns"
    p.write_bytes(data)
    combos = [("all", None)] + [(t, None) for t in "qam"]
    for _ in range(4):
        lo = rng.choice([0, 0, 1, 2, 3, 5, 8, 13, 30])
        hi = lo + rng.choice([0, 0, 1, 2, 4, 9, 40, 100])
        combos.append((rng.choice(["all", "q", "a", "m"]), (lo, hi)))
    for t, rg in combos:
        args = ([] if t == "all" else ["-" + t]) + (["-n", f"{rg[0]}-{rg[1]}" if rg[0] != rg[1] or rng.random() < 0.5 else str(rg[0])] if rg else [])
        r = subprocess.run(["timeout", "60", str(tools / "cdns-items")] + args + [str(p)], capture_output=True, text=True, errors="replace")
        heads = [[KIND[m.group(1)], int(m.group(2))] for m in (HEAD_RE.match(x) for x in r.stdout.split("\n")) if m]
        trace.write(json.dumps({"e": "T", "tool": "items", "bytes": segs(data), "heads": heads, "short": "Not enough items" in r.stderr,
                                "opt": {"type": t, "ranged": rg is not None, "lo": rg[0] if rg else 0, "hi": rg[1] if rg else 0}}) + "\n")
    for n in (None, 0, rng.randrange(0, 6)):
        r = subprocess.run(["timeout", "60", str(tools / "cdns-blocks")] + (["-n", str(n)] if n is not None else []) + [str(p)],
                           capture_output=True, text=True, errors="replace")
        heads = [int(m.group(1)) for m in (re.match(r"^Block (\d+): $", x) for x in r.stdout.split("\n")) if m]
        trace.write(json.dumps({"e": "T", "tool": "blocks", "bytes": segs(data), "heads": heads,
                                "opt": {"one": n is not None, "n": n or 0}}) + "\n")


def run(tier):
    chk = Check("C18", tier, "model_checking")
    chk.rule = ("model: all tuples of 1..3 inputs from {ok with 1-2 parameter sets, version mismatch, unopenable, truncated, "
                "empty-block-only, same file twice}: MergeImpl = MergeAbs; traces: tuples of real exporter files (differing "
                "parameter sets, tick rates, hints, versions; truncated at block boundaries and elsewhere; missing / garbage / "
                "empty files; a file listed twice; files holding the same records under parameter sets that differ in exactly one "
                "member, value or presence) through the real cdns-merge; inputs and output parsed by TLC; cdns-itemcount "
                "with all four option combinations; distinct = tool runs")
    chk.assumptions = ["TLC + CommunityModules", "Cbor.tla / CdnsFormat.tla as the independent reading",
                       "python orchestration: building argument lists, capturing stdout"]
    work0 = vlib.scratch("c18mc")
    for bug, expect in (("none", "ok"), ("pass2_all", "violated")):
        cfg = vlib.make_cfg(work0 / f"MCMerge_{bug}.cfg", spec="MCSpec", constants={"MBug": f'"{bug}"'}, invariants=["C18_Merge"])
        res, verdict = vlib.model_check("MCMerge", cfg, workers=4, timeout=600)
        chk.add_model("MCMerge(all tuples <= 3 of 6 input kinds)" if bug == "none"
                      else "MCMerge[MBug=pass2_all] (pinned code; self-test, must fail)", res, verdict, expect=expect)
    for tb, inv, expect in (("", ["HeadsAgree", "ShortAgree", "BlocksAgree"], "ok"), ("short_remark_exact", ["ShortAgree"], "violated"),
                            ("unranged_counter", ["ShortAgree"], "violated")):
        cfg = vlib.make_cfg(work0 / f"MCTools_{tb or 'abs'}.cfg", spec="Spec", constants={"MaxB": 2, "MaxI": 1 if tier == "quick" or tb else 2, "TBug": f'"{tb}"'}, invariants=inv)
        res, verdict = vlib.model_check("MCTools", cfg, workers=4, timeout=600)
        chk.add_model("MCTools (cdns-items / cdns-blocks selection; beyond the listed properties)" if tb == ""
                      else f"MCTools[TBug={tb}] ({'pinned remark rule; ' if tb == 'short_remark_exact' else ''}self-test, must fail)", res, verdict, expect=expect)
    shutil.rmtree(work0, ignore_errors=True)

    rng = random.Random(chk.seed * 29 + 18)
    work = vlib.scratch("c18")
    files, family = make_inputs(chk, work, rng, 14 if tier == "quick" else 60, nfam=None)
    tools = vlib.build_tools("plain")
    ntuples = 28 if tier == "quick" else 600
    nsh = min(vlib.NCPU, ntuples)
    traces = [work / f"mrg.{i}.ndjson" for i in range(nsh)]
    handles = [open(t, "w") for t in traces]
    for idx in range(ntuples):
        k = rng.choice([1, 2, 2, 3, 3, 4])
        tup = []
        for _ in range(k):
            x = rng.random()
            f = rng.choice(files)
            if x < 0.55:
                tup.append(("ok", f, None, None))
            elif x < 0.70:
                size = f.stat().st_size
                tup.append(("trunc", f, rng.choice([size - 1, size - 2, size // 2, rng.randrange(1, size), 3]), None))
            elif x < 0.80:
                tup.append((rng.choice(["missing", "garbage", "empty"]), None, None, None))
            else:
                tup.append(("ok", f, None, None))
                tup.append(("ok", f, None, None))      # the same file twice
        tr = handles[idx % nsh]
        data = run_tuple(tools, work, idx, tup, tr)
        if idx % 3 == 0 and data:
            run_counts(tools, work, idx, data, tr)
    # files whose parameter sets are one member apart: (base, neighbour) in both orders, neighbour pairs, one longer tuple
    idx = ntuples
    fam_tuples = [[family[0], f] for f in family[1:]] + [[f, family[0]] for f in family[1::4]]
    fam_tuples += [[family[i], family[i + 1]] for i in range(1, len(family) - 1, 3)]
    fam_tuples.append(list(family[:6]))
    idle = [f for f in files if "_idle" in f.name]
    fam_tuples += [[f] for f in idle] + [[files[0], f] for f in idle[::2]] + [[f, files[1]] for f in idle[1::2]]
    chk.extra["inputs_with_an_idle_block"] = len(idle)
    for tup in fam_tuples:
        run_tuple(tools, work, idx, [("ok", f, None, None) for f in tup], handles[idx % nsh])
        idx += 1
    # an input that cannot be read as C-DNS listed FIRST, followed by inputs whose version is not the library's own: the first
    # READABLE input decides which version the merged file has and which inputs fit
    import re as _re
    hno = lambda f: int(_re.findall(r"\d+", f.name)[0])
    odd = [f for f in files if "_idle" not in f.name and hno(f) % 5 == 4 and hno(f) < (14 if tier == "quick" else 60)]
    plain = [f for f in files if "_idle" not in f.name and hno(f) % 5 != 4][:2]
    chk.extra["inputs_with_another_version"] = len(odd)
    for bi, bad in enumerate(("missing", "garbage", "empty")):
        for fm in odd[: (3 if tier == "quick" else 12)]:
            for tup in ([fm], [fm, plain[0]], [plain[bi % 2], fm]):
                run_tuple(tools, work, idx, [(bad, None, None, None)] + [("ok", f, None, None) for f in tup], handles[idx % nsh])
                idx += 1
    for i, f in enumerate(files[:6 if tier == "quick" else 30]):
        run_counts(tools, work, 10000 + i, f.read_bytes(), handles[i % nsh])
    # beyond the listed properties: which items / blocks cdns-items and cdns-blocks show (Tools.tla; mismatches are drift notes)
    for i, f in enumerate(files[:8 if tier == "quick" else 40]):
        run_tools(tools, work, 20000 + i, f.read_bytes(), handles[(i + 5) % nsh], rng)
    for h in handles:
        h.write(json.dumps({"e": "END"}) + "\n")
        h.close()
    merged = vlib.validate_traces("TraceMerge", traces, constants={"MBug": '"none"'}, timeout=2400, label="c18tv", xmx="4g")
    chk.samples.append({"tuple_example": "see rule; inputs are real exporter files", "n_input_files": len(files)})
    chk.add_traces(merged, relevant={"C18"})
    chk.distinct = merged["execs"]
    shutil.rmtree(work, ignore_errors=True)
    return chk.finish()


def replay(path):
    print(Path(path).read_text()[:6000])
    return 0
