"""C17  Timestamp offsets are exact, invertible and never negative within a block."""
import json
import shutil
from pathlib import Path

import histgen
import vlib
from vlib import Check
from checks.exporter_common import run_histories, rng_for, generated_histories

TS_INVS = ["C17_Exact", "C17_Inverse", "C17_Refuse", "C17_Order", "C17_NoUB"]


def models(chk, tier):
    work = vlib.scratch("c17mc")
    wb = 7 if tier == "quick" else 8
    cfg = vlib.make_cfg(work / "MCTimestamp.cfg", spec="MCSpec",
                        constants={"WBits": wb, "MaxTps": 4, "MaxSecs": 12 if tier == "quick" else 20, "TsBug": '"none"'},
                        invariants=TS_INVS)
    res, verdict = vlib.model_check("MCTimestamp", cfg, workers=vlib.NCPU, timeout=1800, xmx="12g")
    chk.add_model(f"MCTimestamp(WBits={wb}: every word incl. the minimum as offset)", res, verdict)
    cfg = vlib.make_cfg(work / "MCTimestamp_bug.cfg", spec="MCSpec",
                        constants={"WBits": 6, "MaxTps": 2, "MaxSecs": 4, "TsBug": '"negmin"'}, invariants=TS_INVS)
    res, verdict = vlib.model_check("MCTimestamp", cfg, workers=4, timeout=600)
    chk.add_model("MCTimestamp[TsBug=negmin] (self-test, must fail)", res, verdict, expect="violated")
    cfg = vlib.make_cfg(work / "MCTimestamp_bug2.cfg", spec="MCSpec",
                        constants={"WBits": 6, "MaxTps": 2, "MaxSecs": 4, "TsBug": '"addoverflow"'}, invariants=TS_INVS)
    res, verdict = vlib.model_check("MCTimestamp", cfg, workers=4, timeout=600)
    chk.add_model("MCTimestamp[TsBug=addoverflow] (pinned `ticks += offset`; self-test, must fail)", res, verdict, expect="violated")
    # the same arithmetic at the production word size, decided symbolically (Apalache / Z3): 64-bit words, EVERY tick
    # rate 1..10^9, every (secs, ticks), reference and offset of the representable range
    consts = {"MaxTps": 1000000000, "TsBug": '"none"'}
    res, verdict = vlib.apalache_check("ApaTimestamp", consts, "Inv", label="c17apa")
    chk.add_model("ApaTimestamp(64-bit words, every rate 1..10^9; symbolic, Apalache/Z3)", res, verdict)
    res, verdict = vlib.apalache_check("ApaTimestamp", consts, "Vac", label="c17apa")
    chk.add_model("ApaTimestamp[Vac] (vacuity guard: Init is satisfiable; must fail)", res, verdict, expect="violated")
    for bug in ("negmin", "addoverflow"):
        res, verdict = vlib.apalache_check("ApaTimestamp", dict(consts, TsBug=f'"{bug}"'), "Inv", label="c17apa")
        chk.add_model(f"ApaTimestamp[TsBug={bug}] (self-test, must fail)", res, verdict, expect="violated")
    # earliest-time bookkeeping in the block model: all arrival orders of timed/untimed, storable/unstorable records
    cfg = vlib.make_cfg(work / "MCExporter.cfg", spec="MCSpec",
                        constants={"MaxOps": 4 if tier == "quick" else 5, "Sizes": "{3}", "Emit": "FALSE", "XBug": '"none"'},
                        invariants=["C17_EarliestOK", "C12_Conserve"])
    res, verdict = vlib.model_check("MCExporter", cfg, workers=vlib.NCPU, timeout=1800, xmx="12g")
    chk.add_model("MCExporter(earliest-time <= every stored instant)", res, verdict)
    cfg = vlib.make_cfg(work / "MCExporter_bug.cfg", spec="MCSpec",
                        constants={"MaxOps": 4, "Sizes": "{3}", "Emit": "FALSE", "XBug": '"earliest_first_only"'},
                        invariants=["C17_EarliestOK"])
    res, verdict = vlib.model_check("MCExporter", cfg, workers=4, timeout=600)
    chk.add_model("MCExporter[XBug=earliest_first_only] (self-test, must fail)", res, verdict, expect="violated")
    shutil.rmtree(work, ignore_errors=True)


def run(tier):
    chk = Check("C17", tier, "model_checking")
    chk.rule = ("model: all words of a scaled word size for offsets, all (secs, ticks, ref, rate) of a grid (TLC); the same "
                "formulas for 64-bit words and every rate 1..10^9 symbolically (Apalache/Z3); traces: exhaustive "
                "small grid, boundary values (0, 1, rate-1, 2038/2106/2262 limits, INT64_MIN/MAX offsets) at rates 1..10^9 and "
                "random values on the real Timestamp under UBSan, verified with unbounded arithmetic by TLC; blocks: exporter "
                "histories with out-of-order and untimed records, blocks copied / moved while they hold timed records, TLC checks earliest-time <= every stored instant and exact "
                "recovery on the real bytes")
    chk.assumptions = ["TLC + CommunityModules", "Apalache 0.58 + Z3 (symbolic part)", "UBSan as the instrument for undefined arithmetic", "driver logging"]
    models(chk, tier)
    exe = vlib.build_driver("ts_driver", "asan")
    work = vlib.scratch("c17tr")
    nsh = vlib.NCPU
    files = [work / f"ts.{i}.ndjson" for i in range(nsh)]
    env = {"UBSAN_OPTIONS": "halt_on_error=1:abort_on_error=1", "ASAN_OPTIONS": "abort_on_error=1:detect_leaks=0"}
    for cmd, rc, out in vlib.run_parallel([[exe, "sweep", tier, chk.seed, i, nsh, files[i]] for i in range(nsh)],
                                          timeout=1200, env=env):
        if rc != 0:
            raise vlib.Infra(f"ts_driver failed rc={rc}: {out}")
    merged = vlib.validate_traces("TraceTimestamp", files, constants={}, timeout=1800, label="c17tv")
    with open(files[0]) as f:
        chk.samples.append({"trace_head": [json.loads(next(f)) for _ in range(3)]})
    chk.add_traces(merged, relevant={"C17"})
    shutil.rmtree(work, ignore_errors=True)
    # blocks: every arrival order of timed (also exactly at the epoch), untimed, storable and unstorable records of the model
    gen = generated_histories(chk, 3, "{3}", limit=None if tier == "thorough" else 2500)
    gen = [h for h in gen if sum(1 for o in h["ops"] if o["op"] in ("qr", "mm") and "ts" in o.get("r", {})) >= 2]
    m3 = run_histories(chk, gen, {"C17"}, label="c17g", sample=False)
    # blocks: out-of-order / untimed arrivals
    rng = rng_for(chk, 17)
    n = 40 if tier == "quick" else 600
    hs = [histgen.gen_history(rng, nops=rng.choice([10, 25]), comp="none", sizes=[2, 4, 10000], rot=False,
                              qr_mode=rng.choice(["sparse", "one", None])) for _ in range(n)]
    # blocks the application keeps itself and copies / moves to another object while they hold timed records: the copy
    # receives earlier, equal and later instants afterwards - its earliest time stays the minimum over all of them
    for k in range(30 if tier == "quick" else 400):
        pools = histgen.Pools(rng)
        tps = rng.choice([1, 1000, 1000000])
        bp = histgen.gen_bp(rng, pools, tps=tps, maxitems=10000, hints=(histgen.ALL_QRH, histgen.ALL_SIGH, 3, 3))
        def timed(kind, secs):
            r = histgen.gen_qr(rng, pools, tps, 1500000000, "sparse") if kind == "qr" else histgen.gen_mm(rng, pools, tps, 1500000000)
            r["ts"] = {"s": histgen.nat(secs), "t": histgen.nat(rng.randrange(tps))}
            return {"op": "x" + kind, "r": r}
        base = 1500000000 + rng.randrange(1000)
        ops = [{"op": "xnew", "i": 0}]
        ops += [timed(rng.choice(["qr", "mm"]), base + rng.randrange(-5, 6)) for _ in range(rng.choice([1, 2, 3]))]
        ops.append({"op": "xmove", "how": ["cctor", "cassign", "mctor", "massign", "vector"][k % 5]})
        ops += [timed(rng.choice(["qr", "mm"]), base + d) for d in rng.sample([-9, -1, 0, 1, 7, 100], 3)]
        ops += [{"op": "xwb"}, {"op": "xclear"}, timed("qr", base + 50), {"op": "xmove", "how": ["cassign", "cctor"][k % 2]},
                timed("qr", base + 60), {"op": "xwb"}]
        hs.append({"comp": "none", "out": "file", "preamble": {"major": histgen.nat(1), "minor": [], "private": histgen.nat(1), "bps": [bp]},
                   "ops": ops})
    # the exporter's block re-used under a COARSER tick rate after it held sub-second instants at a finer one; the first
    # record of the new block carries no time, a later one does (what the block remembered must not outlive clear())
    for k in range(12 if tier == "quick" else 120):
        pools = histgen.Pools(rng)
        fine, coarse = rng.choice([(1000000, 1000), (1000000000, 1000), (1000000, 1), (1000, 7)])
        b0 = histgen.gen_bp(rng, pools, tps=fine, maxitems=10000, hints=(histgen.ALL_QRH, histgen.ALL_SIGH, 3, 3))
        b1 = histgen.gen_bp(rng, pools, tps=coarse, maxitems=10000, hints=(histgen.ALL_QRH, histgen.ALL_SIGH, 3, 3))
        def rec(kind, secs, ticks):
            r = {"client_port": histgen.nat(k + 1)} if kind == "qr" else {"client_port": histgen.nat(9)}
            if secs is not None:
                r["ts"] = {"s": histgen.nat(secs), "t": histgen.nat(ticks)}
            return {"op": kind, "r": r}
        base = 1000 + rng.randrange(100)
        ops = [rec("qr", base, fine - 1 - rng.randrange(min(fine, 1000))), rec(rng.choice(["qr", "mm"]), base + 1, 0), {"op": "wb"},
               {"op": "setbp", "i": 1}, {"op": "wb"},
               rec("qr", None, 0), rec(rng.choice(["qr", "mm"]), base + 1, min(5, coarse - 1)), rec("qr", base + 2, 0), {"op": "wb"},
               {"op": "setbp", "i": 0}, {"op": "wb"}, rec("mm", None, 0), rec("qr", base + 3, 1), {"op": "wb"}]
        hs.append({"comp": "none", "out": "file", "preamble": {"major": histgen.nat(1), "minor": [], "private": histgen.nat(1), "bps": [b0, b1]},
                   "ops": ops})
    m2 = run_histories(chk, hs, {"C17"}, label="c17x", sample=False)
    chk.distinct = merged["execs"] + m2["execs"] + m3["execs"]
    return chk.finish()


def replay(path):
    print(Path(path).read_text()[:6000])
    return 0
