"""C04  Storage hints are honoured: nothing the configuration excludes reaches the file."""
from pathlib import Path

import histgen
from vlib import Check
from checks.exporter_common import run_histories, rng_for, exporter_x_models, generated_x_histories

ALLQ, ALLS = histgen.ALL_QRH, histgen.ALL_SIGH


def mask_family(rng, tier):
    fam = [(ALLQ, ALLS, 3, 3), (0, 0, 0, 0)]
    for b in range(18):
        fam.append((ALLQ & ~(1 << b), ALLS, 3, 3))          # each bit cleared
        fam.append((1 << b, ALLS, 3, 3))                    # each bit alone
    for b in range(17):
        fam.append((ALLQ, ALLS & ~(1 << b), 3, 3))
        fam.append((1 << 4, 1 << b, 3, 3))
    for r in range(4):
        fam.append((ALLQ, ALLS, r, 3))
        fam.append((ALLQ, ALLS, 3, r))
    for s in range(16):                                     # every subset of four section bits
        fam.append(((ALLQ & ~(0xF << 11)) | (s << 11), ALLS, 3, 3))
    nrand = 40 if tier == "quick" else 5000
    for _ in range(nrand):
        fam.append((rng.getrandbits(18), rng.getrandbits(17), rng.getrandbits(2), rng.getrandbits(2)))
    return fam


def history_for(rng, mask):
    pools = histgen.Pools(rng)
    tps = rng.choice([1, 1000, 1000000])
    bp = histgen.gen_bp(rng, pools, tps=tps, maxitems=rng.choice([2, 3, 10000]), hints=mask)
    ops = []
    for _ in range(3):
        r = histgen.gen_qr(rng, pools, tps, 1500000000, mode="full")
        for f in histgen.QR_FIELDS:      # every optional member set, every list non-empty
            if f.endswith(("_questions", "_answers", "_authority", "_additional")) and not r[f]:
                r[f] = histgen.gen_rrlist(rng, pools, question=f.endswith("_questions"), allow_empty=False)
                for x in r[f]:
                    if not f.endswith("_questions"):
                        x.setdefault("ttl", histgen.nat(300))
                        x.setdefault("rdata", pools.rdata())
        ops.append({"op": "qr", "r": r})
    ops.append({"op": "aec", "r": histgen.gen_aec(rng, pools)})
    ops.append({"op": "mm", "r": histgen.gen_mm(rng, pools, tps, 1500000000, mode="full")})
    ops.append({"op": "qr", "r": histgen.gen_qr(rng, pools, tps, 1500000000, mode="dense")})
    ops.append({"op": "wb"})
    return {"comp": "none", "out": "file",
            "preamble": {"major": histgen.nat(1), "minor": [], "private": histgen.nat(1), "bps": [bp]}, "ops": ops}


def run(tier):
    chk = Check("C04", tier, "model_checking")
    chk.rule = ("model: MCExporterX (exporter + application-kept block, every written block states the set it was filled "
                "under); mask family: all-ones, all-zeros, every single bit cleared and every single bit alone for the 18 "
                "query-response and 17 signature hints, all RR / other-data masks, all subsets of four section bits, random "
                "masks; each with records that set every optional member; TLC checks on the real bytes: no member a cleared "
                "bit excludes, every table entry reachable from a stored item, hints in the preamble = hints applied; the same "
                "masks in force through an in-place edit of the active set, and on an application-kept block armed with set "
                "#1, moved / copied to another object (also by a growing std::vector) or taken through a file and the reader, written, cleared and re-used")
    chk.assumptions = ["TLC + CommunityModules", "Records.tla hint table transcribed from RFC 8618 section 7.3.1.1.1",
                       "driver logging (harness/exp_driver.cpp)"]
    exporter_x_models(chk, tier)
    rng = rng_for(chk, 4)
    fam = mask_family(rng, tier)
    hs = [history_for(rng, m) for m in fam]
    # the same masks put in force by replacing the active parameter set in place (get_active_block_parameters_ref)
    # before the output has a header, then re-arming the buffered block with write_block()
    for m in fam[:: (3 if tier == "quick" else 1)]:
        h = history_for(rng, m)
        narrow = h["preamble"]["bps"][0]
        wide = dict(narrow, qrh=histgen.nat(ALLQ), sigh=histgen.nat(ALLS), rrh=histgen.nat(3), odh=histgen.nat(3))
        h["preamble"]["bps"][0] = wide
        h["ops"] = [{"op": "editbp", "bp": narrow}, {"op": "wb"}] + h["ops"]
        hs.append(h)
    # a block the application keeps itself (CdnsBlock API + write_block(block)), armed with a parameter set other than
    # #0, written, cleared and re-used: every block it yields must state the set whose hints were applied to it
    for k, m in enumerate(fam[:: (5 if tier == "quick" else 1)]):
        h = history_for(rng, m)
        narrow = h["preamble"]["bps"][0]
        wide = dict(narrow, qrh=histgen.nat(ALLQ), sigh=histgen.nat(ALLS), rrh=histgen.nat(3), odh=histgen.nat(3))
        h["preamble"]["bps"] = [narrow, wide] if k % 2 == 0 else [wide, narrow]
        recs = [dict(o, op="x" + o["op"]) for o in h["ops"] if o["op"] in ("qr", "aec", "mm")]
        # ... and changes its place in between (move / copy construction and assignment, a growing std::vector of blocks):
        # the block that takes over is filled under the same parameters
        mv = {"op": "xmove", "how": ["mctor", "vector", "massign", "cctor", "cassign"][k % 5]} if k % 6 not in (1, 3) else {"op": "xreload"}
        h["ops"] = ([{"op": "xnew" if k % 4 < 2 else "xset", "i": 1}] + ([mv] if k % 3 == 0 else []) + recs[:2] + [mv] + recs[2:3]
                    + [{"op": "xwb"}, {"op": "xclear"}] + ([mv] if k % 3 == 1 else []) + recs[3:]
                    + [{"op": "xwb"}, {"op": "xclear"}] + recs[:2] + [{"op": "xwb"}])
        hs.append(h)
    # (G) TLC-generated histories of exporter + kept block in which the kept block is written after a clear or a re-arm
    gx = generated_x_histories(chk, 4 if tier == "quick" else 5, limit=600 if tier == "quick" else 8000,
                               want=lambda h: any(o["op"] in ("xclear", "xset") for o in h["ops"]))
    hs += gx
    m = run_histories(chk, hs, {"C04"}, label="c04")
    # the hints in force belong to the block they were given to: 8 threads, each with its own exporter under its own mask
    # (the section and RR masks of the family, records that set every member), filling blocks at the same time
    from checks.c20 import run_threads
    th = []
    for k, msk in enumerate([f for f in fam if f[0] != ALLQ or f[2] != 3][:: (2 if tier == "quick" else 1)][: (64 if tier == "quick" else 2000)]):
        h = history_for(rng, msk)
        recs = [o for o in h["ops"] if o["op"] == "qr"]
        h["ops"] = (recs * 6) + [{"op": "wb"}]
        th.append(h)
    th += [history_for(rng, (ALLQ, ALLS, 3, 3)) for _ in range(len(th) // 2)]
    rng.shuffle(th)
    for h in th[len(th) // 2:]:
        h["ops"] = [o for o in h["ops"] if o["op"] == "qr"] * 6 + [{"op": "wb"}]
    m2 = run_threads(chk, "plain", 8, 2, th, "c04t", relevant={"C04"})
    chk.distinct = len(set(fam))
    chk.extra["threaded_executions"] = m2["execs"]
    chk.extra["masks"] = len(fam)
    return chk.finish()


def replay(path):
    print(Path(path).read_text()[:6000])
    return 0
