"""Shared parts of the reader-side checks (C08, C05 file level, C03): real exporter files, TLC-generated variants,
reader dumps by rd_driver."""
import json
import os
import shutil
import subprocess
from pathlib import Path

import histgen
import vlib
from checks.c18 import segs


def make_files(work, rng, n, nops=(6, 12, 20), flavor="plain", big=0):
    hs = []
    for i in range(n):
        h = histgen.gen_history(rng, nops=rng.choice(list(nops)), comp="none", out="file", rot=False, rich=(i % 3 == 0),
                                sizes=[1, 2, 3, 10000], nbps=rng.choice([1, 2]), stats_p=0.4)
        h["ops"].append({"op": "wb"})
        hs.append(h)
    for i in range(big):      # files of several decoder windows built from few nodes with large payloads
        h = histgen.gen_history(rng, nops=10, comp="none", out="file", rot=False, nbps=1, sizes=[2, 3])
        for o in h["ops"]:
            if o["op"] == "mm":
                o["r"]["mm_payload"] = [rng.getrandbits(8) for _ in range(rng.choice([30000, 66000]))]
        h["ops"] += [{"op": "mm", "r": {"mm_payload": [7] * 70000, "client_port": histgen.nat(5)}}, {"op": "wb"}]
        hs.append(h)
    hist = work / "hist.ndjson"
    hist.write_text("\n".join(json.dumps(h) for h in hs) + "\n")
    keep = work / "files"
    keep.mkdir(exist_ok=True)
    exe = vlib.build_driver("exp_driver", "plain")
    r = subprocess.run([str(exe), "run", str(hist), "0", "1", str(work / "gen.ndjson")], capture_output=True, text=True,
                       env=dict(os.environ, VERIF_KEEP_DIR=str(keep), VERIF_TMP=str(work)))
    if r.returncode != 0:
        raise vlib.Infra("exp_driver failed: " + r.stderr[-500:])
    files = sorted(keep.glob("*.cdns"))
    if not files:
        raise vlib.Infra("no files generated")
    # block boundaries of each kept file = running sum of the byte counts the exporter returned (used to place cuts)
    bounds, cur, hno = {}, [], -1
    for line in (work / "gen.ndjson").read_text().splitlines():
        ev = json.loads(line)
        if ev.get("e") == "R":
            hno += 1
            cur = [0]
        elif ev.get("e") == "C" and ev.get("ret", 0) and ev["op"]["op"] in ("qr", "aec", "mm", "wb"):
            cur.append(cur[-1] + ev["ret"])
        elif ev.get("e") == "OUT":
            bounds[f"h{hno}_0.cdns"] = list(cur)
    make_files.bounds = bounds
    return files


def nat_bytes(n):
    b = []
    while n:
        b.insert(0, n & 255)
        n >>= 8
    return b


def time_edges():
    """(secs, ticks) with secs * rate + ticks = 2^63 - 1 - d for the rates the generated files use and small d."""
    edges = []
    for tps in (1, 7, 10, 1000, 1000000, 1000000000):
        for d in (0, 1, 1000, 1 << 20, 1 << 33):
            inst = (1 << 63) - 1 - d
            edges.append((inst // tps, inst % tps))
    return edges


def tlc_variants(work, files, mode, nvar, seed, maxsize=6000, edges=None):
    """TLC (GenVariants.tla) parses the real files and writes nvar rewritten / mutated serialisations of each."""
    files = [f for f in files if f.stat().st_size <= maxsize]
    # several TLC processes in parallel, each on a slice of the files
    import concurrent.futures as cf
    nsl = min(vlib.NCPU, len(files))
    slices = [files[i::nsl] for i in range(nsl)]

    def one(k):
        inp = work / f"var_in.{mode}.{k}.ndjson"
        outp = work / f"var_out.{mode}.{k}.ndjson"
        inp.write_text("\n".join(json.dumps({"bytes": list(f.read_bytes())}) for f in slices[k]) + "\n")
        cfg = vlib.make_cfg(work / f"GenVariants.{mode}.{k}.cfg",
                            constants={"NVar": nvar, "Mode": f'"{mode}"', "Seed": seed + k})
        ef = work / f"var_edges.{mode}.{k}.ndjson"
        ef.write_text("".join(json.dumps({"s": nat_bytes(a), "t": nat_bytes(b)}) + "\n" for a, b in (edges or [])))
        res = vlib.run_tlc("GenVariants", cfg, workers=1, timeout=1500, env={"IN": str(inp), "OUT": str(outp), "EDGES": str(ef)}, xmx="3g")
        if not outp.exists() or "No error" not in res["out"]:
            raise vlib.Infra("GenVariants failed: " + res["out"][-1500:])
        out = []
        for line in outp.read_text().splitlines():
            if line.strip():
                v = json.loads(line)
                out.append((slices[k][v["src"] - 1], v["v"], bytes(v["bytes"])))
        return out

    allv = []
    with cf.ThreadPoolExecutor(nsl) as ex:
        for part in ex.map(one, range(nsl)):
            allv.extend(part)
    return allv


def reader_dumps(work, paths, flavor="asan", mode="dump", label="rd", chunk=1, defs=(), fwd=False):
    """rd_driver on a list of files (sharded; `chunk` consecutive files stay together, in order, in one process);
    returns {filename: event}"""
    exe = vlib.build_driver("rd_driver", flavor, defs)
    groups = [paths[i:i + chunk] for i in range(0, len(paths), chunk)]
    nsh = min(vlib.NCPU, max(1, len(groups)))
    cmds, outs = [], []
    for i in range(nsh):
        lst = work / f"{label}.list.{i}"
        lst.write_text("\n".join(str(p) for g in groups[i::nsh] for p in g) + "\n")
        o = work / f"{label}.out.{i}.ndjson"
        outs.append(o)
        cmds.append([exe, mode, lst, o])
    env = {"ASAN_OPTIONS": "abort_on_error=1:detect_leaks=0:allocator_may_return_null=1:max_allocation_size_mb=1024",
           "UBSAN_OPTIONS": "halt_on_error=1:abort_on_error=1"}
    if fwd:
        env["VERIF_STREAM"] = "fwd"
    for cmd, rc, out in vlib.run_parallel(cmds, timeout=1800, env=env):
        if rc != 0:
            raise vlib.Infra(f"rd_driver failed rc={rc}: {out}")
    res = {}
    crashes = []
    for o in outs:
        for line in o.read_text().splitlines():
            ev = json.loads(line)
            if ev.get("e") == "RD":
                res[ev["file"]] = ev
            elif ev.get("e") == "CRASH":
                crashes.append(ev)
    return res, crashes
