"""C11  Block tables de-duplicate, keep indices stable and stay referentially closed."""
import random
from pathlib import Path

import histgen
from vlib import Check
from checks.tables_common import table_models, generated, run_tables, growth_histories, random_table_histories
from checks.exporter_common import run_histories, rng_for


def run(tier):
    chk = Check("C11", tier, "model_checking")
    chk.rule = ("model: all histories <= MaxOps of add/clear/copy/destroy; (G) generated histories without copies replayed on "
                "each of the nine real tables with values built in fresh objects (pairs differing in exactly one optional "
                "member); longer random histories with copies onto used blocks; (T) growth sequences of thousands of adds from small and large domains; exporter streams across "
                "many block flushes with TLC checking every written table for duplicates and index closure, also with 8 threads "
                "filling their own blocks at the same time")
    chk.assumptions = ["TLC + CommunityModules", "driver value mapping id -> concrete table value (harness/tbl_driver.cpp)"]
    table_models(chk, tier)
    hs = generated(chk, 4, "{0, 1, 2, 5}", need_copy=False, limit=1500 if tier == "quick" else None)
    rng = random.Random(chk.seed * 11 + 3)
    hs += growth_histories(rng, 18 if tier == "quick" else 180, 1500 if tier == "quick" else 4000)
    # longer histories with copies: additions to a block that was assigned another block's content after it had been
    # used itself (indices must be those of the content it holds now)
    hs += random_table_histories(rng, 60 if tier == "quick" else 1200, 24)
    m1 = run_tables(chk, hs, {"C11"}, label="c11")
    # a block handed from thread to thread (calls never overlap): what a table returns depends on the values, not on who adds them
    hh = random_table_histories(rng, 40 if tier == "quick" else 600, 24) + growth_histories(rng, 4 if tier == "quick" else 40, 300)
    m1h = run_tables(chk, hh, {"C11"}, label="c11h", handoff=True)
    # isolation between consecutive blocks + closure/duplicates in written tables (independent parse)
    rng2 = rng_for(chk, 11)
    n = 40 if tier == "quick" else 600
    ex = [histgen.gen_history(rng2, nops=rng2.choice([40, 80]), comp="none", sizes=[1, 2, 3, 6], rot=False,
                              qr_mode=rng2.choice([None, "dense"])) for _ in range(n)]
    m2 = run_histories(chk, ex, {"C11", "C02"}, label="c11x", sample=False)
    # the tables of a block belong to that block alone: blocks filled by different threads at the same time (each thread
    # its own exporter) stay closed and de-duplicated - every output parsed by TLC as above
    from checks.c20 import run_threads
    rng3 = rng_for(chk, 111)
    th = [histgen.gen_history(rng3, nops=rng3.choice([30, 60]), comp="none", sizes=[3, 10000], rot=False, qr_mode="dense")
          for _ in range(32 if tier == "quick" else 300)]
    m3 = run_threads(chk, "plain", 8, 2, th, "c11t", relevant={"C11"})
    # a block that could not be written (an I/O fault at every system call) stays buffered; the application buffers more
    # records whose values it already holds, then recovers as documented: the block written then holds nothing twice
    from checks.writer_common import run_scenarios
    fs = [{"id": 1100 + i, "target": "exporter", "comp": comp, "kind": "fd", "max": 10000, "pre": [], "rebuffer": 6,
           "steps": [{"op": "rec", "n": n}, {"op": "wb"}, {"op": "rec", "n": 3}, {"op": "wb"}, {"op": "recover"}]}
          for i, (comp, n) in enumerate([("none", 150), ("none", 40)] + ([("gz", 150), ("none", 400)] if tier == "thorough" else []))]
    m4 = run_scenarios(chk, "c16", fs, {"C11"}, "c11f")
    chk.distinct = m1["execs"] + m1h["execs"] + m2["execs"] + m4["execs"] + m3["execs"]
    return chk.finish()


def replay(path):
    print(Path(path).read_text()[:6000])
    return 0
