"""C11  Block tables de-duplicate, keep indices stable and stay referentially closed."""
import random
from pathlib import Path

import histgen
from vlib import Check
from checks.tables_common import table_models, generated, run_tables, growth_histories, random_table_histories
from checks.exporter_common import run_histories, rng_for


def run(tier):
    chk = Check("C11", tier, "model_checking")
    chk.rule = ("model: all histories <= MaxOps of add/clear/copy/destroy; (G) generated histories without copies replayed on "
                "each of the nine real tables with values built in fresh objects (pairs differing in exactly one optional "
                "member); longer random histories with copies onto used blocks; (T) growth sequences of thousands of adds from small and large domains; exporter streams across "
                "many block flushes with TLC checking every written table for duplicates and index closure")
    chk.assumptions = ["TLC + CommunityModules", "driver value mapping id -> concrete table value (harness/tbl_driver.cpp)"]
    table_models(chk, tier)
    hs = generated(chk, 4, "{0, 1, 2, 5}", need_copy=False, limit=1500 if tier == "quick" else None)
    rng = random.Random(chk.seed * 11 + 3)
    hs += growth_histories(rng, 18 if tier == "quick" else 180, 1500 if tier == "quick" else 4000)
    # longer histories with copies: additions to a block that was assigned another block's content after it had been
    # used itself (indices must be those of the content it holds now)
    hs += random_table_histories(rng, 60 if tier == "quick" else 1200, 24)
    m1 = run_tables(chk, hs, {"C11"}, label="c11")
    # isolation between consecutive blocks + closure/duplicates in written tables (independent parse)
    rng2 = rng_for(chk, 11)
    n = 40 if tier == "quick" else 600
    ex = [histgen.gen_history(rng2, nops=rng2.choice([40, 80]), comp="none", sizes=[1, 2, 3, 6], rot=False,
                              qr_mode=rng2.choice([None, "dense"])) for _ in range(n)]
    m2 = run_histories(chk, ex, {"C11", "C02"}, label="c11x", sample=False)
    chk.distinct = m1["execs"] + m2["execs"]
    return chk.finish()


def replay(path):
    print(Path(path).read_text()[:6000])
    return 0
