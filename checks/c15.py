"""C15  A named output becomes visible under its final name only when complete."""
import random
from pathlib import Path

from vlib import Check
from checks.writer_common import writer_model, run_scenarios, writer_scenarios, exporter_scenarios, reuse_scenarios, pending_scenarios, failed_rotation_scenarios, refused_rename_scenarios, alignment_scenarios


def run(tier):
    chk = Check("C15", tier, "model_checking")
    chk.rule = ("model: Writer.tla with an always-enabled Crash: every interleaving of staging, write system calls, close and "
                "rename for named plain/compressed outputs incl. rotation onto an existing name; traces: each scenario (writers "
                "directly and through the exporter; plain/gzip/xz; several rotations; rotation onto an existing name, onto the "
                "name in use (a -> a) and back onto an earlier one (a -> b -> a); '.part' files left by a run that died; "
                "compressed outputs closed while the compressor holds back tens of KiB; a final rotation that cannot succeed; a rename the environment refuses; final names that exist as symbolic links; destruction with and without buffered data) is first run to completion, then re-run in a child that is "
                "killed immediately before its k-th write/writev/rename for EVERY k; TLC checks every post-crash directory; "
                "distinct = crash points")
    chk.assumptions = ["TLC + CommunityModules", "write/writev/rename interposed in the driver executable (libc/libstdc++ "
                       "calls resolve to it); 'complete' = byte-identical to a file the uncrashed run made visible under that name, "
                       "which C14/C02 validate"]
    for comp in (True, False):
        writer_model(chk, f"MCWriter(Scn1, named, compressed={comp}, crash anywhere)", "Scn1", True, comp)
        writer_model(chk, f"MCWriter(Scn3, named, compressed={comp}, crash anywhere)", "Scn3", True, comp)
    writer_model(chk, "MCWriter(Scn2, named, compressed)", "Scn2", True, True)
    for comp in (True, False):
        writer_model(chk, f"MCWriter(Scn4: rotation onto the name in use / an earlier name, compressed={comp})", "Scn4", True, comp)
    writer_model(chk, "MCWriter[WBug=open_before_close] (self-test, must fail)", "Scn4", True, False,
                 bug="open_before_close", expect="violated")
    for comp in (True, False):
        writer_model(chk, f"MCWriter(Scn1 with stale '.part' files of names 1..3, compressed={comp})", "Scn1", True, comp,
                     prepart="{1, 2, 3}")
    writer_model(chk, "MCWriter[WBug=append_part] (self-test, must fail)", "Scn1", True, False, bug="append_part",
                 expect="violated", prepart="{1, 2, 3}")
    writer_model(chk, "MCWriter[WBug=rename_before_flush] (self-test, must fail)", "Scn1", True, True,
                 bug="rename_before_flush", expect="violated")
    writer_model(chk, "MCWriter[WBug=write_final_name] (self-test, must fail)", "Scn1", True, False,
                 bug="write_final_name", expect="violated")
    rng = random.Random(chk.seed * 19 + 15)
    scs = exporter_scenarios(rng, tier, kinds=("file",))
    wscs = [s for s in writer_scenarios(rng, tier) if s["kind"] == "file"]
    for s in wscs:
        s["pre"] = [2]
    scs += wscs[: (12 if tier == "quick" else 200)]
    scs += reuse_scenarios(rng, tier)
    scs += pending_scenarios(tier)
    scs += failed_rotation_scenarios(tier)
    scs += refused_rename_scenarios(tier)
    # final names that already exist as symbolic links to an earlier output
    scs += [dict(s, id=s["id"] + 30000, pre=[], presym=[1, 2]) for s in scs if s["id"] % 4 == 1 and "rename_fail" not in s and "prepart" not in s][:24]
    # the same sessions run inside a clean-up routine while an unrelated exception unwinds the stack (an exporter created, used and
    # destroyed there is an exporter like any other): what appears under a final name is complete, at every crash point too
    scs += [dict(s, id=s["id"] + 40000, unwind=True) for s in scs if s.get("target") == "exporter" and s["id"] % 3 == 2 and "rename_fail" not in s][:18]
    # '.part' files left by an earlier run that died while producing the same names: the new outputs start afresh
    stale = [dict(s, id=s["id"] + 20000, prepart=[1, 2, 3]) for s in scs if s["id"] % 3 == 0]
    scs += stale
    m = run_scenarios(chk, "c15", scs, {"C15"}, "c15")
    # the same rules on the build whose encoder buffer is 12 bytes, outputs whose closing break meets every fill level
    m2 = run_scenarios(chk, "c15", alignment_scenarios(tier), {"C15"}, "c15a", defs=("CDNS_VERIF_ENC_BUFFER=12",))
    chk.distinct = m["execs"] + m2["execs"]
    chk.exhaustive = True
    chk.extra["exhaustive_over"] = "every write/writev/rename of every listed scenario (crash point k = 1..K)"
    return chk.finish()


def replay(path):
    print(Path(path).read_text()[:6000])
    return 0
