"""C02  Every finished output is one well-formed, schema-valid C-DNS document."""
from pathlib import Path

import histgen
from vlib import Check
from checks.exporter_common import run_histories, rng_for, exporter_models


def empties(rng, n):
    """Histories stressing present-but-empty optional structures and empty lists."""
    hs = []
    for i in range(n):
        h = histgen.gen_history(rng, nops=rng.choice([4, 10, 25]), comp=["none", "gz", "xz"][i % 3] if i % 4 == 0 else "none",
                                out=["file", "fd"][i % 2], rich=(i % 3 == 0), stats_p=0.6, sizes=[1, 2, 4, 10000])
        pools = histgen.Pools(rng)
        for bp in h["preamble"]["bps"]:
            if rng.random() < 0.4:
                bp["coll"] = {}                              # present, no member set
        for o in h["ops"]:
            if "stats" in o and rng.random() < 0.5:
                o["stats"] = {}
            if o["op"] == "qr":
                r = o["r"]
                for f in ("query_questions", "query_answers", "response_additional"):
                    if rng.random() < 0.15:
                        r[f] = []
                if rng.random() < 0.1:
                    o["r"] = {"query_answers": [], "response_questions": []}       # nothing storable at all
            if o["op"] == "mm" and rng.random() < 0.2:
                o["r"] = {}
            if o["op"] == "addbp" and rng.random() < 0.5:
                o["bp"]["coll"] = {}
        hs.append(h)
    return hs


def raw_blocks(rng, n):
    """Histories in which the application also writes blocks it built itself with the raw add_* API."""
    hs = []
    for i in range(n):
        h = histgen.gen_history(rng, nops=rng.choice([3, 8, 15]), comp="none", out=["file", "fd"][i % 2], sizes=[2, 5, 10000],
                                rot=(i % 2 == 0), hints_mode="all", allow_edit=False)
        pools = histgen.Pools(rng)
        bps = h["preamble"]["bps"]
        ops = []
        n0 = len(bps)      # only sets of the initial preamble: they are in every header
        for o in h["ops"]:
            ops.append(o)
            if rng.random() < 0.35:
                bpi = rng.randrange(n0)
                raw = histgen.gen_raw_block(rng, pools, bpi, bps[bpi])
                if bpi == 0 and rng.random() < 0.3:
                    raw["noidx"] = True
                ops.append(raw)
        ops.append(histgen.gen_raw_block(rng, pools, 0, bps[0]))
        h["ops"] = ops
        hs.append(histgen.respect_header(h))
    return hs


def run(tier):
    chk = Check("C02", tier, "model_checking")
    chk.rule = ("one execution = one API history; families: random histories, histories with present-but-empty "
                "BlockStatistics / CollectionParameters / record sections / records, all rotation and destruction paths; "
                "each closed output is parsed strictly (Cbor.tla) and validated against the RFC 8618 schema incl. index "
                "closure (CdnsFormat!FileErrs) by TLC; outputs without a block must be empty; uncompressed descriptor outputs with "
                "every write system call cut short (or failing): closed without an exception => a complete document")
    chk.assumptions = ["TLC + CommunityModules", "Cbor.tla / CdnsFormat.tla as the reading of RFC 8949 / RFC 8618",
                       "driver logging (harness/exp_driver.cpp)", "python3 zlib/lzma"]
    exporter_models(chk, tier, selftests=("stale_header",))
    rng = rng_for(chk, 2)
    n = 100 if tier == "quick" else 1500
    hs = empties(rng, n)
    hs += [histgen.gen_history(rng, nops=30) for _ in range(n // 3)]
    hs += raw_blocks(rng, n // 2)
    hs += [histgen.add_external_block_ops(rng, histgen.gen_history(rng, nops=20, comp="none", sizes=[1, 3, 10000]), p=0.6)
           for _ in range(n // 3)]
    # rotation onto the name in use (named outputs), with and without export, one and several blocks before and after
    for i in range(12 if tier == "quick" else 120):
        h = histgen.gen_history(rng, nops=rng.choice([4, 9]), comp=["none", "gz", "xz"][i % 3], out="file", sizes=[2, 10000], rot=False)
        recs = [o for o in h["ops"] if o["op"] in ("qr", "aec", "mm")] or [{"op": "qr", "r": {"client_port": histgen.nat(7)}}]
        h["ops"] = (recs[:2] + [{"op": "wb"}] * (i % 2) + recs[2:3] + [{"op": "rot", "export": i % 4 < 2, "same": True}] + recs[:1]
                    + [{"op": "wb"}] + ([{"op": "rot", "export": True, "same": True}] if i % 3 == 0 else []) + recs[1:2])
        hs.append(h)
    # the documented way of putting a NEWLY ADDED parameter set in force while the current output already holds blocks:
    # add_block_parameters, set_active_block_parameters(new index), (a few records, fewer than a block), rotate_output(export):
    # the block still being buffered belongs to the old output and states a set of ITS preamble
    for i in range(16 if tier == "quick" else 160):
        h = histgen.gen_history(rng, nops=rng.choice([5, 9]), comp=["none", "gz", "xz"][i % 3], out=["file", "fd"][i % 2], sizes=[10000], nbps=1, rot=False,
                                allow_edit=False)
        recs = [o for o in h["ops"] if o["op"] in ("qr", "aec", "mm")] or [{"op": "qr", "r": {"client_port": histgen.nat(7)}}]
        pools = histgen.Pools(rng)
        nb = histgen.gen_bp(rng, pools, tps=histgen.tps_of(h["preamble"]["bps"][0]), maxitems=10000)
        h["ops"] = (recs[:2] + [{"op": "wb"}] + ([] if i % 4 == 0 else recs[2:3] + [{"op": "wb"}]) + [{"op": "addbp", "bp": nb}, {"op": "setbp", "i": 1}]
                    + (recs[:2] if i % 2 else []) + [{"op": "rot", "export": True}] + recs[:2] + [{"op": "wb"}])
        hs.append(h)
    m = run_histories(chk, hs, {"C02"}, label="c02")
    # partial (short) writes of the operating system on descriptor outputs: no failure of the output, the rest can be
    # offered again - an output closed normally after one, with no exception reported, must still be a complete document
    from checks.writer_common import run_scenarios, exporter_scenarios
    scs = exporter_scenarios(rng, tier, comps=("none",), kinds=("fd",), recover=True)
    m2 = run_scenarios(chk, "c16", scs, {"C02"}, "c02f")
    chk.distinct = m["execs"] + m2["execs"]
    return chk.finish()


def replay(path):
    print(Path(path).read_text()[:6000])
    return 0
