"""C19  Blocks have value semantics: a copy is complete and independent of its source."""
import random
from pathlib import Path

from vlib import Check
from checks.tables_common import (random_table_histories, table_models, generated, run_tables, value_models, generated_values,
                                  random_value_histories, run_values, param_family)


def dup_copied_then_added(h):
    """a table that holds some value twice is the source of a copy, and a value is added to the copy afterwards"""
    tabs = {1: [], 2: [], 3: []}
    armed = set()
    for o in h["ops"]:
        if o["op"] in ("add", "addv"):
            if o["t"] in armed:
                return True
            if o["op"] == "addv" or o["v"] not in tabs[o["t"]]:
                tabs[o["t"]].append(o["v"])
        elif o["op"] in ("clear", "destroy"):
            tabs[o["t"]] = []
            armed.discard(o["t"])
        elif o["op"] == "copy":
            tabs[o["dst"]] = list(tabs[o["src"]])
            if len(set(tabs[o["src"]])) < len(tabs[o["src"]]):
                armed.add(o["dst"])
            else:
                armed.discard(o["dst"])
    return False


def run(tier):
    chk = Check("C19", tier, "model_checking")
    chk.rule = ("model: all histories <= MaxOps of add/clear/copy/destroy over three block slots; (G) every generated history "
                "that contains a copy is replayed on real CdnsBlock objects under AddressSanitizer for each of the nine tables "
                "x {copy, move} construction/assignment x {CdnsBlock, CdnsBlockRead} and for blocks returned by the reader; "
                "MCBlockValue: items, the six manners of obtaining a CdnsBlockRead, clear/destroy of the source, generic reads on "
                "the copy (index cursors and the address-event iterator), the block parameters a block is filled under (fullness, hints, "
                "tick rate) as part of its value, replayed on real CdnsBlockRead and CdnsBlock objects with the serialisation read back; "
                "distinct = executions")
    chk.assumptions = ["TLC + CommunityModules", "AddressSanitizer/UBSan as the instrument that sees a use of freed storage",
                       "probe hook (CDNS_VERIF) reading the addresses of the table keys"]
    table_models(chk, tier)
    hs = generated(chk, 4, "{0, 3}", need_copy=True, limit=700 if tier == "quick" else None)
    # tables that hold a value more than once (add_value, what the reader does with the entries of a file): every
    # generated history in which a table with a repeated value is copied and the copy is then added to, and a sample
    # of the other histories with add_value
    av = generated(chk, 4, "{0, 3}", need_copy=True, addv=True)
    av = [h for h in av if any(o["op"] == "addv" for o in h["ops"])]
    def copy_addv_add(h):
        """a copy whose FIRST use is an add_value (append without lookup) and which is then asked for a value it holds"""
        fresh = set()
        for o in h["ops"]:
            if o["op"] == "copy":
                fresh.add(o["dst"])
            elif o["op"] == "addv" and o["t"] in fresh:
                fresh.discard(o["t"])
                fresh.add(("v", o["t"]))
            elif o["op"] == "add":
                if ("v", o["t"]) in fresh:
                    return True
                fresh.discard(o["t"])
            elif o["op"] in ("clear", "destroy"):
                fresh.discard(o["t"]); fresh.discard(("v", o["t"]))
        return False
    hs += [h for h in av if copy_addv_add(h)][: (800 if tier == "quick" else None)]
    dup = [h for h in av if dup_copied_then_added(h)]
    rest = [h for h in av if not dup_copied_then_added(h)]
    chk.extra["histories_copying_a_repeated_value"] = len(dup)
    hs += dup[: (1500 if tier == "quick" else None)]
    hs += random.Random(chk.seed * 5 + 1).sample(rest, min(len(rest), 300 if tier == "quick" else 4000))
    if tier == "thorough":
        hs += generated(chk, 5, "{0, 3}", need_copy=True, limit=6000)
        av = [h for h in generated(chk, 5, "{0, 3}", need_copy=True, addv=True) if sum(o["op"] == "addv" for o in h["ops"]) >= 2]
        hs += random.Random(chk.seed * 5 + 2).sample(av, min(len(av), 6000))
    hs += random_table_histories(random.Random(chk.seed * 5 + 3), 40 if tier == "quick" else 1500, 24)
    m = run_tables(chk, hs, {"C19"}, label="c19")
    # whole blocks: items, six manners of copying, generic reads on the copies, serialisation (BlockValue.tla)
    value_models(chk, tier)
    vs = generated_values(chk, 4, limit=1500 if tier == "quick" else None)
    rng = random.Random(chk.seed)
    vs += random_value_histories(rng, 300 if tier == "quick" else 4000, 30)
    vs += param_family()
    if tier == "thorough":
        vs += generated_values(chk, 5, limit=20000)
    m2 = run_values(chk, vs, {"C19"}, label="c19v")
    chk.distinct = m["execs"] + m2["execs"]
    return chk.finish()


def replay(path):
    print(Path(path).read_text()[:6000])
    return 0
