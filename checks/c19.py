"""C19  Blocks have value semantics: a copy is complete and independent of its source."""
import random
from pathlib import Path

from vlib import Check
from checks.tables_common import table_models, generated, run_tables


def run(tier):
    chk = Check("C19", tier, "model_checking")
    chk.rule = ("model: all histories <= MaxOps of add/clear/copy/destroy over three block slots; (G) every generated history "
                "that contains a copy is replayed on real CdnsBlock objects under AddressSanitizer for each of the nine tables "
                "x {copy, move} construction/assignment x {CdnsBlock, CdnsBlockRead} and for blocks returned by the reader; "
                "distinct = executions")
    chk.assumptions = ["TLC + CommunityModules", "AddressSanitizer/UBSan as the instrument that sees a use of freed storage",
                       "probe hook (CDNS_VERIF) reading the addresses of the table keys"]
    table_models(chk, tier)
    hs = generated(chk, 4, "{0, 3}", need_copy=True, limit=700 if tier == "quick" else None)
    if tier == "thorough":
        hs += generated(chk, 5, "{0, 3}", need_copy=True, limit=6000)
    m = run_tables(chk, hs, {"C19"}, label="c19")
    chk.distinct = m["execs"]
    return chk.finish()


def replay(path):
    print(Path(path).read_text()[:6000])
    return 0
