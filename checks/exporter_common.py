"""Shared parts of the exporter checks (C01 C02 C04 C09 C10 C12 C13): histories are executed on
the real CdnsExporter by harness/exp_driver.cpp; TLC validates every call and every closed
output with TraceExporter.tla (Exporter state machine + independent RFC 8949/8618 reading)."""
import json
from pathlib import Path
import random
import shutil

import histgen
import vlib


def run_histories(chk, histories, relevant, label="exp", flavor="plain", sample=True, defs=()):
    work = vlib.scratch(label)
    hist = work / "histories.ndjson"
    with open(hist, "w") as f:
        for h in histories:
            f.write(json.dumps(h) + "\n")
    exe = vlib.build_driver("exp_driver", flavor, defs)
    nsh = min(vlib.NCPU, max(1, len(histories)))
    files = [work / f"exp.{i}.ndjson" for i in range(nsh)]
    cmds = [[exe, "run", hist, i, nsh, files[i]] for i in range(nsh)]
    for cmd, rc, out in vlib.run_parallel(cmds, timeout=1500, env={"VERIF_TMP": str(work)}):
        if rc != 0:
            raise vlib.Infra(f"exp_driver failed rc={rc}: {out}")
    merged = vlib.validate_traces("TraceExporter", files, constants={"XBug": "\"none\""}, timeout=2400, label=label + "tv", xmx="4g")
    if sample and histories:
        h = histories[0]
        chk.samples.append({"history": {"comp": h["comp"], "out": h["out"], "n_bps": len(h["preamble"]["bps"]),
                                        "ops": [o["op"] for o in h["ops"]][:40],
                                        "first_record": next((o.get("r") for o in h["ops"] if "r" in o), None)}})
    chk.add_traces(merged, relevant=relevant)
    shutil.rmtree(work, ignore_errors=True)
    return merged


def hung_to_crash(files, what):
    """A driver that did not end within its time is an outcome of the implementation, not a failure of the machinery: the
    traces it wrote so far are completed with an explicit CRASH event, which the trace specification records."""
    for f in files:
        f = Path(f)
        lines = f.read_text().splitlines() if f.exists() else []
        good = []
        for ln in lines:
            try:
                json.loads(ln)
                good.append(ln)
            except Exception:
                break
        if good and json.loads(good[-1]).get("e") == "END":
            continue
        good.append(json.dumps({"e": "CRASH", "what": what}))
        good.append(json.dumps({"e": "END"}))
        f.write_text("\n".join(good) + "\n")


def run_interleaved(chk, histories, relevant, label="exp2", flavor="plain"):
    """Two exporter instances operated alternately on ONE thread (histories 2k and 2k+1, calls interleaved): each must
    behave exactly as if it were alone - every per-instance trace is validated like any other execution."""
    work = vlib.scratch(label)
    if len(histories) % 2:
        histories = histories[:-1]
    hist = work / "histories.ndjson"
    with open(hist, "w") as f:
        for h in histories:
            f.write(json.dumps(h) + "\n")
    exe = vlib.build_driver("exp_driver", flavor)
    nsh = min(vlib.NCPU // 2, max(1, len(histories) // 2))
    files = []
    cmds = []
    for i in range(nsh):
        fa, fb = work / f"exp2.{i}.a.ndjson", work / f"exp2.{i}.b.ndjson"
        files += [fa, fb]
        cmds.append([exe, "run2", hist, i, nsh, fa, fb])
    for cmd, rc, out in vlib.run_parallel(cmds, timeout=600, env={"VERIF_TMP": str(work)}):
        if rc == 124:
            hung_to_crash([cmd[-2], cmd[-1]], "the calls of two instances operated alternately do not terminate (driver killed after 600 s)")
        elif rc != 0:
            raise vlib.Infra(f"exp_driver run2 failed rc={rc}: {out}")
    merged = vlib.validate_traces("TraceExporter", files, constants={"XBug": "\"none\""}, timeout=2400, label=label + "tv", xmx="4g")
    chk.add_traces(merged, relevant=relevant)
    chk.extra["interleaved_instance_pairs"] = chk.extra.get("interleaved_instance_pairs", 0) + len(histories) // 2
    shutil.rmtree(work, ignore_errors=True)
    return merged


def run_many_blocks(chk, relevant, ns=(65535, 65536, 65537, 70001), label="many"):
    """Outputs that receive more than 2^16 blocks (block size 1): counters of the exporter that are narrower than the
    number of blocks an output may hold would wrap here."""
    work = vlib.scratch(label)
    exe = vlib.build_driver("exp_driver", "plain")
    files = [work / f"many.{i}.ndjson" for i in range(len(ns))]
    cmds = [[exe, "many", n, files[i]] for i, n in enumerate(ns)]
    for cmd, rc, out in vlib.run_parallel(cmds, timeout=1200, env={"VERIF_TMP": str(work)}):
        if rc != 0:
            raise vlib.Infra(f"exp_driver many failed rc={rc}: {out}")
    merged = vlib.validate_traces("TraceExporter", files, constants={"XBug": "\"none\""}, timeout=600, label=label + "tv")
    chk.add_traces(merged, relevant=relevant)
    chk.extra["outputs_with_more_than_65535_blocks"] = len([n for n in ns if n > 65535])
    shutil.rmtree(work, ignore_errors=True)
    return merged


def rng_for(chk, salt):
    return random.Random(chk.seed * 7919 + salt)


# ---------------------------------------------------------------- model checking + generation (C12 / C13)
import re

MC_INVS = ["C12_Conserve", "C12_AecConserve", "C12_Sizes", "C13_Contained"]


def exporter_models(chk, tier, selftests=("flush_late", "rot_drops_block", "stale_header")):
    work = vlib.scratch("expmc")
    maxops = 4 if tier == "quick" else 5
    sizes = "{0, 1, 2}" if tier == "quick" else "{0, 1, 2, 3}"
    cfg = vlib.make_cfg(work / "MCExporter.cfg", spec="MCSpec",
                        constants={"MaxOps": maxops, "Sizes": sizes, "Emit": "FALSE", "XBug": '"none"'},
                        invariants=MC_INVS, properties=["C13_Frozen"])
    res, verdict = vlib.model_check("MCExporter", cfg, workers=vlib.NCPU, timeout=3000, xmx="24g")
    chk.add_model(f"MCExporter(MaxOps={maxops}, Sizes={sizes})", res, verdict)
    for bug in selftests:
        cfg = vlib.make_cfg(work / f"MCExporter_{bug}.cfg", spec="MCSpec",
                            constants={"MaxOps": 5, "Sizes": "{1}", "Emit": "FALSE", "XBug": f'"{bug}"'},
                            invariants=MC_INVS, properties=["C13_Frozen"])
        res, verdict = vlib.model_check("MCExporter", cfg, workers=8, timeout=900, xmx="8g")
        chk.add_model(f"MCExporter[XBug={bug}] (self-test, must fail)", res, verdict, expect="violated")
    shutil.rmtree(work, ignore_errors=True)


X_INVS = ["C13_Contained", "C04_Stated", "C12_NoEmptyBlocks", "C12_ConserveX"]


def exporter_x_models(chk, tier):
    """MCExporterX: the exporter together with a block the application keeps itself (write_block(block))."""
    work = vlib.scratch("expxmc")
    maxops = 4 if tier == "quick" else 5
    cfg = vlib.make_cfg(work / "MCExporterX.cfg", spec="MCSpec",
                        constants={"MaxOps": maxops, "Sizes": "{2}", "Emit": "FALSE", "XBug": '"none"'},
                        invariants=X_INVS, properties=["C13_Frozen"])
    res, verdict = vlib.model_check("MCExporterX", cfg, workers=vlib.NCPU, timeout=3000, xmx="24g")
    chk.add_model(f"MCExporterX(MaxOps={maxops}: exporter + application-kept block)", res, verdict)
    cfg = vlib.make_cfg(work / "MCExporterX_bug.cfg", spec="MCSpec",
                        constants={"MaxOps": 4, "Sizes": "{2}", "Emit": "FALSE", "XBug": '"xclear_drops_index"'},
                        invariants=X_INVS, properties=["C13_Frozen"])
    res, verdict = vlib.model_check("MCExporterX", cfg, workers=8, timeout=900, xmx="8g")
    chk.add_model("MCExporterX[XBug=xclear_drops_index] (self-test, must fail)", res, verdict, expect="violated")
    shutil.rmtree(work, ignore_errors=True)


def generated_x_histories(chk, maxops, limit=None, want=None):
    """Complete histories of MCExporterX that write the kept block at least once, emitted by TLC."""
    work = vlib.scratch("expxgen")
    cfg = vlib.make_cfg(work / "GenExporterX.cfg", spec="MCSpec",
                        constants={"MaxOps": maxops, "Sizes": "{2}", "Emit": "TRUE", "XBug": '"none"'},
                        invariants=["EmitDone"])
    res = vlib.run_tlc("MCExporterX", cfg, workers=8, timeout=1500, xmx="8g")
    if not vlib.tlc_ok(res):
        raise vlib.Infra("history generation failed: " + res["out"][-2000:])
    hs = []
    for line in res["out"].splitlines():
        if line.startswith('<<"HIST"'):
            m = re.match(r'<<"HIST", (".*")>>\s*$', line)
            hs.append(json.loads(json.loads(m.group(1))))
    shutil.rmtree(work, ignore_errors=True)
    chk.states += res["distinct"]
    chk.transitions += res["generated"]
    if want:
        hs = [h for h in hs if want(h)]
    total = len(hs)
    if limit and len(hs) > limit:
        hs = rng_for(chk, 98).sample(hs, limit)
    chk.extra["generated_x_histories_total"] = total
    chk.extra["generated_x_histories_replayed"] = len(hs)
    return hs


def generated_histories(chk, maxops, sizes, limit=None):
    """All complete histories of MCExporter of length maxops, emitted by TLC (behaviours of the spec)."""
    work = vlib.scratch("expgen")
    cfg = vlib.make_cfg(work / "GenExporter.cfg", spec="MCSpec",
                        constants={"MaxOps": maxops, "Sizes": sizes, "Emit": "TRUE", "XBug": '"none"'},
                        invariants=["EmitDone"])
    res = vlib.run_tlc("MCExporter", cfg, workers=8, timeout=1500, xmx="8g")
    if not vlib.tlc_ok(res):
        raise vlib.Infra("history generation failed: " + res["out"][-2000:])
    hs = []
    for line in res["out"].splitlines():
        if line.startswith('<<"HIST"'):
            m = re.match(r'<<"HIST", (".*")>>\s*$', line)
            hs.append(json.loads(json.loads(m.group(1))))
    shutil.rmtree(work, ignore_errors=True)
    chk.states += res["distinct"]
    chk.transitions += res["generated"]
    total = len(hs)
    if limit and len(hs) > limit:
        rng = rng_for(chk, 99)
        hs = rng.sample(hs, limit)
    chk.extra["generated_histories_total"] = total
    chk.extra["generated_histories_replayed"] = len(hs)
    return hs
