"""C12  Buffering conserves records and flushes blocks exactly at the configured size."""
from pathlib import Path

import histgen
import vlib
from vlib import Check
from checks.exporter_common import run_many_blocks, run_histories, rng_for, exporter_models, generated_histories


def run(tier):
    chk = Check("C12", tier, "model_checking")
    chk.rule = ("model: all histories <= MaxOps over {storable/unstorable qr, two aec keys, mm, write_block, rotate, "
                "set/add parameters} x block sizes; the flush rule on its counters for every limit as an inductive invariant "
                "(Apalache/Z3); (G) every complete history of the model replayed on the real exporter; "
                "(T) random histories with block sizes 0..5, hints that make records unstorable, parameter switches; "
                "distinct = executions")
    chk.assumptions = ["TLC + CommunityModules", "Apalache 0.58 + Z3 (inductive invariant)", "driver logging (harness/exp_driver.cpp)"]
    exporter_models(chk, tier, selftests=("flush_late", "rot_drops_block"))
    # the flush rule on its counters for EVERY max_block_items (also >= 2^32), as an inductive invariant (Apalache / Z3)
    c = {"FBug": '"none"'}
    res, verdict = vlib.apalache_check("ApaBlockSize", c, "IndInv", length=0, init="Init", label="c12apa")
    chk.add_model("ApaBlockSize: Init => IndInv (symbolic, every limit)", res, verdict)
    res, verdict = vlib.apalache_check("ApaBlockSize", c, "IndInv", length=1, init="IndInit", label="c12apa")
    chk.add_model("ApaBlockSize: IndInv /\\ Next => IndInv' (symbolic, every limit)", res, verdict)
    res, verdict = vlib.apalache_check("ApaBlockSize", c, "Vac", length=0, init="IndInit", label="c12apa")
    chk.add_model("ApaBlockSize[Vac] (vacuity guard, must fail)", res, verdict, expect="violated")
    res, verdict = vlib.apalache_check("ApaBlockSize", {"FBug": '"late"'}, "IndInv", length=1, init="IndInit", label="c12apa")
    chk.add_model("ApaBlockSize[FBug=late] (self-test, must fail)", res, verdict, expect="violated")
    if tier == "quick":
        gen = generated_histories(chk, 3, "{1, 2}", limit=3000)
    else:
        gen = generated_histories(chk, 3, "{0, 1, 2, 3}") + generated_histories(chk, 4, "{1, 2}", limit=40000)
    m1 = run_histories(chk, gen, {"C12"}, label="c12g")
    rng = rng_for(chk, 12)
    n = 60 if tier == "quick" else 800
    hs = [histgen.gen_history(rng, nops=rng.choice([20, 40, 60]), comp="none", sizes=[0, 1, 2, 3, 5, 1 << 32, (1 << 32) + 2, 1 << 40, (1 << 64) - 1],
                              hints_mode=rng.choice([None, "random", "none", "onlyone"]), rot=(i % 3 == 0),
                              qr_mode=rng.choice([None, "one", "sparse"]))
          for i in range(n)]
    hs += [histgen.add_external_block_ops(rng, histgen.gen_history(rng, nops=30, comp="none", sizes=[1, 2, 3], rot=False), p=0.5)
           for _ in range(n // 3)]
    hs += histgen.aec_flush_family(rng)
    m2 = run_histories(chk, hs, {"C12"}, label="c12r", sample=False)
    m3 = run_many_blocks(chk, {"C12"}, ns=(65536, 65537))
    # the counters also match when the output fails: a call that ends with an exception wrote no block (fault sweep on
    # descriptor outputs, blocks larger than the staging buffer included)
    from checks.writer_common import run_scenarios, exporter_scenarios
    m4 = run_scenarios(chk, "c16", exporter_scenarios(rng, tier, comps=("none",), kinds=("fd",), recover=True), {"C12"}, "c12f")
    chk.distinct = m1["execs"] + m2["execs"] + m3["execs"] + m4["execs"]
    return chk.finish()


def replay(path):
    print(Path(path).read_text()[:6000])
    return 0
