"""C07  The CBOR decoder accepts every well-formed encoding and skips exactly one item."""
from pathlib import Path

import vlib
from vlib import Check
from checks.decoder_common import decoder_models, decoder_traces


def run(tier):
    chk = Check("C07", tier, "model_checking")
    chk.rule = ("items = CborGen!AllItems (all major types, non-preferred widths, chunked strings, nested/indefinite "
                "containers, tags, floats) x every alignment to the decoder window x {matching read, skip, peek+read}, each "
                "followed by a sentinel; one execution per (item, alignment, op list); distinct = executions")
    chk.assumptions = ["TLC + CommunityModules", "driver logging (harness/dec_driver.cpp)",
                       "Cbor.tla as the reading of RFC 8949"]
    decoder_models(chk, tier, selftests=["break_simple", "tag"])
    m1 = decoder_traces(chk, tier, {"C07"}, "items")
    m2 = decoder_traces(chk, tier, {"C07"}, "items", scaled=True)
    chk.distinct = m1["execs"] + m2["execs"]
    chk.extra["real_window_executions"] = m1["execs"]
    chk.extra["scaled_window_executions"] = m2["execs"]
    return chk.finish()


def replay(path):
    print(Path(path).read_text()[:4000])
    return 0
