"""C13  Rotation yields self-contained files and loses, repeats or reorders nothing."""
from pathlib import Path

import histgen
from vlib import Check
from checks.exporter_common import (run_many_blocks, run_histories, rng_for, exporter_models, generated_histories, exporter_x_models,
                                    generated_x_histories)


def rotation_heavy(rng, n, comps):
    hs = []
    for i in range(n):
        h = histgen.gen_history(rng, nops=rng.choice([15, 30, 50]), comp=comps[i % len(comps)],
                                out=["file", "fd"][i % 2], sizes=[1, 2, 3, 10000], qr_mode=rng.choice([None, "sparse"]),
                                allow_edit=False)      # (an in-place edit dropped afterwards would leave later records timed
                                                       #  for a tick rate the preamble never had)
        # more rotations, including consecutive ones with nothing written
        ops = []
        for o in h["ops"]:
            ops.append(o)
            if rng.random() < 0.15:
                ops.append({"op": "rot", "export": rng.random() < 0.5})
                if rng.random() < 0.3:
                    ops.append({"op": "rot", "export": rng.random() < 0.5})
        # keep the documented precondition: drop switches to sets that are not in the header yet
        h["ops"] = [o for o in ops if o["op"] != "editbp"
                    and not (o["op"] == "setbp" and o["i"] < 200 and o["i"] >= len(h["preamble"]["bps"]))]
        # rotation whose argument is a file name although the exporter writes to a descriptor (and vice versa): the
        # writer silently ignores it while the exporter believes the output was switched -> known finding C13-kind-mismatch
        # a rotation to descriptor 0 (a process that closed its standard input gets 0 from its next open()); at most one per
        # history, and only while no earlier output of the history can still hold that descriptor
        if h["out"] == "fd" and i % 4 == 3:
            rots = [o for o in h["ops"] if o["op"] == "rot"]
            if rots:
                rng.choice(rots)["fd0"] = True
        if h["out"] == "fd" and h["comp"] == "none" and i % 4 == 1:
            rots = [o for o in h["ops"] if o["op"] == "rot"]
            if rots:
                rng.choice(rots)["mismatch"] = True
        hs.append(h)
    return hs


def alignment_family(rng, tier):
    """Short histories whose LAST stored member before a rotation has every head width (1, 2, 3, 5, 9 bytes) and string
    lengths around 8, behind 0..3 small records that shift the fill level: on the scaled encoder buffer the closing
    break, the file header and the array starts then meet every fill level, including 'exactly full'."""
    last = [("client_hoplimit", [23, 24, 255]), ("client_port", [23, 255, 256, 65535]), ("transaction_id", [256, 65535]),
            ("query_size", [255, 65535, 65536, (1 << 32) - 1, 1 << 32, (1 << 64) - 1]),
            ("response_size", [24, 256, 65536, 1 << 32]), ("round_trip_time", [0, 23, 24, 65536, 1 << 32, -1, -25, -(1 << 32) - 1]),
            ("response_delay", [255, -256, 1 << 40]), ("asn", [6, 7, 8, 9, 10, 11, 12, 23, 24]), ("country_code", [1, 2, 7, 8, 9])]
    pads = [[], [{"client_hoplimit": histgen.nat(1)}], [{"client_port": histgen.nat(300)}],
            [{"client_hoplimit": histgen.nat(200)}, {"transaction_id": histgen.nat(7)}],
            [{"query_size": histgen.nat(70000)}], [{"client_port": histgen.nat(5)}, {"client_hoplimit": histgen.nat(30)},
                                                    {"response_size": histgen.nat(1)}]]
    hs = []
    for f, vals in last:
        for v in vals:
            for pi, pad in enumerate(pads):
                if tier == "quick" and (len(hs) + pi) % 2:
                    continue
                if f in ("asn", "country_code"):
                    rec = {f: [97 + (i % 26) for i in range(v)]}
                elif f in ("round_trip_time", "response_delay"):
                    rec = {f: histgen.snum(v)}
                else:
                    rec = {f: histgen.nat(v)}
                pools = histgen.Pools(rng)
                bp = histgen.gen_bp(rng, pools, tps=1000000, maxitems=10000, hints=(histgen.ALL_QRH, histgen.ALL_SIGH, 3, 3))
                ops = [{"op": "qr", "r": dict(r)} for r in pad] + [{"op": "qr", "r": rec}, {"op": "rot", "export": True}]
                ops += [{"op": "qr", "r": dict(r)} for r in pad[:1]] + [{"op": "qr", "r": rec}, {"op": "wb"}]
                hs.append({"comp": "none", "out": ["file", "fd"][len(hs) % 2],
                           "preamble": {"major": histgen.nat(1), "minor": [], "private": histgen.nat(1), "bps": [bp]}, "ops": ops})
    return hs


def run(tier):
    chk = Check("C13", tier, "model_checking")
    chk.rule = ("model: all histories <= MaxOps incl. rotate(export in {T,F}), add/set parameters; (G) complete model "
                "histories replayed on the real exporter; (T) rotation-heavy random histories on file-name and descriptor "
                "outputs, three compression modes, and on the build whose encoder buffer is scaled to 12 bytes (every alignment of "
                "break / header / carried-over block to the buffer boundary); every closed output parsed by TLC; outputs that "
                "receive 65535..70001 blocks (counts, sizes, reader result); "
                "distinct = executions")
    chk.assumptions = ["TLC + CommunityModules", "driver logging (harness/exp_driver.cpp)", "python3 zlib/lzma",
                       "rotation argument of the same kind (name / descriptor) as the constructor's (the other case is a "
                       "silent no-op of the writer and outside the statement)"]
    exporter_models(chk, tier, selftests=("rot_drops_block", "stale_header"))
    exporter_x_models(chk, tier)
    gen = generated_histories(chk, 3, "{1, 2}", limit=2500 if tier == "quick" else None)
    gen = [h for h in gen if any(o["op"] == "rot" for o in h["ops"])]
    gen += generated_x_histories(chk, 4, limit=500 if tier == "quick" else 6000,
                                 want=lambda h: any(o["op"] == "rot" for o in h["ops"]))
    m1 = run_histories(chk, gen, {"C13"}, label="c13g")
    rng = rng_for(chk, 13)
    n = 48 if tier == "quick" else 900
    m2 = run_histories(chk, rotation_heavy(rng, n, ["none", "none", "gz", "xz"]) + histgen.incompressible_rotation_family(rng),
                       {"C13"}, label="c13r", sample=False)
    # the same kind of histories on the build with the encoder's staging buffer scaled to 12 bytes: every alignment of
    # the closing break, the file header and the carried-over block to the buffer boundary occurs (also "exactly full")
    n3 = 40 if tier == "quick" else 600
    m3 = run_histories(chk, rotation_heavy(rng, n3, ["none", "none", "none", "gz"]), {"C13"}, label="c13s", sample=False,
                       defs=("CDNS_VERIF_ENC_BUFFER=12",))
    m4 = run_histories(chk, alignment_family(rng, tier), {"C13"}, label="c13a", sample=False, defs=("CDNS_VERIF_ENC_BUFFER=12",))
    m5 = run_many_blocks(chk, {"C13"})
    chk.distinct = m1["execs"] + m2["execs"] + m3["execs"] + m4["execs"] + m5["execs"]
    return chk.finish()


def replay(path):
    print(Path(path).read_text()[:6000])
    return 0
