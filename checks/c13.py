"""C13  Rotation yields self-contained files and loses, repeats or reorders nothing."""
from pathlib import Path

import histgen
from vlib import Check
from checks.exporter_common import run_histories, rng_for, exporter_models, generated_histories


def rotation_heavy(rng, n, comps):
    hs = []
    for i in range(n):
        h = histgen.gen_history(rng, nops=rng.choice([15, 30, 50]), comp=comps[i % len(comps)],
                                out=["file", "fd"][i % 2], sizes=[1, 2, 3, 10000], qr_mode=rng.choice([None, "sparse"]))
        # more rotations, including consecutive ones with nothing written
        ops = []
        for o in h["ops"]:
            ops.append(o)
            if rng.random() < 0.15:
                ops.append({"op": "rot", "export": rng.random() < 0.5})
                if rng.random() < 0.3:
                    ops.append({"op": "rot", "export": rng.random() < 0.5})
        # keep the documented precondition: drop switches to sets that are not in the header yet
        h["ops"] = [o for o in ops if o["op"] != "editbp"
                    and not (o["op"] == "setbp" and o["i"] < 200 and o["i"] >= len(h["preamble"]["bps"]))]
        # rotation whose argument is a file name although the exporter writes to a descriptor (and vice versa): the
        # writer silently ignores it while the exporter believes the output was switched -> known finding C13-kind-mismatch
        if h["out"] == "fd" and h["comp"] == "none" and i % 4 == 1:
            rots = [o for o in h["ops"] if o["op"] == "rot"]
            if rots:
                rng.choice(rots)["mismatch"] = True
        hs.append(h)
    return hs


def run(tier):
    chk = Check("C13", tier, "model_checking")
    chk.rule = ("model: all histories <= MaxOps incl. rotate(export in {T,F}), add/set parameters; (G) complete model "
                "histories replayed on the real exporter; (T) rotation-heavy random histories on file-name and descriptor "
                "outputs, three compression modes; every closed output parsed by TLC; distinct = executions")
    chk.assumptions = ["TLC + CommunityModules", "driver logging (harness/exp_driver.cpp)", "python3 zlib/lzma",
                       "rotation argument of the same kind (name / descriptor) as the constructor's (the other case is a "
                       "silent no-op of the writer and outside the statement)"]
    exporter_models(chk, tier, selftests=("rot_drops_block", "stale_header"))
    gen = generated_histories(chk, 3, "{1, 2}", limit=2500 if tier == "quick" else None)
    gen = [h for h in gen if any(o["op"] == "rot" for o in h["ops"])]
    m1 = run_histories(chk, gen, {"C13"}, label="c13g")
    rng = rng_for(chk, 13)
    n = 48 if tier == "quick" else 900
    m2 = run_histories(chk, rotation_heavy(rng, n, ["none", "none", "gz", "xz"]), {"C13"}, label="c13r", sample=False)
    chk.distinct = m1["execs"] + m2["execs"]
    return chk.finish()


def replay(path):
    print(Path(path).read_text()[:6000])
    return 0
