"""C09  File preamble and block parameters survive write -> read unchanged."""
from pathlib import Path

import histgen
from vlib import Check
from checks.exporter_common import run_histories, rng_for
from checks.writer_common import run_scenarios


def preambles(rng, tier):
    hs = []
    n = 150 if tier == "quick" else 3000
    pools = histgen.Pools(rng)
    for i in range(n):
        nb = rng.choice([1, 1, 2, 3, 8] if tier == "thorough" else [1, 2, 3])
        bps = []
        for _ in range(nb):
            mode = rng.choice(["absent", "empty", "some", "full"])
            coll = None if mode == "absent" else histgen.gen_coll(rng, pools, mode)
            bp = histgen.gen_bp(rng, pools, rich=True, coll=coll, maxitems=rng.choice([1, 3, 10000, (1 << 64) - 1]),
                                tps=rng.choice([1, 1000, 1000000, 10 ** 9]),
                                hints=histgen.gen_hints(rng, "wide") if rng.random() < 0.4 else None)
            if mode == "absent":
                bp.pop("coll", None)
            bps.append(bp)
        pre = {"major": histgen.nat(rng.choice([0, 1, 2, 255])), "minor": histgen.nat(rng.choice([0, 1, 255])), "bps": bps}
        pv = rng.choice([None, None, 0, 1, 2, 255])
        if pv is not None:
            pre["private"] = histgen.nat(pv)
        ops = [{"op": "qr", "r": {"client_port": histgen.nat(i % 65536)}}, {"op": "wb"}]
        if nb > 1 and rng.random() < 0.5:
            ops = [{"op": "setbp", "i": rng.randrange(nb)}, {"op": "wb"}] + ops
        hs.append({"comp": "none", "out": "file", "preamble": pre, "ops": ops})
    return hs


def run(tier):
    chk = Check("C09", tier, "model_checking")
    chk.rule = ("one execution = one generated FilePreamble (versions, private version present/absent, 1..8 parameter sets, "
                "every optional member subset, empty/partial/full collection parameters, lists of length 0..n with unassigned "
                "codes, full-width integers, storage hints over their whole declared width) written with one block and read back; TLC compares the independent reading of "
                "the bytes and the library reader's result with the value supplied, member for member")
    chk.assumptions = ["TLC + CommunityModules", "driver JSON<->struct conversion (harness/records.h)"]
    rng = rng_for(chk, 9)
    hs = preambles(rng, tier)
    m = run_histories(chk, hs, {"C09"}, label="c09")
    chk.distinct = m["execs"]
    # the preamble of each output of an exporter that gains a parameter set between two outputs - without faults and with one
    # I/O fault at every system call: the output opened after the fault must carry ITS preamble (two sets), not an earlier one
    scs = []
    for i, (comp, kind) in enumerate([("none", "file"), ("gz", "file"), ("none", "fd")] + ([("xz", "file"), ("gz", "fd")] if tier == "thorough" else [])):
        for j, n in enumerate((3, 9) if tier == "quick" else (1, 3, 9, 40)):
            scs.append({"id": 9000 + 10 * i + j, "target": "exporter", "comp": comp, "kind": kind, "max": 4, "nbps": [1, 2],
                        "steps": [{"op": "rec", "n": n}, {"op": "wb"}, {"op": "addbp"}, {"op": "rot", "export": True},
                                  {"op": "rec", "n": 3}, {"op": "wb"}], "pre": []})
    run_scenarios(chk, "c16", scs, {"C09"}, "c09w")
    return chk.finish()


def replay(path):
    print(Path(path).read_text()[:6000])
    return 0
