"""Shared parts of the decoder checks (C05, C07): model checking of DecoderImpl
against the property level, generation of item scenarios by TLC, recording on the
real decoder, trace validation."""
import json
import shutil

import vlib

DEC_BUGS = ["stale", "break_simple", "tag", "depth", "reserve"]
INVS = ["C07_C05_Conforms", "C03_Reserve", "C03_Depth"]


def decoder_models(chk, tier, selftests=DEC_BUGS):
    work = vlib.scratch("decmc")
    windows = [2, 3] if tier == "quick" else [2, 3, 4, 5, 7]
    for w in windows:
        cfg = vlib.make_cfg(work / f"MCDecoder_W{w}.cfg", spec="MCSpec",
                            constants={"W": w, "RsvCap": 64, "Bugs": "{}", "Cut": "TRUE"}, invariants=INVS)
        res, verdict = vlib.model_check("MCDecoder", cfg, workers=8, timeout=1200, xss="1g")
        chk.add_model(f"MCDecoder(W={w}, all items, all cuts, pad 0..W+1)", res, verdict)
    cfg = vlib.make_cfg(work / "MCDecoderU.cfg", spec="MCSpecU",
                        constants={"W": 3, "RsvCap": 64, "Bugs": "{}", "Cut": "FALSE"}, invariants=INVS)
    res, verdict = vlib.model_check("MCDecoder", cfg, workers=2, timeout=600)
    chk.add_model("MCDecoder(unreadable stream)", res, verdict)
    for bug in selftests:
        cfg = vlib.make_cfg(work / f"MCDecoder_{bug}.cfg", spec="MCSpec",
                            constants={"W": 3, "RsvCap": 64, "Bugs": '{"%s"}' % bug, "Cut": "TRUE"}, invariants=INVS)
        res, verdict = vlib.model_check("MCDecoder", cfg, workers=4, timeout=600)
        chk.add_model(f"MCDecoder[Bugs={{{bug}}}] (self-test, must fail)", res, verdict, expect="violated")
    shutil.rmtree(work, ignore_errors=True)


def gen_scenarios(work):
    out = work / "scenarios.ndjson"
    cfg = vlib.make_cfg(work / "GenDecoder.cfg")
    res = vlib.run_tlc("GenDecoder", cfg, workers=1, timeout=300, env={"OUT": str(out)})
    if not out.exists() or "No error" not in res["out"]:
        raise vlib.Infra("GenDecoder failed: " + res["out"][-2000:])
    return out


def decoder_traces(chk, tier, relevant, mode, scaled=False):
    """mode: 'items' (grammar items at every alignment + truncations) or 'lengths' (stream lengths around k*W)."""
    wscaled = 5
    defs = (f"CDNS_VERIF_DEC_BUFFER={wscaled}",) if scaled else ()
    exe = vlib.build_driver("dec_driver", "plain", defs)
    work = vlib.scratch("dectr")
    nsh = vlib.NCPU
    files = [work / f"dec.{mode}.{i}.ndjson" for i in range(nsh)]
    if mode == "items":
        scen = gen_scenarios(work)
        cmds = [[exe, "items", scen, tier, i, nsh, files[i]] for i in range(nsh)]
    else:
        cmds = [[exe, "lengths", tier, i, nsh, files[i]] for i in range(nsh)]
    for cmd, rc, out in vlib.run_parallel(cmds, timeout=1500, env={"VERIF_TMP": str(work)}):
        if rc != 0:
            raise vlib.Infra(f"dec_driver failed rc={rc}: {out}")
    merged = vlib.validate_traces("TraceDecoder", files,
                                  constants={"W": wscaled if scaled else 65535, "RsvCap": 65535, "Bugs": "{}"},
                                  timeout=1500, label="dectv")
    with open(files[0]) as f:
        head = []
        for _ in range(5):
            try:
                head.append(json.loads(next(f)))
            except StopIteration:
                break
        chk.samples.append({"mode": mode, "scaled_window": scaled, "trace_head": head})
    chk.add_traces(merged, relevant=relevant)
    shutil.rmtree(work, ignore_errors=True)
    return merged
