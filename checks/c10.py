"""C10  Reported byte counts equal the bytes actually produced."""
from pathlib import Path

import histgen
from vlib import Check
from checks.exporter_common import run_histories, rng_for
from checks.c06 import encoder_traces
from checks.c02 import empties


def run(tier):
    chk = Check("C10", tier, "model_checking")
    chk.rule = ("exporter ledger: for every closed output of every history (three compression modes, file-name and "
                "descriptor outputs, rotations, empty optional structures, blocks spanning encoder flushes) the sum of the "
                "values returned by buffer/write_block/rotate calls (+1 on destruction) = uncompressed size; encoder calls: "
                "every recorded call's return value = length of its RFC 8949 encoding")
    chk.assumptions = ["TLC + CommunityModules", "driver logging", "python3 zlib/lzma"]
    rng = rng_for(chk, 10)
    n = 90 if tier == "quick" else 1500
    hs = []
    for i in range(n):
        hs.append(histgen.gen_history(rng, nops=rng.choice([10, 30, 60]), comp=["none", "gz", "xz"][i % 3],
                                      out=["file", "fd"][(i // 3) % 2], sizes=[1, 3, 7, 10000], stats_p=0.4))
    hs += empties(rng, n // 3)
    m = run_histories(chk, hs, {"C10"}, label="c10")
    m2 = encoder_traces(chk, tier, relevant={"C10", "C06,C10"})
    hs3 = [histgen.gen_history(rng, nops=rng.choice([10, 30]), comp="none", sizes=[1, 3, 7, 10000], stats_p=0.4)
           for _ in range(30 if tier == "quick" else 400)]
    m3 = run_histories(chk, hs3, {"C10"}, label="c10s", sample=False, defs=("CDNS_VERIF_ENC_BUFFER=12",))
    chk.distinct = m["execs"] + m2["execs"] + m3["execs"]
    return chk.finish()


def replay(path):
    print(Path(path).read_text()[:6000])
    return 0
