"""C14  Compression is transparent: decompressing any output gives the plain output."""
import random
from pathlib import Path

from vlib import Check
from checks.writer_common import writer_model, run_scenarios, writer_scenarios, exporter_scenarios, boundary_scenarios, pending_scenarios


def run(tier):
    chk = Check("C14", tier, "model_checking")
    chk.rule = ("model: Writer.tla, every interleaving of staging and write system calls for scenarios with rotations, "
                "named/descriptor x compressed/plain; traces: chunk sequences (1 B .. 32 MiB; zero / text / random; empty) with "
                "rotation points through the real gzip/xz/plain writers and end-to-end through the exporter; each closed output "
                "is decompressed by python zlib/lzma (single complete stream required) and split into the chunks written; TLC "
                "compares with the scenario; chunk lengths around every multiple of 4 KiB (16 KiB quick) up to 96 KiB behind a "
                "backlog of 384 KiB incompressible data under AddressSanitizer; incompressible outputs through the residues of the "
                "compressors' chunking; sessions run during stack unwinding; 16 threads each driving its own compressed output; "
                "distinct = scenarios")
    chk.assumptions = ["TLC + CommunityModules", "python3 zlib/lzma as the independent decompressors",
                       "driver memcmp of decompressed content against the chunks it generated"]
    for named in (True, False):
        for comp in (True, False):
            writer_model(chk, f"MCWriter(Scn1, named={named}, compressed={comp})", "Scn1", named, comp)
    writer_model(chk, "MCWriter(Scn3, named, compressed)", "Scn3", True, True)
    rng = random.Random(chk.seed * 17 + 14)
    scs = writer_scenarios(rng, tier, big=True) + exporter_scenarios(rng, tier) + pending_scenarios(tier, kinds=("file", "fd"))
    # the same sessions run inside a clean-up routine while an unrelated exception unwinds the stack
    scs += [dict(sc, id=sc["id"] + 40000, unwind=True) for sc in scs if sc["id"] % 4 == 1 and sc["comp"] != "none"][: (24 if tier == "quick" else 400)]
    m = run_scenarios(chk, "c14", scs, {"C14"}, "c14")
    # chunk lengths around the fractions of the compressors' scratch buffer, behind a compressor backlog, under ASan
    m2 = run_scenarios(chk, "c14", boundary_scenarios(tier), {"C14"}, "c14b", flavor="asan")
    # a write system call of an EARLIER output fails once and nobody reports it (swallowed while the stream is finished, or
    # on an output whose stream state is never looked at): the outputs opened afterwards are still complete streams
    fsc = []
    for i, comp in enumerate(["gz", "xz"]):
        for j, kind in enumerate(["fd", "file"]):
            fsc.append({"id": 9800 + 2 * i + j, "target": "writer", "comp": comp, "kind": kind,
                        "chunks": [{"id": 1, "n": 3000, "pat": "text"}, {"id": 2, "n": 900, "pat": "rand", "seed": 4}, {"id": 3, "n": 100000, "pat": "rand", "seed": 6}],
                        "steps": [{"op": "w", "c": 1}, {"op": "rot"}, {"op": "w", "c": 2}, {"op": "w", "c": 1}, {"op": "rot"}, {"op": "w", "c": 3 if tier == "thorough" else 2}],
                        "pre": []})
    m3 = run_scenarios(chk, "c16", fsc, {"C14"}, "c14f")
    # independent compressing outputs driven by different threads at the same time (one exporter per thread): each is
    # still a single complete stream holding its thread's data (what belongs to a compression step belongs to its writer)
    import histgen
    from checks.c20 import run_threads
    from checks.exporter_common import rng_for
    rng2 = rng_for(chk, 14)
    th = []
    for i in range(48 if tier == "quick" else 400):
        h = histgen.gen_history(rng2, nops=rng2.choice([40, 80]), comp=["gz", "xz"][i % 2], out=["file", "fd"][(i // 2) % 2], sizes=[10000],
                                qr_mode="dense", rot=(i % 4 == 0))
        for o in h["ops"]:
            if o["op"] == "mm" and rng2.random() < 0.5:
                o["r"]["mm_payload"] = [rng2.getrandbits(8) for _ in range(rng2.choice([3000, 20000]))]
        th.append(h)
    m4 = run_threads(chk, "plain", 16, 2, th, "c14t", relevant={"C14"})
    # two compressed exporters of the same kind alive at once on ONE thread, operated alternately, both rotating: what a
    # writer needs for its stream is its own (nothing parked for, or taken over from, another writer)
    from checks.exporter_common import run_interleaved
    il = []
    for i in range(24 if tier == "quick" else 300):
        il.append(histgen.gen_history(rng2, nops=rng2.choice([12, 30]), comp=["gz", "xz", "xz"][(i // 2) % 3], out=["file", "fd"][(i // 2) % 2],
                                      sizes=[2, 10000], rot=True))
    m5 = run_interleaved(chk, il, {"C14"}, label="c14i")
    chk.distinct = m["execs"] + m2["execs"] + m3["execs"] + m4["execs"] + m5["execs"]
    return chk.finish()


def replay(path):
    print(Path(path).read_text()[:6000])
    return 0
