"""C20  Independent exporter/reader instances are safe to use from concurrent threads."""
import json
import os
import shutil
import subprocess
from pathlib import Path

import histgen
import vlib
from vlib import Check
from checks.exporter_common import rng_for, run_interleaved


def threads_model(chk, n, plen, bug, expect):
    work = vlib.scratch("c20mc")
    cfg = vlib.make_cfg(work / "Threads.cfg", spec="Spec", constants={"NThreads": n, "ProgLen": plen, "SBug": f'"{bug}"'},
                        invariants=["C20_Isolation"])
    res, verdict = vlib.model_check("Threads", cfg, workers=4, timeout=600)
    chk.add_model(f"Threads(N={n}, steps={plen}, SBug={bug})" + (" (self-test, must fail)" if expect != "ok" else ""),
                  res, verdict, expect=expect)
    shutil.rmtree(work, ignore_errors=True)


def run_threads(chk, flavor, nthreads, rounds, hs, label, relevant=None):
    work = vlib.scratch(label)
    hist = work / "hist.ndjson"
    hist.write_text("\n".join(json.dumps(h) for h in hs) + "\n")
    exe = vlib.build_driver("thr_driver", flavor)
    prefix = work / "thr"
    env = dict(os.environ, VERIF_TMP=str(work), TSAN_OPTIONS="halt_on_error=1:exitcode=66:report_signal_unsafe=0")
    r = subprocess.run(["timeout", "900", str(exe), "run", str(hist), str(nthreads), str(rounds), str(prefix)],
                       capture_output=True, text=True, env=env)
    files = [Path(f"{prefix}.{t}.ndjson") for t in range(nthreads)]
    if r.returncode != 0:
        # a sanitizer report or crash: the truncated per-thread traces are completed with an explicit event,
        # which the trace specification records as a violation
        what = "ThreadSanitizer: data race" if "ThreadSanitizer" in r.stderr else f"abnormal exit {r.returncode}"
        detail = ""
        for line in r.stderr.splitlines():
            if "#0" in line or "#1" in line or "Location" in line:
                detail += line.strip()[:160] + " | "
                if len(detail) > 600:
                    break
        for f in files:
            lines = f.read_text().splitlines() if f.exists() else []
            good = []
            for ln in lines:
                try:
                    json.loads(ln)
                    good.append(ln)
                except Exception:
                    break
            if good and json.loads(good[-1]).get("e") == "END":
                good = good[:-1]
            good.append(json.dumps({"e": "CRASH", "what": (what + " " + detail)[:900]}))
            good.append(json.dumps({"e": "END"}))
            f.write_text("\n".join(good) + "\n")
    files = vlib.split_traces(files, reset="R")
    merged = vlib.validate_traces("TraceExporter", files, constants={"XBug": '"none"'}, timeout=2400, label=label + "tv", xmx="4g")
    chk.add_traces(merged, relevant=relevant)
    shutil.rmtree(work, ignore_errors=True)
    return merged


def output_digests(files):
    """per thread: per execution (history), the digests of its closed outputs in order (decompressed bytes as logged)"""
    import hashlib
    per = []
    for f in files:
        runs, cur = [], None
        for line in (Path(f).read_text().splitlines() if Path(f).exists() else []):
            try:
                ev = json.loads(line)
            except Exception:
                break
            if ev.get("e") == "R":
                cur = []
                runs.append(cur)
            elif ev.get("e") == "OUT" and cur is not None:
                cur.append(hashlib.sha256(json.dumps(ev["bytes"]).encode()).hexdigest()[:24])
        per.append(runs)
    return per


def run_bytes(chk, nthreads, rounds, hs, label):
    """Byte identity: the outputs of N threads running their programs concurrently against the outputs of the same
    programs executed one after another on one thread of a fresh process (C20: 'byte-identical outputs ... to those of
    the same work executed sequentially').  The comparison of the digests is TLC's (TraceReader event B)."""
    work = vlib.scratch(label)
    hist = work / "hist.ndjson"
    hist.write_text("\n".join(json.dumps(h) for h in hs) + "\n")
    exe = vlib.build_driver("thr_driver", "plain")
    env = dict(os.environ, VERIF_TMP=str(work), VERIF_RENDER_DIGEST="1")      # rendered text of every record counts as output
    dig = {}
    for mode in ("seq", "run"):
        prefix = work / mode
        r = subprocess.run(["timeout", "900", str(exe), mode, str(hist), str(nthreads), str(rounds), str(prefix)],
                           capture_output=True, text=True, env=env)
        if r.returncode != 0:
            raise vlib.Infra(f"thr_driver {mode} failed rc={r.returncode}: {r.stderr[-400:]}")
        dig[mode] = output_digests([Path(f"{prefix}.{t}.ndjson") for t in range(nthreads)])
    events = []
    # ... and to the outputs of each program executed ALONE in a fresh process (nothing the library keeps from earlier
    # instances of the same process - caches, hints, pools - may show in an output): a sample of the programs
    import concurrent.futures as cf
    solo_ix = list(range(0, len(hs), max(1, len(hs) // 24)))[:24]

    def solo(j):
        hf = work / f"solo{j}.ndjson"
        hf.write_text(json.dumps(hs[j]) + "\n")
        pre = work / f"solo{j}"
        r = subprocess.run(["timeout", "300", str(exe), "seq", str(hf), "1", "1", str(pre)], capture_output=True, text=True, env=env)
        if r.returncode != 0:
            raise vlib.Infra(f"thr_driver seq (solo) failed rc={r.returncode}: {r.stderr[-300:]}")
        return j, output_digests([Path(f"{pre}.0.ndjson")])[0]
    with cf.ThreadPoolExecutor(8) as ex:
        for j, runs in ex.map(solo, solo_ix):
            t, k = j % nthreads, j // nthreads          # thread t executes histories t, t+N, ...: history j is its k-th
            if runs and k < len(dig["seq"][t]):
                events.append({"e": "B", "thread": -3, "history": j, "seq": runs[0], "thr": dig["seq"][t][k]})
    for t in range(nthreads):
        if len(dig["seq"][t]) != len(dig["run"][t]):
            raise vlib.Infra("sequential and concurrent run executed different numbers of histories")
        for k, (a, b) in enumerate(zip(dig["seq"][t], dig["run"][t])):
            events.append({"e": "B", "thread": t, "history": k, "seq": a, "thr": b})
    nsh = min(vlib.NCPU, max(1, len(events)))
    traces = [work / f"c20b.{i}.ndjson" for i in range(nsh)]
    for i, tf in enumerate(traces):
        tf.write_text("\n".join(json.dumps(e) for e in events[i::nsh]) + "\n" + '{"e":"END"}\n')
    merged = vlib.validate_traces("TraceReader", traces, constants={}, timeout=1200, label=label + "tv", xmx="4g")
    chk.add_traces(merged, relevant={"C20"})
    chk.extra["outputs_compared_bytewise"] = chk.extra.get("outputs_compared_bytewise", 0) + sum(len(e["seq"]) for e in events)
    shutil.rmtree(work, ignore_errors=True)
    return merged


def aec_heavy_histories(rng, n):
    """Work whose byte layout depends on container internals: blocks with many distinct address events (the iteration
    order of the aggregation map), differing much in size from thread to thread, several exporters per thread created
    after other threads have already written blocks."""
    hs = []
    for i in range(n):
        pools = histgen.Pools(rng)
        bp = histgen.gen_bp(rng, pools, tps=1000000, maxitems=10000, hints=(histgen.ALL_QRH, histgen.ALL_SIGH, 3, 3))
        k = [3, 40, 700, 12, 150, 5][i % 6]
        ops = []
        for j in range(k):
            r = histgen.gen_aec(rng, pools)
            r["ip_address"] = [10, (i * 7) % 256, j // 256, j % 256]
            ops.append({"op": "aec", "r": r})
            if j % 97 == 96 and rng.random() < 0.5:
                ops.append({"op": "wb"})
        ops.append({"op": "qr", "r": histgen.gen_qr(rng, pools, 1000000, 1500000000)})
        hs.append({"comp": ["none", "gz", "xz"][i % 3], "out": ["file", "fd"][i % 2],
                   "preamble": {"major": histgen.nat(1), "minor": [], "private": histgen.nat(1), "bps": [bp]}, "ops": ops})
    # a rotation that cannot succeed (closed descriptor, unopenable name) in the middle of the work, the exporter used on
    # and destroyed later: whatever the library does then stays within the thread's own outputs (the process-wide
    # descriptor table is shared state too)
    for i in range(n // 2):
        pools = histgen.Pools(rng)
        bp = histgen.gen_bp(rng, pools, tps=1000000, maxitems=rng.choice([3, 10000]), hints=(histgen.ALL_QRH, histgen.ALL_SIGH, 3, 3))
        recs = lambda k: [{"op": "qr", "r": histgen.gen_qr(rng, pools, 1000000, 1500000000)} for _ in range(k)]
        ops = recs(rng.choice([2, 40])) + [{"op": "wb"}] + recs(3) + [{"op": "rotbad", "export": i % 2 == 0}] + recs(rng.choice([5, 60])) + [{"op": "wb"}]
        hs.append({"comp": ["none", "gz"][i % 2], "out": ["fd", "fd", "file"][i % 3],
                   "preamble": {"major": histgen.nat(1), "minor": [], "private": histgen.nat(1), "bps": [bp]}, "ops": ops})
    return hs


def run_readers(chk, tier, flavor, nthreads, label):
    """Concurrent readers over files of other producers (TLC-generated re-encodings with unknown members)."""
    import random
    from checks.reader_common import make_files, tlc_variants, reader_dumps
    rng = random.Random(chk.seed * 47 + 20)
    work = vlib.scratch(label)
    files = make_files(work, rng, 8 if tier == "quick" else 40)
    variants = tlc_variants(work, files, "rewrite", 6 if tier == "quick" else 20, chk.seed)
    vdir = work / "variants"
    vdir.mkdir()
    paths = list(files)
    for f, v, b in variants:
        p = vdir / f"{f.stem}_v{v}.cdns"
        p.write_bytes(b)
        paths.append(p)
    seq, crashes = reader_dumps(work, paths, flavor="plain", label="c20seq")
    lst = work / "paths.txt"
    lst.write_text("\n".join(str(p) for p in paths) + "\n")
    exe = vlib.build_driver("thr_driver", flavor)
    prefix = work / "rthr"
    env = dict(os.environ, VERIF_TMP=str(work), TSAN_OPTIONS="halt_on_error=1:exitcode=66:report_signal_unsafe=0")
    r = subprocess.run(["timeout", "900", str(exe), "read", str(lst), str(nthreads), "2" if tier == "quick" else "4", str(prefix)],
                       capture_output=True, text=True, env=env)
    events = []
    if flavor == "plain":
        # two readers operated alternately on ONE thread (one read_block() each in turn): shared state needs no second thread
        il, crashes2 = reader_dumps(work, paths + paths[1:] + paths[:1], flavor="asan", mode="dump2", label="c20i2")
        for name, ev in il.items():
            if name in seq:
                events.append({"e": "S", "file": name, "thread": -2, "rd_seq": seq[name]["rd"], "rd_thr": ev["rd"]})
        for c in crashes2:
            events.append({"e": "S", "file": "-", "thread": -2, "rd_seq": {"fin": "eof"}, "rd_thr": {"fin": "crash " + json.dumps(c)[:300]}})
    if r.returncode != 0:
        what = "ThreadSanitizer: data race" if "ThreadSanitizer" in r.stderr else f"abnormal exit {r.returncode}"
        loc = " ".join(l.strip()[:140] for l in r.stderr.splitlines() if "#0" in l or "Location" in l or "SUMMARY" in l)[:600]
        events.append({"e": "S", "file": "-", "thread": -1, "rd_seq": {"fin": "eof"}, "rd_thr": {"fin": what + " " + loc}})
    # copies of one read block, one per thread, walked at the same time; compared with an independent reading walked alone
    # (bounded: every file costs N copies of every block and N walks; under ThreadSanitizer a tenth of the speed)
    clst = work / "copy_paths.txt"
    cpaths = paths if tier == "quick" else paths[:: max(1, len(paths) // (60 if flavor == "tsan" else 200))]
    clst.write_text("\n".join(str(p) for p in cpaths) + "\n")
    rc = subprocess.run(["timeout", "900", str(exe), "readcopies", str(clst), str(nthreads), "2" if tier == "quick" or flavor == "tsan" else "3", str(prefix)],
                        capture_output=True, text=True, env=env)
    cf = Path(f"{prefix}.copies.ndjson")
    ncop = 0
    for line in (cf.read_text().splitlines() if cf.exists() else []):
        try:
            ev = json.loads(line)
        except Exception:
            break
        if ev.get("e") == "S":
            events.append(ev)
            ncop += 1
    if rc.returncode != 0:
        what = "ThreadSanitizer: data race" if "ThreadSanitizer" in rc.stderr else f"abnormal exit {rc.returncode}"
        loc = " ".join(l.strip()[:140] for l in rc.stderr.splitlines() if "#0" in l or "Location" in l or "SUMMARY" in l)[:600]
        events.append({"e": "S", "file": "-", "thread": -1, "rd_seq": {"fin": "eof"}, "rd_thr": {"fin": "block copies walked by threads: " + what + " " + loc}})
    chk.extra["block_copy_walks_" + flavor] = ncop
    for t in range(nthreads):
        f = Path(f"{prefix}.{t}.ndjson")
        for line in (f.read_text().splitlines() if f.exists() else []):
            try:
                ev = json.loads(line)
            except Exception:
                break
            if ev.get("e") == "RD" and ev["file"] in seq:
                events.append({"e": "S", "file": ev["file"], "thread": t, "rd_seq": seq[ev["file"]]["rd"], "rd_thr": ev["rd"]})
    nsh = vlib.NCPU
    traces = [work / f"c20r.{i}.ndjson" for i in range(nsh)]
    for i, tf in enumerate(traces):
        tf.write_text("\n".join(json.dumps(e) for e in events[i::nsh]) + "\n" + '{"e":"END"}\n')
    merged = vlib.validate_traces("TraceReader", traces, constants={}, timeout=2400, label=label + "tv", xmx="4g")
    chk.add_traces(merged, relevant={"C20"})
    shutil.rmtree(work, ignore_errors=True)
    return merged


def run(tier):
    chk = Check("C20", tier, "exploration")
    chk.rule = ("model: every interleaving of N threads, each appending its own items, with per-call scratch (design) and "
                "with a shared static scratch (seeded deviation, must fail); traces: 2..16 real threads, each with its own "
                "exporter (file-name and descriptor outputs, three compression modes), reader and renderers on distinct "
                "outputs, run concurrently with injected yields; every per-thread trace is validated by TLC with the very "
                "same TraceExporter spec as sequential runs (any deviation from the sequential semantics is a violation); "
                "every closed output of the concurrent run is byte-identical to that of the same programs executed one "
                "after another on one thread (digests compared by TLC), incl. blocks with 3..700 distinct address events; pairs of "
                "exporters and pairs of readers operated alternately on ONE thread behave as if alone; "
                "the same driver under ThreadSanitizer: a race report truncates the traces; distinct = per-thread executions")
    chk.assumptions = ["TLC + CommunityModules", "ThreadSanitizer happens-before analysis as the instrument for races",
                       "schedules are those the OS produced (sampled), not enumerated"]
    threads_model(chk, 3, 3, "none", "ok")
    threads_model(chk, 2, 2, "shared_scratch", "violated")
    # isolation of instances operated alternately on one thread, calls that may fail included (Instances.tla)
    work = vlib.scratch("c20inst")
    for bug, expect in (("none", "ok"), ("memo", "violated"), ("leak_on_exc", "violated"), ("hint", "violated")):
        cfg = vlib.make_cfg(work / f"Instances_{bug}.cfg", spec="Spec", constants={"NInst": 3 if bug == "none" else 2, "Calls": 3, "IBug": f'"{bug}"'},
                            invariants=["Isolation"])
        res, verdict = vlib.model_check("Instances", cfg, workers=2, timeout=300)
        chk.add_model("Instances(3 instances x 3 calls, any interleaving, failing calls)" if bug == "none"
                      else f"Instances[IBug={bug}] (self-test, must fail)", res, verdict, expect=expect)
    shutil.rmtree(work, ignore_errors=True)
    rng = rng_for(chk, 20)
    n = 48 if tier == "quick" else 400
    hs = [histgen.gen_history(rng, nops=rng.choice([8, 16, 30]), comp=["none", "gz", "xz"][i % 3], out=["file", "fd"][i % 2],
                              sizes=[1, 3, 10000]) for i in range(n)]
    execs = 0
    for nt in ([2, 16] if tier == "quick" else [2, 3, 8, 16]):
        m = run_threads(chk, "plain", nt, 1 if tier == "quick" else 2, hs, f"c20p{nt}")
        execs += m["execs"]
    m = run_threads(chk, "tsan", 8 if tier == "quick" else 16, 1, hs[: (32 if tier == "quick" else 200)], "c20t")
    execs += m["execs"]
    # byte identity with the sequential execution of the same work
    hb = hs[: (24 if tier == "quick" else 200)] + aec_heavy_histories(rng, 24 if tier == "quick" else 120)
    for nt in ([4] if tier == "quick" else [2, 4, 16]):
        m = run_bytes(chk, nt, 2, hb, f"c20b{nt}")
        execs += m["execs"]
    # no second thread is needed to see shared state: two exporters operated alternately on one thread
    m = run_interleaved(chk, hs[: (40 if tier == "quick" else 400)], None, label="c20i")
    execs += m["execs"]
    m = run_readers(chk, tier, "plain", 8 if tier == "quick" else 16, "c20rp")
    execs += m["execs"]
    m = run_readers(chk, tier, "tsan", 6 if tier == "quick" else 12, "c20rt")
    execs += m["execs"]
    chk.samples.append({"threads": [2, 16], "history_ops": [o["op"] for o in hs[0]["ops"]][:20]})
    chk.distinct = execs
    chk.evaluations = max(chk.evaluations, execs)
    return chk.finish()


def replay(path):
    print(Path(path).read_text()[:6000])
    return 0
