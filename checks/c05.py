"""C05  End of input is always detected; a truncated file yields only complete blocks."""
from pathlib import Path

import vlib
from vlib import Check
from checks.decoder_common import decoder_models, decoder_traces


def run(tier):
    chk = Check("C05", tier, "model_checking")
    chk.rule = ("stream lengths k*W+d (k=0..3, d=-2..2) x stream kind (string, file, unopened) x first op (peek/read) x "
                "last op; every truncation of every generated item at several alignments; one execution each")
    chk.assumptions = ["TLC + CommunityModules", "driver logging (harness/dec_driver.cpp)"]
    decoder_models(chk, tier, selftests=["stale"])
    m1 = decoder_traces(chk, tier, {"C05"}, "lengths")
    m2 = decoder_traces(chk, tier, {"C05"}, "lengths", scaled=True)
    m3 = decoder_traces(chk, tier, {"C05"}, "items")
    chk.distinct = m1["execs"] + m2["execs"] + m3["execs"]
    return chk.finish()


def replay(path):
    print(Path(path).read_text()[:4000])
    return 0
