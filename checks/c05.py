"""C05  End of input is always detected; a truncated file yields only complete blocks."""
from pathlib import Path

import vlib
from vlib import Check
from checks.decoder_common import decoder_models, decoder_traces


def truncated_files(chk, tier):
    """File level: reading a prefix returns exactly the complete blocks, identical to the full file's, then end-of-input."""
    import json
    import random
    import shutil
    from checks.reader_common import make_files, reader_dumps, tlc_variants
    from checks.c18 import segs
    rng = random.Random(chk.seed * 41 + 5)
    work = vlib.scratch("c05f")
    files = make_files(work, rng, 6 if tier == "quick" else 40, nops=(10, 25), big=2 if tier == "quick" else 8)
    # the same files with a DEFINITE-length blocks array (preferred and widened count; Reader.tla: the other branch of
    # read_block) and with an indefinite-length file array, written by TLC (Rewrite!DefBlocks)
    vdir = work / "defblocks"
    vdir.mkdir()
    nsmall = 0
    small = sorted((f for f in files if f.stat().st_size <= 20000), key=lambda f: f.stat().st_size)
    for f, v, b in tlc_variants(work, small[: (3 if tier == "quick" else 10)], "defblocks", 4, chk.seed, maxsize=20000):
        p = vdir / f"{f.stem}_d{v}.cdns"
        p.write_bytes(b)
        files.append(p)
        nsmall += 1
    chk.extra["definite_blocks_array_variants"] = nsmall
    cdir = work / "cuts"
    cdir.mkdir()
    jobs = []
    W = 65535
    for f in files:
        data = f.read_bytes()
        n = len(data)
        cuts = set([0, 1, 2, 5, n - 1, n - 2, n // 2, n])
        for k in range(1, n // W + 1):
            for d in (range(-3, 4) if tier == "quick" else range(-40, 41)):
                if 0 <= k * W + d <= n:
                    cuts.add(k * W + d)
        # around every block boundary: offsets come from the TLA+ parse; here every offset near a 0xA? map start is tried too
        for b in getattr(make_files, "bounds", {}).get(f.name, []):       # every block boundary, +-2
            for d in range(-2, 3):
                if 0 <= b + d <= n:
                    cuts.add(b + d)
        for _ in range(12 if tier == "quick" else 120):
            cuts.add(rng.randrange(0, n + 1))
        if n < 4000:
            # (thorough: every byte of the smaller files; the volume of traces is bounded - an earlier version wrote > 40 GB)
            cuts.update(range(0, n + 1, 1 if tier == "thorough" and n < 1500 else 3 if tier == "thorough" else 7))
        for c in sorted(cuts):
            p = cdir / f"{f.stem}_c{c}.cdns"
            p.write_bytes(data[:c])
            jobs.append((f, c, p))
    dumps, crashes = reader_dumps(work, list(files) + [p for _, _, p in jobs], label="c05rd")
    # the same inputs with the reader handed on (move construction) after 0..3 blocks: same blocks, same end
    mvsel = [p for k, (f, c, p) in enumerate(jobs) if k % 3 == 0 or c >= f.stat().st_size - 2]       # a third of the cuts, and all near the end
    dumps_mv, crashes_mv = reader_dumps(work, mvsel, mode="dumpmv", label="c05mv")
    crashes += crashes_mv
    nsh = vlib.NCPU
    traces = [work / f"c05f.{i}.ndjson" for i in range(nsh)]
    hs = [open(t, "w") for t in traces]
    for k, (f, c, p) in enumerate(jobs):
        if p.name not in dumps or f.name not in dumps:
            continue
        big = f.stat().st_size > 60000
        ev = {"e": "P", "cut": c, "orig": segs(f.read_bytes()), "rd_orig": dumps[f.name]["rd"], "rd_cut": dumps[p.name]["rd"]}
        hs[k % nsh].write(json.dumps(ev) + "\n")
        if p.name in dumps_mv:
            hs[(k + 1) % nsh].write(json.dumps(dict(ev, rd_cut=dumps_mv[p.name]["rd"])) + "\n")
    for h in hs:
        h.write('{"e":"END"}\n')
        h.close()
    merged = vlib.validate_traces("TraceReader", traces, constants={}, timeout=2400, label="c05ftv", xmx="4g")
    for c in crashes:
        merged["viol"].append({"prop": "C05,C03", "what": "reader crashed on a truncated file: " + json.dumps(c)[:300]})
    chk.samples.append({"truncated_files": len(jobs), "example_cut": jobs[0][1]})
    chk.add_traces(merged, relevant={"C05"})
    shutil.rmtree(work, ignore_errors=True)
    return merged


def reader_models(chk):
    import shutil
    work = vlib.scratch("c05rdmc")
    for bug, expect in (("none", "ok"), ("eof_not_sticky", "violated"), ("count_from_one", "violated"), ("partial_block", "violated")):
        cfg = vlib.make_cfg(work / f"MCReader_{bug}.cfg", spec="MCSpec", constants={"MaxBlocks": 3, "RBug": f'"{bug}"'},
                            invariants=["C05_ReaderExact", "ReaderBounds"])
        res, verdict = vlib.model_check("MCReader", cfg, workers=2, timeout=300)
        chk.add_model("MCReader(files <= 3 blocks, both kinds of blocks array, every cut, n+3 calls)" if bug == "none"
                      else f"MCReader[RBug={bug}] (self-test, must fail)", res, verdict, expect=expect)
    shutil.rmtree(work, ignore_errors=True)


def run(tier):
    chk = Check("C05", tier, "model_checking")
    chk.rule = ("stream lengths k*W+d (k=0..3, d=-2..2) x stream kind (string, file, unopened) x first op (peek/read) x "
                "last op; every truncation of every generated item at several alignments; Reader.tla (reader state machine) for all "
                "small files x cuts; real files and TLC-written variants with a definite-length blocks array / indefinite-length "
                "file array cut at block boundaries, window boundaries and random points; one execution each")
    chk.assumptions = ["TLC + CommunityModules", "driver logging (harness/dec_driver.cpp)"]
    decoder_models(chk, tier, selftests=["stale"])
    reader_models(chk)
    m1 = decoder_traces(chk, tier, {"C05"}, "lengths")
    m2 = decoder_traces(chk, tier, {"C05"}, "lengths", scaled=True)
    m3 = decoder_traces(chk, tier, {"C05"}, "items")
    m4 = truncated_files(chk, tier)
    chk.distinct = m1["execs"] + m2["execs"] + m3["execs"] + m4["execs"]
    return chk.finish()


def replay(path):
    print(Path(path).read_text()[:4000])
    return 0
