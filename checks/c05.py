"""C05  End of input is always detected; a truncated file yields only complete blocks."""
from pathlib import Path

import vlib
from vlib import Check
from checks.decoder_common import decoder_models, decoder_traces


def truncated_files(chk, tier):
    """File level: reading a prefix returns exactly the complete blocks, identical to the full file's, then end-of-input."""
    import json
    import random
    import shutil
    from checks.reader_common import make_files, reader_dumps
    from checks.c18 import segs
    rng = random.Random(chk.seed * 41 + 5)
    work = vlib.scratch("c05f")
    files = make_files(work, rng, 6 if tier == "quick" else 40, nops=(10, 25), big=2 if tier == "quick" else 8)
    cdir = work / "cuts"
    cdir.mkdir()
    jobs = []
    W = 65535
    for f in files:
        data = f.read_bytes()
        n = len(data)
        cuts = set([0, 1, 2, 5, n - 1, n - 2, n // 2, n])
        for k in range(1, n // W + 1):
            for d in (range(-3, 4) if tier == "quick" else range(-40, 41)):
                if 0 <= k * W + d <= n:
                    cuts.add(k * W + d)
        # around every block boundary: offsets come from the TLA+ parse; here every offset near a 0xA? map start is tried too
        for b in getattr(make_files, "bounds", {}).get(f.name, []):       # every block boundary, +-2
            for d in range(-2, 3):
                if 0 <= b + d <= n:
                    cuts.add(b + d)
        for _ in range(12 if tier == "quick" else 500):
            cuts.add(rng.randrange(0, n + 1))
        if n < 4000:
            cuts.update(range(0, n + 1, 1 if tier == "thorough" else 7))
        for c in sorted(cuts):
            p = cdir / f"{f.stem}_c{c}.cdns"
            p.write_bytes(data[:c])
            jobs.append((f, c, p))
    dumps, crashes = reader_dumps(work, list(files) + [p for _, _, p in jobs], label="c05rd")
    nsh = vlib.NCPU
    traces = [work / f"c05f.{i}.ndjson" for i in range(nsh)]
    hs = [open(t, "w") for t in traces]
    for k, (f, c, p) in enumerate(jobs):
        if p.name not in dumps or f.name not in dumps:
            continue
        big = f.stat().st_size > 60000
        ev = {"e": "P", "cut": c, "orig": segs(f.read_bytes()), "rd_orig": dumps[f.name]["rd"], "rd_cut": dumps[p.name]["rd"]}
        hs[k % nsh].write(json.dumps(ev) + "\n")
    for h in hs:
        h.write('{"e":"END"}\n')
        h.close()
    merged = vlib.validate_traces("TraceReader", traces, constants={}, timeout=2400, label="c05ftv", xmx="4g")
    for c in crashes:
        merged["viol"].append({"prop": "C05,C03", "what": "reader crashed on a truncated file: " + json.dumps(c)[:300]})
    chk.samples.append({"truncated_files": len(jobs), "example_cut": jobs[0][1]})
    chk.add_traces(merged, relevant={"C05"})
    shutil.rmtree(work, ignore_errors=True)
    return merged


def run(tier):
    chk = Check("C05", tier, "model_checking")
    chk.rule = ("stream lengths k*W+d (k=0..3, d=-2..2) x stream kind (string, file, unopened) x first op (peek/read) x "
                "last op; every truncation of every generated item at several alignments; one execution each")
    chk.assumptions = ["TLC + CommunityModules", "driver logging (harness/dec_driver.cpp)"]
    decoder_models(chk, tier, selftests=["stale"])
    m1 = decoder_traces(chk, tier, {"C05"}, "lengths")
    m2 = decoder_traces(chk, tier, {"C05"}, "lengths", scaled=True)
    m3 = decoder_traces(chk, tier, {"C05"}, "items")
    m4 = truncated_files(chk, tier)
    chk.distinct = m1["execs"] + m2["execs"] + m3["execs"] + m4["execs"]
    return chk.finish()


def replay(path):
    print(Path(path).read_text()[:4000])
    return 0
