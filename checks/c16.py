"""C16  Output failures are reported, never swallowed, and rotation recovers from them."""
import random
from pathlib import Path

from vlib import Check
from checks.writer_common import writer_model, run_scenarios, exporter_scenarios


def run(tier):
    chk = Check("C16", tier, "fault_enumeration")
    chk.rule = ("model: Writer.tla with one (or every later) write system call failing, for every k; traces: exporter scenarios "
                "(plain/gzip/xz x file-name/descriptor outputs, rotations, final recovery step = rotate to a healthy destination "
                "+ write_block) re-run with the k-th write/writev failing with ENOSPC / EIO / a short count, once and "
                "persistently, for EVERY k; TLC walks the ordered log of API calls and system calls: a rotate_output that "
                "returns normally for an output that lost bytes without any exception since is a violation, as is a failed or "
                "incomplete recovery after a failed block write; distinct = fault points")
    chk.assumptions = ["TLC + CommunityModules", "write/writev interposed in the driver executable",
                       "destruction is outside the guarantee (cannot throw)"]
    for named in (True, False):
        for comp in (True, False):
            for k in (1, 2, 3, 5):
                writer_model(chk, f"MCWriter(Scn1, named={named}, compressed={comp}, fault at {k})", "Scn1", named, comp,
                             fault=k, persistent=(k % 2 == 0), invs=["C16_Reported"])
    writer_model(chk, "MCWriter[WBug=swallow] (pinned named-output behaviour; self-test, must fail)", "Scn1", True, False,
                 fault=2, bug="swallow", invs=["C16_Reported"], expect="violated")
    writer_model(chk, "MCWriter[WBug=swallow_close] (pinned compressed close; self-test, must fail)", "Scn1", False, True,
                 fault=4, persistent=True, bug="swallow_close", invs=["C16_Reported"], expect="violated")
    rng = random.Random(chk.seed * 23 + 16)
    scs = exporter_scenarios(rng, tier, recover=True)
    # a rotation whose argument is of the other kind than the constructor's (a name for a descriptor exporter): whatever the
    # library makes of it, a write that is rejected while the call closes the old output is reported by the call
    for i, (kind, n) in enumerate([("fd", 3), ("fd", 300), ("file", 3)] + ([("fd", 40), ("file", 150)] if tier == "thorough" else [])):
        scs.append({"id": 1900 + i, "target": "exporter", "comp": "none", "kind": kind, "max": 10000, "pre": [],
                    "steps": [{"op": "rec", "n": n}, {"op": "rot", "export": True, "mismatch": True}, {"op": "rec", "n": 2}, {"op": "wb"}]})
    m = run_scenarios(chk, "c16", scs, {"C16"}, "c16")
    chk.evaluations = m["events"]
    chk.distinct = m["execs"]
    chk.exhaustive = True
    chk.extra["exhaustive_over"] = "every write/writev of every listed scenario x {ENOSPC, short} (EIO every third) x {single, persistent}"
    return chk.finish()


def replay(path):
    print(Path(path).read_text()[:6000])
    return 0
