"""C03  Reading untrusted bytes is memory-safe, bounded and fails only by exception."""
import json
import os
import random
import resource
import shutil
import signal
import subprocess
import time
from pathlib import Path

import vlib
from vlib import Check
from checks.decoder_common import decoder_models, decoder_traces
from checks.reader_common import make_files, tlc_variants, time_edges

ASAN_ENV = {"ASAN_OPTIONS": "abort_on_error=1:detect_leaks=0:allocator_may_return_null=0:max_allocation_size_mb=256:"
                            "detect_stack_use_after_return=0",
            "UBSAN_OPTIONS": "halt_on_error=1:abort_on_error=1:print_stacktrace=1"}
TOOLS = ["cdns-blocks", "cdns-itemcount", "cdns-items", "cdns-preamble", "cdns-merge"]


def head(major, arg):
    if arg < 24:
        return bytes([major << 5 | arg])
    for ai, n in ((24, 1), (25, 2), (26, 4), (27, 8)):
        if arg < (1 << (8 * n)):
            return bytes([major << 5 | ai]) + arg.to_bytes(n, "big")
    raise ValueError


def handmade(rng, valid_files, tier):
    """Inputs no bounded TLA+ enumeration reaches: nesting up to the input size, length fields up to 2^64-1, random bytes."""
    out = {}
    deep = 200000 if tier == "quick" else 1000000
    out["nest_def_arrays"] = b"\x81" * deep + b"\x00"
    out["nest_indef_arrays"] = b"\x9f" * deep
    out["nest_maps"] = b"\xa1\x00" * (deep // 2) + b"\x00"
    out["nest_tags"] = b"\xc1" * deep + b"\x00"
    out["nest_indef_maps"] = b"\xbf\x00" * (deep // 2)
    # chunked strings whose chunks are chunked strings again (malformed; must be refused without recursing per level)
    out["nest_indef_bstr"] = b"\x5f" * deep
    out["nest_indef_tstr"] = b"\x7f" * deep + b"\x61a" + b"\xff" * deep
    out["nest_indef_bstr_closed"] = b"\x5f" * 3 + b"\x41a" + b"\xff" * 3
    out["file_typeid_nested_chunks"] = b"\x83" + b"\x7f" * deep
    # the same, reachable through the file reader: an unknown member of the file preamble (skip_item)
    pre = b"\x83\x65C-DNS\xa4\x00\x01\x01\x00\x18\x64"
    out["file_unknown_member_deep"] = pre + b"\x81" * deep + b"\x00" + b"\x03\x80\x9f\xff"
    out["file_unknown_member_nested_chunks"] = pre + b"\x5f" * deep + b"\x03\x80\x9f\xff"
    for name, hd in (("bstr", 2), ("tstr", 3), ("arr", 4), ("map", 5)):
        for val in ((1 << 64) - 1, 1 << 63, 1 << 47, 1 << 32, (1 << 32) - 1, 1 << 31):
            out[f"len_{name}_{val:x}"] = head(hd, val) + b"\x01\x02\x03"
    out["indef_bstr_huge_chunk"] = b"\x5f" + head(2, 1 << 47) + b"abc"
    out["empty"] = b""
    for i in range(40 if tier == "quick" else 2000):
        n = rng.choice([1, 2, 3, 8, 33, 200, 3000])
        out[f"random_{i}"] = bytes(rng.getrandbits(8) for _ in range(n))
    # valid files with random byte flips and truncations
    for i in range(60 if tier == "quick" else 3000):
        f = rng.choice(valid_files)
        d = bytearray(f.read_bytes())
        for _ in range(rng.choice([1, 1, 2, 5])):
            p = rng.randrange(len(d))
            d[p] = rng.choice([0, 0xff, 0x9f, 0xbf, 0x5f, 0x7f, 0x1b, 0x3b, 0x5b, 0x9b, 0xbb, d[p] ^ (1 << rng.randrange(8))])
        if rng.random() < 0.3:
            d = d[: rng.randrange(1, len(d) + 1)]
        out[f"flip_{i}"] = bytes(d)
    return out


_remeasure_lock = __import__("threading").Lock()


def run_tool(tools, tool, path, work, idx, _again=0):
    """One tool run.  A run that ended normally but whose CPU time looks long is measured again (up to twice, one at a
    time): on a machine loaded with dozens of sanitizer processes the system time of a 270-byte run was once accounted
    as 3.4 s (a thorough-tier false alarm); the smallest of the measurements is what the input costs."""
    ev = _run_tool_once(tools, tool, path, work, idx)
    if ev["outcome"] in ("ok", "err") and ev["ms"] > 1000 and _again < 2:
        with _remeasure_lock:
            ev2 = run_tool(tools, tool, path, work, idx, _again + 1)
        if ev2["outcome"] == ev["outcome"] and ev2["ms"] < ev["ms"]:
            ev = ev2
    return ev


def _run_tool_once(tools, tool, path, work, idx):
    piped = tool.endswith("|pipe")          # the input arrives through a pipe (/dev/stdin): no size, no seeking
    args = [str(tools / tool.split("|")[0])]
    if tool == "cdns-merge":
        args += ["-o", str(work / f"merge_out_{idx}"), str(path), str(path)]
    elif piped:
        args += ["/dev/stdin"]
    else:
        args += [str(path)]

    def limits():
        resource.setrlimit(resource.RLIMIT_CPU, (20, 20))
        resource.setrlimit(resource.RLIMIT_STACK, (8 << 20, 8 << 20))
        resource.setrlimit(resource.RLIMIT_CORE, (0, 0))

    # the time is the CPU time of the child (user + system): wall time depends on the load of the machine
    feeder = subprocess.Popen(["cat", str(path)], stdout=subprocess.PIPE, stderr=subprocess.DEVNULL) if piped else None
    pr = subprocess.Popen(args, stdin=feeder.stdout if piped else subprocess.DEVNULL, stdout=subprocess.DEVNULL, stderr=subprocess.PIPE,
                          preexec_fn=limits, env=dict(os.environ, **ASAN_ENV))
    if piped:
        feeder.stdout.close()
    errbuf = []
    import threading
    rd = threading.Thread(target=lambda: errbuf.append(pr.stderr.read()), daemon=True)
    rd.start()
    t0 = time.time()
    ru = None
    while True:
        pid, status, ru = os.wait4(pr.pid, os.WNOHANG)
        if pid == pr.pid:
            break
        if time.time() - t0 > 300:          # (the CPU limit of 20 s ends a busy child long before)
            pr.kill()
            pid, status, ru = os.wait4(pr.pid, 0)
            status = None
            break
        time.sleep(0.005)
    rd.join(5)
    if feeder is not None:
        feeder.kill()
        feeder.wait()
    err = (errbuf[0] if errbuf else b"")[-2000:].decode("latin1")
    if status is None:
        rc = 124
    elif os.WIFSIGNALED(status):
        rc = -os.WTERMSIG(status)
    else:
        rc = os.WEXITSTATUS(status)
    pr.returncode = rc
    ms = int((ru.ru_utime + ru.ru_stime) * 1000)
    if rc == -signal.SIGXCPU or rc == -signal.SIGKILL and ms >= 19000:
        rc, err = 124, "timeout"
    if rc == 0:
        outcome = "ok"
    elif rc == 124:
        outcome = "timeout"
    elif rc < 0 or "Sanitizer" in err or "runtime error" in err:
        outcome = "crash"
    else:
        outcome = "err" if rc in (1,) else "crash"
    detail = ""
    if outcome == "crash":
        for line in err.splitlines():
            if "ERROR" in line or "runtime error" in line or "SUMMARY" in line:
                detail = line.strip()[:300]
                break
        detail = detail or f"exit status {rc}"
    p = work / f"merge_out_{idx}"
    if p.exists():
        p.unlink()
    return {"e": "X", "entry": tool, "input": Path(path).name, "outcome": outcome, "ms": ms, "size": Path(path).stat().st_size,
            "detail": detail}


def inproc(work, exe, mode, paths, label):
    """Runs a driver over a list of inputs; after a crash it goes on with the inputs behind the one that crashed."""
    events = []
    rest = list(paths)
    rounds = 0
    while rest and rounds < 400:
        rounds += 1
        lst = work / f"{label}.list"
        lst.write_text("\n".join(str(p) for p in rest) + "\n")
        outp = work / f"{label}.out.ndjson"
        if outp.exists():
            outp.unlink()

        def limits():
            resource.setrlimit(resource.RLIMIT_STACK, (8 << 20, 8 << 20))
            resource.setrlimit(resource.RLIMIT_CORE, (0, 0))
        try:
            r = subprocess.run([str(exe), mode, str(lst), str(outp)], capture_output=True, timeout=3600, preexec_fn=limits,
                               env=dict(os.environ, **ASAN_ENV))
            err = r.stderr[-3000:].decode("latin1")
        except subprocess.TimeoutExpired:
            err = "timeout"
        seen = set()
        crashed = None
        for line in (outp.read_text().splitlines() if outp.exists() else []):
            try:
                ev = json.loads(line)
            except Exception:
                continue
            if ev.get("e") == "X":
                events.append(ev)
                seen.add(ev["input"])
            elif ev.get("e") == "CRASH":
                crashed = ev
        if crashed is None and err != "timeout" and rest and all(Path(p).name in seen for p in rest):
            break
        # find the input during which the process died
        during = (crashed or {}).get("during", {})
        name = during.get("input") or during.get("file", "").split("/")[-1]
        if not name:
            # died without a handler (stack overflow kills the signal handler too): the first input not fully reported
            name = next((Path(p).name for p in rest if Path(p).name not in seen), Path(rest[0]).name)
        detail = ""
        for line in err.splitlines():
            if "ERROR" in line or "runtime error" in line or "SUMMARY" in line:
                detail = line.strip()[:300]
                break
        events.append({"e": "X", "entry": during.get("entry", label), "input": name,
                       "outcome": "timeout" if err == "timeout" else "crash", "ms": 0, "size": 0,
                       "detail": detail or (crashed or {}).get("what", "process died")})
        names = [Path(p).name for p in rest]
        i = names.index(name) if name in names else 0
        rest = rest[i + 1:]
    return events


def run(tier):
    chk = Check("C03", tier, "exploration")
    chk.rule = ("inputs: TLC-generated structure-aware mutants of real files (Rewrite!Mut: length fields up to 2^64-1, "
                "alone and together with huge preamble parameters, out-of-range indices, wrong major types, nesting, boundary integers, malformed names), hand-made extremes "
                "(nesting up to 10^6, every length form, indefinite chunks announcing 2^47 bytes), random bytes, flipped and "
                "truncated valid files; entry points: every CdnsDecoder operation, CdnsReader + read_generic_*, every "
                "string() renderer (in-process, ASan+UBSan, allocation cap 256 MiB, 8 MiB stack) and the five tools as child "
                "processes (ASan+UBSan, CPU limit); TLC checks that every recorded outcome is value / exception / end within "
                "the time bound; distinct = (input, entry point) pairs")
    chk.assumptions = ["AddressSanitizer + UBSan are the instruments for memory errors and undefined arithmetic",
                       "the input space is sampled", "TLC + CommunityModules"]
    decoder_models(chk, tier, selftests=["depth", "reserve", "stale"])
    # streams that end, cannot be opened, or break (an I/O error at a refill: badbit without the end-of-file flag) at every
    # length around the multiples of the window: a value returned then is made of stale / never-filled buffer bytes
    mlen = decoder_traces(chk, tier, {"C03"}, "lengths")
    mlen2 = decoder_traces(chk, tier, {"C03"}, "lengths", scaled=True)
    rng = random.Random(chk.seed * 43 + 3)
    work = vlib.scratch("c03")
    files = make_files(work, rng, 10 if tier == "quick" else 60)
    mutants = tlc_variants(work, files, "mutate", 16 if tier == "quick" else 120, chk.seed)
    mutants += [(f, 1000 + v, b) for f, v, b in tlc_variants(work, files, "names", 6 if tier == "quick" else 40, chk.seed)]
    # every length / count / value field of a few files replaced by a huge number, one at a time
    lf = sorted(files, key=lambda f: f.stat().st_size)[: (3 if tier == "quick" else 12)]
    mutants += [(f, 2000 + v, b) for f, v, b in tlc_variants(work, lf, "lengths", 260 if tier == "quick" else 900, chk.seed)]
    # ... and the same sweep over the length fields with every number of the file preamble huge at the same time
    mutants += [(f, 4000 + v, b) for f, v, b in tlc_variants(work, lf[:2] if tier == "quick" else lf, "lengths2",
                                                             120 if tier == "quick" else 600, chk.seed)]
    # boundary instants: the earliest-time of every block just below 2^63 ticks (for each common rate), offsets unchanged
    edges = time_edges()
    mutants += [(f, 6000 + v, b) for f, v, b in tlc_variants(work, files, "times", len(edges), chk.seed, edges=edges)]
    idir = work / "inputs"
    idir.mkdir()
    paths = []
    for f, v, b in mutants:
        p = idir / f"mut_{f.stem}_{v}"
        p.write_bytes(b)
        paths.append(p)
    for name, b in handmade(rng, files, tier).items():
        p = idir / name
        p.write_bytes(b)
        paths.append(p)
    for f in files[:4]:
        p = idir / f"valid_{f.name}"
        p.write_bytes(f.read_bytes())
        paths.append(p)
    events = []
    # in-process entry points, sharded
    rd = vlib.build_driver("rd_driver", "asan")
    dd = vlib.build_driver("dec_driver", "asan")
    import concurrent.futures as cf
    nsh = vlib.NCPU
    small = [p for p in paths if p.stat().st_size < 300000]
    with cf.ThreadPoolExecutor(nsh) as ex:
        futs = []
        for i in range(nsh):
            sub = work / f"sh{i}"
            sub.mkdir()
            futs.append(ex.submit(inproc, sub, rd, "safety", paths[i::nsh], "reader"))
            futs.append(ex.submit(inproc, sub, dd, "raw", small[i::nsh] + [p for p in paths if p not in small][i::nsh], "decoder"))
        for f in futs:
            events += f.result()
    # the five tools
    tools = vlib.build_tools("asan")
    tsel = paths if tier == "thorough" else paths[:: max(1, len(paths) // 120)] + [p for p in paths if p.name.startswith(("nest", "len_", "file_", "valid"))]
    with cf.ThreadPoolExecutor(nsh) as ex:
        futs = [ex.submit(run_tool, tools, t, p, work, k * 10 + j) for k, p in enumerate(tsel) for j, t in enumerate(TOOLS)]
        # ... and the inspection tools reading the same inputs through a pipe
        futs += [ex.submit(run_tool, tools, t + "|pipe", p, work, k * 10 + 5 + j) for k, p in enumerate(tsel[::2])
                 for j, t in enumerate(["cdns-items", "cdns-itemcount"])]
        for f in futs:
            events.append(f.result())
    # valid files must be processed successfully by every entry point
    for ev in events:
        if ev["input"].startswith("valid_") and ev["outcome"] == "err" and not ev["entry"].startswith(("decoder:", "decoder-fwd:")):
            ev["outcome"] = "rejected-valid-file"
    traces = [work / f"c03.{i}.ndjson" for i in range(4)]
    for i, t in enumerate(traces):
        t.write_text("\n".join(json.dumps(e) for e in events[i::4]) + "\n" + '{"e":"END"}\n')
    merged = vlib.validate_traces("TraceSafety", traces, constants={}, timeout=1200, label="c03tv")
    chk.samples.append({"inputs": len(paths), "example_events": events[:3]})
    chk.add_traces(merged, relevant={"C03"})
    chk.evaluations = len(events)
    chk.distinct = len({(e["input"], e["entry"]) for e in events})
    chk.extra["inputs"] = len(paths)
    chk.extra["tlc_generated_mutants"] = len(mutants)
    shutil.rmtree(work, ignore_errors=True)
    return chk.finish()


def replay(path):
    print(Path(path).read_text()[:6000])
    return 0
