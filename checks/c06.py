"""C06  CBOR encoder emits the RFC 8949 shortest form, independent of buffer position.

(M) MCEncoder: EncoderImpl with a 12-byte buffer, every initial fill, all 18 ops
    with boundary arguments, sequences of calls: invariants C06_NoLoss / RetExact.
    Self-test: seeded deviations of the model must be found (non-vacuity).
(T) enc_driver sweeps on the real encoder (buffer 2048): every fill level x op x
    boundary argument, all 8/16-bit values, random sequences with rotations on fd /
    named / gzip / xz outputs; TLC validates each recorded call with TraceEncoder.
(G) scaled build (buffer 12): the same sweep is exhaustive over all fill levels.
"""
import json
import shutil
from pathlib import Path

import vlib
from vlib import Check, SPEC


def encoder_models(chk, tier, pid="C06"):
    work = vlib.scratch("c06mc")
    steps = 2 if tier == "quick" else 3
    maxstr = 30 if tier == "quick" else 14
    cfg = vlib.make_cfg(work / "MCEncoder.cfg", spec="MCSpec",
                        constants={"B": 12, "Bug": '"none"', "MaxSteps": steps, "MaxStr": maxstr},
                        invariants=["C06_NoLoss", "C06_RetExact", "C06_Fits", "C06_AllDelivered"])
    res, verdict = vlib.model_check("MCEncoder", cfg, workers=vlib.NCPU, timeout=1500, xmx="12g")
    chk.add_model(f"MCEncoder(B=12,steps={steps})", res, verdict)
    for bug in ["thr64_8", "thr16_2", "thrarr_8", "neg_minus", "drop_on_fault"]:
        cfgb = vlib.make_cfg(work / f"MCEncoder_{bug}.cfg", spec="MCSpec",
                             constants={"B": 12, "Bug": f'"{bug}"', "MaxSteps": 1, "MaxStr": 12},
                             invariants=["C06_NoLoss", "C06_RetExact", "C06_Fits", "C06_AllDelivered"])
        res, verdict = vlib.model_check("MCEncoder", cfgb, workers=4, timeout=600)
        chk.add_model(f"MCEncoder[Bug={bug}] (self-test, must fail)", res, verdict, expect="violated")
    shutil.rmtree(work, ignore_errors=True)


def encoder_traces(chk, tier, relevant, scaled=False):
    defs = ("CDNS_VERIF_ENC_BUFFER=12",) if scaled else ()
    exe = vlib.build_driver("enc_driver", "plain", defs)
    work = vlib.scratch("c06tr")
    nsh = vlib.NCPU
    files = [work / f"enc.{i}.ndjson" for i in range(nsh)]
    # scaled runs always use the full sweep: at B=12 it is small and exhaustive over fills
    t = ("thorough" if tier == "thorough" else "scaled") if scaled else tier
    cmds = [[exe, "sweep", t, chk.seed, i, nsh, files[i]] for i in range(nsh)]
    for cmd, rc, out in vlib.run_parallel(cmds, timeout=1500, env={"VERIF_TMP": str(work)}):
        if rc != 0:
            raise vlib.Infra(f"enc_driver failed rc={rc}: {out}")
    merged = vlib.validate_traces("TraceEncoder", files, constants={"B": 12 if scaled else 2048, "Bug": '"none"'},
                                  timeout=1500, label="c06tv")
    if not chk.samples:
        with open(files[0]) as f:
            chk.samples.append({"trace_head": [json.loads(next(f)) for _ in range(4)]})
    chk.add_traces(merged, relevant=relevant)
    if merged["viol"]:
        # keep the traces of violating executions reachable from the replay files (already embedded)
        pass
    shutil.rmtree(work, ignore_errors=True)
    return merged


def run(tier, pid="C06"):
    chk = Check(pid, tier, "model_checking")
    chk.rule = ("model: all (fill 0..B, op, boundary arg) sequences at B=12; traces: one execution = fresh encoder, "
                "fill level, operation(s), close; distinct = executions (each differs in fill/op/arg/sequence)")
    chk.assumptions = ["TLC and the CommunityModules Json/IOUtils modules", "driver logging (harness/enc_driver.cpp)",
                       "python3 zlib/lzma as independent decompressors for gz/xz outputs"]
    encoder_models(chk, tier)
    m1 = encoder_traces(chk, tier, relevant={"C06", "C06,C10"})
    m2 = encoder_traces(chk, tier, relevant={"C06", "C06,C10"}, scaled=True)
    chk.distinct = m1["execs"] + m2["execs"]
    chk.extra["real_buffer_executions"] = m1["execs"]
    chk.extra["scaled_buffer_executions"] = m2["execs"]
    return chk.finish()


def replay(path):
    print(Path(path).read_text()[:4000])
    return 0
