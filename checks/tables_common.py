"""Shared parts of C11 / C19: BlockTable model, TLC-generated histories replayed on real blocks."""
import json
import random
import re
import shutil

import vlib

INVS = ["C19_NoUB", "C11_AddReturns", "C11_Content", "C11_NoDup", "C19_IndexOK"]


def table_models(chk, tier):
    work = vlib.scratch("tblmc")
    maxops = 5 if tier == "quick" else 6
    cfg = vlib.make_cfg(work / "MCBlockTable.cfg", spec="MCSpec",
                        constants={"MaxOps": maxops, "Vals": "{0, 1, 2}", "Emit": "FALSE", "TBug": '"none"', "WithAddValue": "TRUE"},
                        invariants=INVS, properties=["C11_Stable"])
    res, verdict = vlib.model_check("MCBlockTable", cfg, workers=vlib.NCPU, timeout=2400, xmx="16g")
    chk.add_model(f"MCBlockTable(MaxOps={maxops}, 3 slots, 3 values)", res, verdict)
    cfg = vlib.make_cfg(work / "MCBlockTable_bug.cfg", spec="MCSpec",
                        constants={"MaxOps": 5, "Vals": "{0, 1}", "Emit": "FALSE", "TBug": '"shallow_copy"', "WithAddValue": "FALSE"},
                        invariants=INVS, properties=["C11_Stable"])
    res, verdict = vlib.model_check("MCBlockTable", cfg, workers=4, timeout=600)
    chk.add_model("MCBlockTable[TBug=shallow_copy] (self-test, must fail)", res, verdict, expect="violated")
    cfg = vlib.make_cfg(work / "MCBlockTable_bug2.cfg", spec="MCSpec",
                        constants={"MaxOps": 5, "Vals": "{0, 1}", "Emit": "FALSE", "TBug": '"copy_counts_keys"', "WithAddValue": "TRUE"},
                        invariants=INVS, properties=["C11_Stable"])
    res, verdict = vlib.model_check("MCBlockTable", cfg, workers=4, timeout=600)
    chk.add_model("MCBlockTable[TBug=copy_counts_keys] (self-test, must fail)", res, verdict, expect="violated")
    shutil.rmtree(work, ignore_errors=True)


def generated(chk, maxops, vals, limit=None, need_copy=None, addv=False):
    work = vlib.scratch("tblgen")
    cfg = vlib.make_cfg(work / "Gen.cfg", spec="MCSpec",
                        constants={"MaxOps": maxops, "Vals": vals, "Emit": "TRUE", "TBug": '"none"',
                                   "WithAddValue": "TRUE" if addv else "FALSE"},
                        invariants=["EmitDone"])
    res = vlib.run_tlc("MCBlockTable", cfg, workers=8, timeout=1500, xmx="8g")
    if not vlib.tlc_ok(res):
        raise vlib.Infra("history generation failed: " + res["out"][-2000:])
    hs = []
    for line in res["out"].splitlines():
        if line.startswith('<<"HIST"'):
            m = re.match(r'<<"HIST", (".*")>>\s*$', line)
            hs.append(json.loads(json.loads(m.group(1))))
    shutil.rmtree(work, ignore_errors=True)
    chk.states += res["distinct"]
    chk.transitions += res["generated"]
    if need_copy is not None:
        hs = [h for h in hs if any(o["op"] == "copy" for o in h["ops"]) == need_copy]
    total = len(hs)
    if limit and len(hs) > limit:
        hs = random.Random(chk.seed * 31 + 7).sample(hs, limit)
    chk.extra["generated_histories_total"] = chk.extra.get("generated_histories_total", 0) + total
    chk.extra["generated_histories_replayed"] = chk.extra.get("generated_histories_replayed", 0) + len(hs)
    return hs


def growth_histories(rng, n, length):
    """Long add sequences from a large domain with repeats (deque growth, rehash), clears in between."""
    hs = []
    tabs = ["ip", "ct", "name", "sig", "qlist", "qrr", "rrlist", "rr", "mmd"]
    for i in range(n):
        dom = rng.choice([8, 64, 4000])
        ops = []
        for _ in range(length):
            x = rng.random()
            if x < 0.004:
                ops.append({"op": "clear", "t": 1})
            else:
                ops.append({"op": "add", "t": 1, "v": rng.randrange(dom)})
        hs.append({"ops": ops, "all": False, "tab": tabs[i % len(tabs)]})
    return hs


def random_table_histories(rng, n, length):
    """Longer histories over three block slots: additions from a small domain, copies in both directions (construction of
    a dead slot, assignment onto a live one that was used before), clears; the value added right after an assignment is
    often the one the destination added last before it."""
    hs = []
    for _ in range(n):
        alive = {1}
        last = {1: None, 2: None, 3: None}
        dom = rng.choice([3, 4, 6])
        ops = []
        for _ in range(length):
            x = rng.random()
            t = rng.choice(sorted(alive))
            if x < 0.55:
                v = last[t] if (last[t] is not None and rng.random() < 0.35) else rng.randrange(dom)
                ops.append({"op": "add", "t": t, "v": v})
                last[t] = v
            elif x < 0.85:
                d = rng.choice([u for u in (1, 2, 3) if u != t])
                ops.append({"op": "copy", "src": t, "dst": d})
                alive.add(d)
                # (the destination's own "last" is deliberately kept: what it added last before being overwritten)
                if last[d] is None:
                    last[d] = last[t]
            elif x < 0.93:
                ops.append({"op": "clear", "t": t})
            elif len(alive) > 1:
                ops.append({"op": "destroy", "t": t})
                alive.discard(t)
                last[t] = None
        hs.append({"ops": ops})
    return hs


def run_tables(chk, histories, relevant, flavor="asan", label="tbl", handoff=False):
    work = vlib.scratch(label)
    hist = work / "histories.ndjson"
    with open(hist, "w") as f:
        for h in histories:
            f.write(json.dumps(h) + "\n")
    exe = vlib.build_driver("tbl_driver", flavor)
    nsh = vlib.NCPU
    files = [work / f"tbl.{i}.ndjson" for i in range(nsh)]
    cmds = [[exe, "run", hist, i, nsh, files[i]] for i in range(nsh)]
    env = {"VERIF_TMP": str(work), "ASAN_OPTIONS": "abort_on_error=1:detect_leaks=0:allocator_may_return_null=1",
           "UBSAN_OPTIONS": "halt_on_error=1:abort_on_error=1"}
    if handoff:
        env["VERIF_HANDOFF"] = "1"      # every other add runs on a thread of its own, joined before the history goes on
    for cmd, rc, out in vlib.run_parallel(cmds, timeout=1800, env=env):
        if rc != 0:
            raise vlib.Infra(f"tbl_driver failed rc={rc}: {out}")
    merged = vlib.validate_traces("TraceTables", files, constants={"TBug": '"none"'}, timeout=1800, label=label + "tv")
    if histories:
        chk.samples.append({"history": histories[0]["ops"][:12]})
    chk.add_traces(merged, relevant=relevant)
    shutil.rmtree(work, ignore_errors=True)
    return merged


# ------------------------------------------------------------------------------------------
# whole blocks as values (BlockValue.tla): items, the six manners of copying, generic reads
# ------------------------------------------------------------------------------------------
VINVS = ["C19_NoUB", "C19_ReadsOK", "C19_Cursors", "C19_Params"]
ALL_HOWS = '{"cctor", "mctor", "cassign", "massign", "rctor", "rassign"}'


def value_models(chk, tier):
    work = vlib.scratch("valmc")
    maxops = 5 if tier == "quick" else 6
    consts = {"MaxOps": maxops, "Vals": "{0, 1}", "ModelKinds": '{"qr", "aec"}', "ModelHows": ALL_HOWS, "ModelParams": "{0, 1}",
              "Emit": "FALSE"}
    cfg = vlib.make_cfg(work / "MCBlockValue.cfg", spec="MCSpec", constants=dict(consts, VBug='"none"'), invariants=VINVS)
    res, verdict = vlib.model_check("MCBlockValue", cfg, workers=vlib.NCPU, timeout=2400, xmx="16g")
    chk.add_model(f"MCBlockValue(MaxOps={maxops}, 3 slots, 2 values, 2 parameter sets, 6 manners of copying)", res, verdict)
    for bug in ("memberwise", "move_singular", "keep_cursor", "keep_params", "move_no_params"):
        cfg = vlib.make_cfg(work / f"MCBlockValue_{bug}.cfg", spec="MCSpec",
                            constants=dict(consts, MaxOps=5, VBug=f'"{bug}"'), invariants=VINVS)
        res, verdict = vlib.model_check("MCBlockValue", cfg, workers=4, timeout=600)
        chk.add_model(f"MCBlockValue[VBug={bug}] (self-test, must fail)", res, verdict, expect="violated")
    shutil.rmtree(work, ignore_errors=True)


def generated_values(chk, maxops, limit=None):
    work = vlib.scratch("valgen")
    cfg = vlib.make_cfg(work / "Gen.cfg", spec="MCSpec",
                        constants={"MaxOps": maxops, "Vals": "{0, 1}", "ModelKinds": '{"qr", "aec"}', "ModelHows": ALL_HOWS,
                                   "ModelParams": "{0, 1}", "Emit": "TRUE", "VBug": '"none"'},
                        invariants=["EmitDone"])
    res = vlib.run_tlc("MCBlockValue", cfg, workers=8, timeout=1500, xmx="8g")
    if not vlib.tlc_ok(res):
        raise vlib.Infra("block value history generation failed: " + res["out"][-2000:])
    hs = []
    for line in res["out"].splitlines():
        if line.startswith('<<"HIST"'):
            m = re.match(r'<<"HIST", (".*")>>\s*$', line)
            hs.append(json.loads(json.loads(m.group(1))))
    shutil.rmtree(work, ignore_errors=True)
    chk.states += res["distinct"]
    chk.transitions += res["generated"]
    total = len(hs)
    if limit and len(hs) > limit:
        hs = random.Random(chk.seed * 17 + 3).sample(hs, limit)
    # the same histories with malformed messages in the place of query/responses
    hs = hs + [{"ops": [dict(o, k="mm") if o.get("k") == "qr" else o for o in h["ops"]]} for h in hs[::3]]
    # and on plain CdnsBlock objects (what an application fills and hands to write_block): no read API, the copies are
    # observed through further additions and their serialisation
    hs = hs + [{"cls": "block", "ops": [o for o in h["ops"] if o["op"] != "read"]} for h in hs[1::3]]
    chk.extra["generated_value_histories_total"] = chk.extra.get("generated_value_histories_total", 0) + total
    chk.extra["generated_value_histories_replayed"] = chk.extra.get("generated_value_histories_replayed", 0) + len(hs)
    return hs


def random_value_histories(rng, n, length):
    """Longer histories respecting the read contract: a block is read only while unmodified since it was obtained.
    Blocks are filled under one of three parameter sets (given at construction or by set_block_parameters while empty)."""
    hs = []
    for i in range(n):
        cls = "block" if i % 3 == 2 else "blockread"
        alive = {1}
        armed = set()
        nq = {1: 0, 2: 0, 3: 0}
        items = {1: 0, 2: 0, 3: 0}
        ops = []
        dom = rng.choice([3, 6, 40])
        for _ in range(length):
            x = rng.random()
            t = rng.choice(sorted(alive))
            if x < 0.36:
                k = rng.choice(["qr", "qr", "aec", "aec", "mm"])
                ops.append({"op": "item", "t": t, "k": k, "v": rng.randrange(dom)})
                armed.discard(t)
                items[t] += 1
                if k == "qr":
                    nq[t] += 1
            elif x < 0.58:
                d = rng.choice([u for u in (1, 2, 3) if u != t])
                ctor = d not in alive
                hows = ["cctor", "mctor"] if ctor else ["cassign", "massign"]
                if nq[t] > 0:
                    hows.append("rctor" if ctor else "rassign")
                ops.append({"op": "copy", "src": t, "dst": d, "how": rng.choice(hows)})
                alive.add(d)
                armed.add(d)
                nq[d] = nq[t]
                items[d] = items[t]
            elif x < 0.80 and armed and cls == "blockread":
                t = rng.choice(sorted(armed))
                k = rng.choice(["qr", "aec", "aec", "mm"])
                for _ in range(rng.choice([1, 1, 2, 5])):
                    ops.append({"op": "read", "t": t, "k": k})
            elif x < 0.85:
                ops.append({"op": "clear", "t": t})
                armed.discard(t)
                nq[t] = 0
                items[t] = 0
            elif x < 0.91:
                # set_block_parameters: mostly on an empty block (accepted), sometimes on a filled one (must be refused)
                empty = [u for u in sorted(alive) if items[u] == 0]
                t = rng.choice(empty) if empty and rng.random() < 0.85 else t
                ops.append({"op": "setp", "t": t, "p": rng.randrange(3)})
                armed.discard(t)
            elif x < 0.94 and len(alive) < 3:
                d = rng.choice([u for u in (1, 2, 3) if u not in alive])
                ops.append({"op": "new", "t": d, "p": rng.randrange(3)})
                alive.add(d)
                nq[d] = items[d] = 0
            elif x < 0.97 and len(alive) > 1:
                ops.append({"op": "destroy", "t": t})
                alive.discard(t)
                armed.discard(t)
                nq[t] = items[t] = 0
            else:
                ops.append({"op": "ser", "t": t})
        hs.append({"cls": cls, "ops": ops})
    return hs


def param_family():
    """Targeted: a block filled under set a is assigned / moved onto a block that was given set b (both are set #0 of
    their files), then added to, read and serialised - for every manner of copying, both classes, every a != b."""
    hs = []
    for cls in ("blockread", "block"):
        for a in (0, 1, 2):
            for b in (0, 1, 2):
                for how in ("cctor", "mctor", "cassign", "massign", "rctor", "rassign"):
                    ctor = how in ("cctor", "mctor", "rctor")
                    ops = [{"op": "setp", "t": 1, "p": a}]
                    if not ctor:
                        ops.append({"op": "new", "t": 2, "p": b})
                    ops += [{"op": "item", "t": 1, "k": "qr", "v": 1}, {"op": "item", "t": 1, "k": "qr", "v": 4},
                            {"op": "item", "t": 1, "k": "aec", "v": 3},
                            {"op": "copy", "src": 1, "dst": 2, "how": how}]
                    if cls == "blockread":
                        ops += [{"op": "read", "t": 2, "k": "qr"}] * 3
                    ops += [{"op": "ser", "t": 2}, {"op": "item", "t": 2, "k": "qr", "v": 7}, {"op": "item", "t": 2, "k": "mm", "v": 2},
                            {"op": "ser", "t": 2}, {"op": "clear", "t": 2}, {"op": "item", "t": 2, "k": "qr", "v": 3},
                            {"op": "item", "t": 2, "k": "qr", "v": 6}, {"op": "item", "t": 2, "k": "qr", "v": 9}]
                    hs.append({"cls": cls, "ops": ops})
    return hs


def run_values(chk, histories, relevant, flavor="asan", label="val"):
    work = vlib.scratch(label)
    hist = work / "histories.ndjson"
    with open(hist, "w") as f:
        for h in histories:
            f.write(json.dumps(h) + "\n")
    exe = vlib.build_driver("tbl_driver", flavor)
    nsh = vlib.NCPU
    files = [work / f"val.{i}.ndjson" for i in range(nsh)]
    cmds = [[exe, "runblk", hist, i, nsh, files[i]] for i in range(nsh)]
    env = {"VERIF_TMP": str(work), "ASAN_OPTIONS": "abort_on_error=1:detect_leaks=0:allocator_may_return_null=1",
           "UBSAN_OPTIONS": "halt_on_error=1:abort_on_error=1"}
    for cmd, rc, out in vlib.run_parallel(cmds, timeout=1800, env=env):
        if rc != 0:
            raise vlib.Infra(f"tbl_driver runblk failed rc={rc}: {out}")
    merged = vlib.validate_traces("TraceBlockValue", files, constants={"VBug": '"none"'}, timeout=1800, label=label + "tv")
    if histories:
        chk.samples.append({"value_history": histories[0]["ops"][:12]})
    chk.add_traces(merged, relevant=relevant)
    shutil.rmtree(work, ignore_errors=True)
    return merged
