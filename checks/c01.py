"""C01  Export -> file -> read returns exactly the records that were buffered."""
from pathlib import Path

import histgen
import vlib
from vlib import Check
from checks.exporter_common import run_histories, run_interleaved, rng_for


def histories(chk, tier):
    rng = rng_for(chk, 1)
    n = 120 if tier == "quick" else 6000
    hs = []
    for i in range(n):
        comp = ["none", "none", "gz", "xz"][i % 4] if i % 5 == 0 else "none"
        hs.append(histgen.gen_history(rng, nops=rng.choice([6, 15, 30, 45]), comp=comp,
                                      sizes=[1, 2, 3, 5, 50, 10000] if i % 2 else None))
    # blocks larger than the encoder buffer / files larger than the decoder window: few records, large payloads
    big = 4 if tier == "quick" else 40
    for i in range(big):
        h = histgen.gen_history(rng, nops=12, comp="none", nbps=1, sizes=[3, 10000], rot=False)
        for o in h["ops"]:
            if o["op"] == "mm":
                o["r"]["mm_payload"] = [rng.getrandbits(8) for _ in range(rng.choice([3000, 9000, 30000]))]
            if o["op"] == "qr" and rng.random() < 0.5:
                o["r"]["query_name"] = [rng.getrandbits(8) for _ in range(rng.choice([2040, 2049, 5000]))]
        hs.append(h)
    return hs


def run(tier):
    chk = Check("C01", tier, "model_checking")
    chk.rule = ("one execution = one API history (random records over all optional-member subsets, boundary integers, "
                "byte strings, repeated/distinct table values, RR lists; 1-3 parameter sets with random hints, tick rates, "
                "block sizes; explicit block writes, rotations; three compression modes); every closed output is parsed by "
                "TLC (Cbor/CdnsFormat) and its denotation compared with the Exporter model, as is the library reader's dump; "
                "pairs of exporters alive at once and operated alternately on one thread, each validated as if alone")
    chk.assumptions = ["TLC + CommunityModules", "driver logging and JSON<->struct conversion (harness/records.h)",
                       "python3 zlib/lzma for compressed outputs",
                       "statistics passed together with an address event / malformed message that the hints drop are not "
                       "generated (the statement does not say whether they count as supplied)"]
    hs = histories(chk, tier)
    hs = [histgen.add_external_block_ops(rng_for(chk, 300 + k), h) if k % 3 == 0 else h for k, h in enumerate(hs)]
    m = run_histories(chk, hs, {"C01"}, label="c01")
    # the same code with a 12-byte encoder buffer and a 5-byte decoder window: every item of every block and of the
    # reader's input straddles a buffer boundary at some alignment
    rng2 = rng_for(chk, 101)
    hs2 = [histgen.gen_history(rng2, nops=rng2.choice([6, 15, 30]), comp="none", sizes=[1, 2, 3, 10000])
           for _ in range(40 if tier == "quick" else 500)]
    m2 = run_histories(chk, hs2, {"C01"}, label="c01s", sample=False,
                       defs=("CDNS_VERIF_ENC_BUFFER=12", "CDNS_VERIF_DEC_BUFFER=5"))
    chk.extra["scaled_buffer_executions"] = m2["execs"]
    # two exporters (and the readers of their outputs) alive at once and operated alternately on one thread: each behaves
    # as if it were alone
    rng3 = rng_for(chk, 102)
    # (histories 2k and 2k+1 form a pair: both of the same compression in two pairs of three, so that two gzip / two xz
    #  exporters are alive at once and rotate while the other one is in the middle of its stream)
    hs3 = [histgen.gen_history(rng3, nops=rng3.choice([10, 25, 40]),
                               comp=(["none", "gz", "xz"][(i // 2) % 3] if (i // 2) % 3 else ["none", "gz", "xz", "none"][i % 4]), sizes=[1, 2, 3, 10000])
           for i in range(40 if tier == "quick" else 600)]
    hs3 = [histgen.add_external_block_ops(rng3, h) if k % 3 == 0 else h for k, h in enumerate(hs3)]
    m3 = run_interleaved(chk, hs3, {"C01"}, label="c01i")
    # a partial (short) write of the operating system is no failure: an output closed normally after one, without any
    # exception, still reads back as buffered (descriptor outputs, every write system call cut short)
    from checks.writer_common import run_scenarios, exporter_scenarios
    m4 = run_scenarios(chk, "c16", exporter_scenarios(rng3, tier, comps=("none",), kinds=("fd",), recover=True), {"C01"}, "c01f")
    chk.distinct = m["execs"] + m2["execs"] + m3["execs"] + m4["execs"]
    return chk.finish()


def replay(path):
    print(Path(path).read_text()[:6000])
    return 0
