----------------------------- MODULE TraceSafety ----------------------------
(***************************************************************************)
(* C03 at the level at which the specification can state it: the read side *)
(* is TOTAL -- for every input and every entry point the outcome is one of *)
(*   ok  (value / normal exit),  err (std::exception / diagnostic + normal  *)
(*   exit),  end (end-of-input exception)                                   *)
(* within time proportional to the input.  Decoder!ImplOp has exactly       *)
(* these outcomes (MCDecoder checks the model's reservation and recursion   *)
(* ghosts); here every recorded execution of the real code -- sanitizer     *)
(* build, so an out-of-bounds / uninitialised / freed access, undefined     *)
(* arithmetic, stack overflow or an allocation above the cap ends the       *)
(* process -- must show one of them.                                        *)
(***************************************************************************)
EXTENDS Naturals, Sequences, TLC, Json, IOUtils

Tr == ndJsonDeserialize(IOEnv.TRACE)
N  == Len(Tr)
VARIABLES l, viol, execs
tvars == <<l, viol, execs>>
Note(v) == IF Len(viol) < 100 THEN Append(viol, v) ELSE viol

Outcomes == {"ok", "err", "end"}
(* generous linear bound on the CPU time: 2 s + 40 ms per KiB under sanitizers *)
TimeBound(size) == 2000 + 40 * (size \div 1024)

Bad(ev) == ev.outcome \notin Outcomes \/ ev.ms > TimeBound(ev.size)

TraceInit == l = 1 /\ viol = <<>> /\ execs = 0
TX == /\ l <= N /\ Tr[l].e = "X" /\ l' = l + 1 /\ execs' = execs + 1
      /\ viol' = IF Bad(Tr[l])
                 THEN Note([l |-> l, prop |-> "C03", entry |-> Tr[l].entry, input |-> Tr[l].input, outcome |-> Tr[l].outcome,
                            ms |-> Tr[l].ms, detail |-> IF "detail" \in DOMAIN Tr[l] THEN Tr[l].detail ELSE "",
                            what |-> "read-side entry point " \o Tr[l].entry \o " did not end with a value or a std::exception in bounded time: " \o Tr[l].outcome])
                 ELSE viol
TEnd == /\ l <= N /\ Tr[l].e = "END"
        /\ ndJsonSerialize(IOEnv.OUT, <<[execs |-> execs, events |-> N, viol |-> viol, drift |-> <<>>]>>)
        /\ l' = l + 1 /\ UNCHANGED <<viol, execs>>
TraceNext == TX \/ TEnd
TraceSpec == TraceInit /\ [][TraceNext]_tvars
TraceConsumed == TLCGet("stats").diameter - 1 = N
=============================================================================
