----------------------------- MODULE MCTimestamp -----------------------------
(* every (secs, ticks, ref, rate, offset) of a scaled word size: the Impl    *)
(* formulas agree with exact arithmetic wherever the property applies         *)
EXTENDS Timestamp

CONSTANTS MaxTps, MaxSecs

VARIABLES t, ref, tps, off, done
vars == <<t, ref, tps, off, done>>

TS(r) == {[s |-> s, t |-> k] : s \in 0..MaxSecs, k \in 0..(IF r = 0 THEN 0 ELSE r - 1)}
InRange(ts, r) == Inst(ts, r) <= MaxW

MCInit == /\ tps \in 0..MaxTps /\ t \in TS(tps) /\ ref \in TS(tps) /\ off \in Word /\ done = FALSE
          /\ InRange(t, tps) /\ InRange(ref, tps)
MCNext == done = FALSE /\ done' = TRUE /\ UNCHANGED <<t, ref, tps, off>>
MCSpec == MCInit /\ [][MCNext]_vars

C17_Exact   == tps > 0 => ImplOffset(t, ref, tps) = AbsOffset(t, ref, tps)
C17_Inverse == tps > 0 => LET r == ImplAdd(ref, ImplOffset(t, ref, tps), tps)
                          IN ~r.refused /\ r.ts = t
C17_Refuse  == LET r == ImplAdd(ref, off, tps) IN
               IF AbsAddRefused(ref, off, tps) THEN r.refused /\ r.ts = ref
               ELSE (Inst(ref, tps) + off <= MaxW) => (~r.refused /\ r.ts = AbsAdd(ref, off, tps) /\ Normalised(r.ts, tps))
(* no offset whatever makes the addition undefined (the reader adds offsets from the input to instants from the input) *)
C17_NoUB    == ~ImplAdd(ref, off, tps).ub
C17_Order   == tps > 0 => ((t.s < ref.s \/ (t.s = ref.s /\ t.t < ref.t)) <=> Inst(t, tps) < Inst(ref, tps))
=============================================================================
