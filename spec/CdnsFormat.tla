----------------------------- MODULE CdnsFormat -----------------------------
(***************************************************************************)
(* RFC 8618 (C-DNS) over the CBOR trees of module Cbor:                    *)
(*   FileErrs(tree)   schema validation: structure, mandatory members,     *)
(*                    member types, closure of every table index           *)
(*   DenFile(tree)    denotation: the abstract file (preamble, blocks with *)
(*                    fully resolved generic records) -- the independent   *)
(*                    RFC 8618 reader demanded by C01/C02/C04/C13/C18      *)
(*   Unreachable(b)   table entries no stored item refers to (C04)         *)
(* Written from RFC 8618 section 7 and appendix A (map keys) only; it      *)
(* shares nothing with /repo/src/block.cpp or file_preamble.cpp.           *)
(* Unknown map keys are ignored everywhere (RFC 8618 extensibility).       *)
(*                                                                         *)
(* Abstract values: unsigned numbers are Nat256 (module Bytes), signed     *)
(* numbers [neg, a], byte/text strings are byte sequences, absent optional *)
(* members are absent record fields, instants are tick counts (Nat256)     *)
(* relative to the epoch at the block's ticks-per-second.                  *)
(***************************************************************************)
EXTENDS Cbor, FiniteSets, TLC

(* ------------------------- maps with integer keys ---------------------- *)
IsIntNode(n) == n.t \in {MT_UINT, MT_NINT}
KeyOf(n)  == [neg |-> n.t = MT_NINT, a |-> n.a]
K(i)      == [neg |-> FALSE, a |-> FromInt(i)]        \* key i >= 0
KN(i)     == [neg |-> TRUE, a |-> FromInt(i - 1)]     \* key -i (i >= 1)
Pairs(m)  == Len(m.kids) \div 2
MapWF(m)  == /\ m.t = MT_MAP
             /\ \A i \in 1..Pairs(m) : IsIntNode(m.kids[2 * i - 1])
             /\ \A i, j \in 1..Pairs(m) : i # j => KeyOf(m.kids[2 * i - 1]) # KeyOf(m.kids[2 * j - 1])
Keys(m)   == {KeyOf(m.kids[2 * i - 1]) : i \in 1..Pairs(m)}
Has(m, k) == k \in Keys(m)
Get(m, k) == m.kids[2 * (CHOOSE i \in 1..Pairs(m) : KeyOf(m.kids[2 * i - 1]) = k)]

IsUint(n) == n.t = MT_UINT
IsArr(n)  == n.t = MT_ARR
IsMap(n)  == n.t = MT_MAP
IsBool(n) == n.t = MT_SIMPLE /\ n.w = 0 /\ n.a \in {<<20>>, <<21>>}

KindOK(n, kind) ==
    CASE kind = "uint" -> n.t = MT_UINT
      [] kind = "int"  -> IsIntNode(n)
      [] kind = "bstr" -> n.t = MT_BSTR
      [] kind = "tstr" -> n.t = MT_TSTR
      [] kind = "bool" -> IsBool(n)
      [] kind = "map"  -> n.t = MT_MAP
      [] kind = "arr"  -> n.t = MT_ARR
      [] OTHER -> TRUE

KeyName(k) == IF k.neg THEN "-" \o ToString(ToInt(k.a) + 1) ELSE ToString(ToInt(k.a))

(* specs: set of <<key, kind, mandatory>> *)
MapErrs(m, name, specs) ==
    IF ~MapWF(m) THEN {name \o ": not a map with distinct integer keys"}
    ELSE {name \o ": mandatory member " \o KeyName(s[1]) \o " missing" : s \in {x \in specs : x[3] /\ ~Has(m, x[1])}}
         \cup {name \o ": member " \o KeyName(s[1]) \o " is not of type " \o s[2] :
                   s \in {x \in specs : Has(m, x[1]) /\ ~KindOK(Get(m, x[1]), x[2])}}

(* members that are indices into a table of the given length *)
IdxOK(n, len) == IsUint(n) /\ FitsInt(n.a) /\ ToInt(n.a) < len
IdxErrs(m, name, idxs) ==
    IF ~MapWF(m) THEN {}
    ELSE {name \o ": index member " \o KeyName(s[1]) \o " does not address an existing table entry" :
              s \in {x \in idxs : Has(m, x[1]) /\ ~IdxOK(Get(m, x[1]), x[2])}}

ArrOfErrs(a, name, kind) ==
    IF ~IsArr(a) THEN {name \o ": not an array"}
    ELSE IF \A i \in 1..Len(a.kids) : KindOK(a.kids[i], kind) THEN {}
    ELSE {name \o ": array element is not of type " \o kind}

Sub(m, k) == IF MapWF(m) /\ Has(m, k) THEN <<Get(m, k)>> ELSE <<>>      \* 0 or 1 nodes

(* ------------------------------ preamble ------------------------------- *)
HintsErrs(h) == MapErrs(h, "storage-hints", {<<K(0), "uint", TRUE>>, <<K(1), "uint", TRUE>>,
                                             <<K(2), "uint", TRUE>>, <<K(3), "uint", TRUE>>})
SPErrs(sp) ==
    MapErrs(sp, "storage-parameters",
            {<<K(0), "uint", TRUE>>, <<K(1), "uint", TRUE>>, <<K(2), "map", TRUE>>, <<K(3), "arr", TRUE>>,
             <<K(4), "arr", TRUE>>, <<K(5), "uint", FALSE>>, <<K(6), "uint", FALSE>>, <<K(7), "uint", FALSE>>,
             <<K(8), "uint", FALSE>>, <<K(9), "uint", FALSE>>, <<K(10), "tstr", FALSE>>, <<K(11), "tstr", FALSE>>})
    \cup UNION {HintsErrs(x) : x \in {y \in {Sub(sp, K(2))[i] : i \in 1..Len(Sub(sp, K(2)))} : IsMap(y)}}
    \cup UNION {ArrOfErrs(x, "opcodes", "uint") : x \in {Sub(sp, K(3))[i] : i \in 1..Len(Sub(sp, K(3)))}}
    \cup UNION {ArrOfErrs(x, "rr-types", "uint") : x \in {Sub(sp, K(4))[i] : i \in 1..Len(Sub(sp, K(4)))}}
CPErrs(cp) ==
    MapErrs(cp, "collection-parameters",
            {<<K(0), "uint", FALSE>>, <<K(1), "uint", FALSE>>, <<K(2), "uint", FALSE>>, <<K(3), "bool", FALSE>>,
             <<K(4), "arr", FALSE>>, <<K(5), "arr", FALSE>>, <<K(6), "arr", FALSE>>, <<K(7), "tstr", FALSE>>,
             <<K(8), "tstr", FALSE>>, <<K(9), "tstr", FALSE>>})
    \cup UNION {ArrOfErrs(x, "interfaces", "tstr") : x \in {Sub(cp, K(4))[i] : i \in 1..Len(Sub(cp, K(4)))}}
    \cup UNION {ArrOfErrs(x, "server-addresses", "bstr") : x \in {Sub(cp, K(5))[i] : i \in 1..Len(Sub(cp, K(5)))}}
    \cup UNION {ArrOfErrs(x, "vlan-ids", "uint") : x \in {Sub(cp, K(6))[i] : i \in 1..Len(Sub(cp, K(6)))}}
BPErrs(bp) ==
    MapErrs(bp, "block-parameters", {<<K(0), "map", TRUE>>, <<K(1), "map", FALSE>>})
    \cup UNION {SPErrs(x) : x \in {y \in {Sub(bp, K(0))[i] : i \in 1..Len(Sub(bp, K(0)))} : IsMap(y)}}
    \cup UNION {CPErrs(x) : x \in {y \in {Sub(bp, K(1))[i] : i \in 1..Len(Sub(bp, K(1)))} : IsMap(y)}}
PreambleErrs(p) ==
    MapErrs(p, "file-preamble", {<<K(0), "uint", TRUE>>, <<K(1), "uint", TRUE>>, <<K(2), "uint", FALSE>>,
                                 <<K(3), "arr", TRUE>>})
    \cup (IF MapWF(p) /\ Has(p, K(3)) /\ IsArr(Get(p, K(3)))
          THEN (IF Len(Get(p, K(3)).kids) = 0 THEN {"file-preamble: no block parameters"} ELSE {})
               \cup UNION {BPErrs(Get(p, K(3)).kids[i]) : i \in 1..Len(Get(p, K(3)).kids)}
          ELSE {})

NumBPs(p) == IF MapWF(p) /\ Has(p, K(3)) /\ IsArr(Get(p, K(3))) THEN Len(Get(p, K(3)).kids) ELSE 0

(* -------------------------------- blocks ------------------------------- *)
(* table lengths of a block: tl[k] for table key k in 0..8 *)
TablesOf(b) == IF MapWF(b) /\ Has(b, K(2)) /\ MapWF(Get(b, K(2))) THEN <<Get(b, K(2))>> ELSE <<>>
TLen(b, k) == IF TablesOf(b) = <<>> THEN 0
              ELSE LET t == TablesOf(b)[1] IN
                   IF Has(t, K(k)) /\ IsArr(Get(t, K(k))) THEN Len(Get(t, K(k)).kids) ELSE 0
TAB_IP == 0  TAB_CT == 1  TAB_NAME == 2  TAB_SIG == 3  TAB_QLIST == 4
TAB_QRR == 5  TAB_RRLIST == 6  TAB_RR == 7  TAB_MMD == 8

UintKeys(ks) == {<<K(k), "uint", FALSE>> : k \in ks}

SigErrs(s, b) ==
    MapErrs(s, "qr-sig", UintKeys(0..16))
    \cup IdxErrs(s, "qr-sig", {<<K(0), TLen(b, TAB_IP)>>, <<K(8), TLen(b, TAB_CT)>>, <<K(15), TLen(b, TAB_NAME)>>})
QuestionErrs(q, b) ==
    MapErrs(q, "question", {<<K(0), "uint", TRUE>>, <<K(1), "uint", TRUE>>})
    \cup IdxErrs(q, "question", {<<K(0), TLen(b, TAB_NAME)>>, <<K(1), TLen(b, TAB_CT)>>})
RRErrs(r, b) ==
    MapErrs(r, "rr", {<<K(0), "uint", TRUE>>, <<K(1), "uint", TRUE>>, <<K(2), "uint", FALSE>>, <<K(3), "uint", FALSE>>})
    \cup IdxErrs(r, "rr", {<<K(0), TLen(b, TAB_NAME)>>, <<K(1), TLen(b, TAB_CT)>>, <<K(3), TLen(b, TAB_NAME)>>})
MMDErrs(d, b) ==
    MapErrs(d, "malformed-message-data", {<<K(0), "uint", FALSE>>, <<K(1), "uint", FALSE>>, <<K(2), "uint", FALSE>>,
                                          <<K(3), "bstr", FALSE>>})
    \cup IdxErrs(d, "malformed-message-data", {<<K(0), TLen(b, TAB_IP)>>})
ClassTypeErrs(c) == MapErrs(c, "class-type", {<<K(0), "uint", TRUE>>, <<K(1), "uint", TRUE>>})
IdxListErrs(l, name, len) ==
    IF ~IsArr(l) THEN {name \o ": list is not an array"}
    ELSE IF \A i \in 1..Len(l.kids) : IdxOK(l.kids[i], len) THEN {}
    ELSE {name \o ": list element does not address an existing table entry"}

ElemErrs(t, k, F(_)) ==      \* apply F to every element of table k of tables map t
    IF ~Has(t, K(k)) THEN {}
    ELSE IF ~IsArr(Get(t, K(k))) THEN {"block-tables: member " \o ToString(k) \o " is not an array"}
    ELSE UNION {F(Get(t, K(k)).kids[i]) : i \in 1..Len(Get(t, K(k)).kids)}

TablesErrs(t, b) ==
    IF ~MapWF(t) THEN {"block-tables: not a map with distinct integer keys"}
    ELSE LET IpE(x)   == IF x.t = MT_BSTR THEN {} ELSE {"ip-address: not a byte string"}
             NameE(x) == IF x.t = MT_BSTR THEN {} ELSE {"name-rdata: not a byte string"}
             SigE(x)  == SigErrs(x, b)
             QlE(x)   == IdxListErrs(x, "question-list", TLen(b, TAB_QRR))
             QE(x)    == QuestionErrs(x, b)
             RlE(x)   == IdxListErrs(x, "rr-list", TLen(b, TAB_RR))
             RE(x)    == RRErrs(x, b)
             ME(x)    == MMDErrs(x, b)
         IN ElemErrs(t, TAB_IP, IpE) \cup ElemErrs(t, TAB_CT, ClassTypeErrs) \cup ElemErrs(t, TAB_NAME, NameE)
            \cup ElemErrs(t, TAB_SIG, SigE) \cup ElemErrs(t, TAB_QLIST, QlE) \cup ElemErrs(t, TAB_QRR, QE)
            \cup ElemErrs(t, TAB_RRLIST, RlE) \cup ElemErrs(t, TAB_RR, RE) \cup ElemErrs(t, TAB_MMD, ME)

RPDErrs(r, b) == MapErrs(r, "response-processing-data", {<<K(0), "uint", FALSE>>, <<K(1), "uint", FALSE>>})
                 \cup IdxErrs(r, "response-processing-data", {<<K(0), TLen(b, TAB_NAME)>>})
QREErrs(e, b) == MapErrs(e, "query-response-extended", UintKeys(0..3))
                 \cup IdxErrs(e, "query-response-extended",
                              {<<K(0), TLen(b, TAB_QLIST)>>, <<K(1), TLen(b, TAB_RRLIST)>>,
                               <<K(2), TLen(b, TAB_RRLIST)>>, <<K(3), TLen(b, TAB_RRLIST)>>})
QRErrs(q, b) ==
    MapErrs(q, "query-response",
            UintKeys({0, 1, 2, 3, 4, 5, 7, 8, 9}) \cup {<<K(6), "int", FALSE>>, <<K(10), "map", FALSE>>,
            <<K(11), "map", FALSE>>, <<K(12), "map", FALSE>>, <<KN(1), "tstr", FALSE>>, <<KN(2), "tstr", FALSE>>,
            <<KN(3), "int", FALSE>>})
    \cup IdxErrs(q, "query-response", {<<K(1), TLen(b, TAB_IP)>>, <<K(4), TLen(b, TAB_SIG)>>, <<K(7), TLen(b, TAB_NAME)>>})
    \cup UNION {RPDErrs(x, b) : x \in {y \in {Sub(q, K(10))[i] : i \in 1..Len(Sub(q, K(10)))} : IsMap(y)}}
    \cup UNION {QREErrs(x, b) : x \in {y \in {Sub(q, K(11))[i] : i \in 1..Len(Sub(q, K(11)))} : IsMap(y)}}
    \cup UNION {QREErrs(x, b) : x \in {y \in {Sub(q, K(12))[i] : i \in 1..Len(Sub(q, K(12)))} : IsMap(y)}}
AECErrs(a, b) ==
    MapErrs(a, "address-event-count", {<<K(0), "uint", TRUE>>, <<K(1), "uint", FALSE>>, <<K(2), "uint", TRUE>>,
                                       <<K(3), "uint", FALSE>>, <<K(4), "uint", TRUE>>})
    \cup IdxErrs(a, "address-event-count", {<<K(2), TLen(b, TAB_IP)>>})
MMErrs(m, b) ==
    MapErrs(m, "malformed-message", UintKeys(0..3))
    \cup IdxErrs(m, "malformed-message", {<<K(1), TLen(b, TAB_IP)>>, <<K(3), TLen(b, TAB_MMD)>>})

TimestampOK(n) == IsArr(n) /\ Len(n.kids) = 2 /\ IsUint(n.kids[1]) /\ IsUint(n.kids[2])
BlockPreambleErrs(p, nbps) ==
    MapErrs(p, "block-preamble", {<<K(0), "arr", TRUE>>, <<K(1), "uint", FALSE>>})
    \cup (IF MapWF(p) /\ Has(p, K(0)) /\ ~TimestampOK(Get(p, K(0)))
          THEN {"block-preamble: earliest-time is not [uint, uint]"} ELSE {})
    \cup IdxErrs(p, "block-preamble", {<<K(1), nbps>>})
StatsErrs(s) == MapErrs(s, "block-statistics", UintKeys(0..5))

ItemsErrs(b, k, F(_, _)) ==
    IF ~Has(b, K(k)) THEN {}
    ELSE IF ~IsArr(Get(b, K(k))) THEN {"block: item array " \o ToString(k) \o " is not an array"}
    ELSE UNION {F(Get(b, K(k)).kids[i], b) : i \in 1..Len(Get(b, K(k)).kids)}

BlockErrs(b, nbps) ==
    MapErrs(b, "block", {<<K(0), "map", TRUE>>, <<K(1), "map", FALSE>>, <<K(2), "map", FALSE>>, <<K(3), "arr", FALSE>>,
                         <<K(4), "arr", FALSE>>, <<K(5), "arr", FALSE>>})
    \cup (IF ~MapWF(b) THEN {}
          ELSE UNION {BlockPreambleErrs(x, nbps) : x \in {y \in {Sub(b, K(0))[i] : i \in 1..Len(Sub(b, K(0)))} : IsMap(y)}}
               \cup UNION {StatsErrs(x) : x \in {y \in {Sub(b, K(1))[i] : i \in 1..Len(Sub(b, K(1)))} : IsMap(y)}}
               \cup UNION {TablesErrs(x, b) : x \in {y \in {Sub(b, K(2))[i] : i \in 1..Len(Sub(b, K(2)))} : IsMap(y)}}
               \cup ItemsErrs(b, 3, QRErrs) \cup ItemsErrs(b, 4, AECErrs) \cup ItemsErrs(b, 5, MMErrs))

CDNS_ID == <<67, 45, 68, 78, 83>>       \* "C-DNS"

(* all schema errors of a file tree; {} = schema-valid C-DNS document *)
FileErrs(f) ==
    IF ~(IsArr(f) /\ Len(f.kids) = 3) THEN {"file: not a 3-element array"}
    ELSE (IF f.kids[1].t = MT_TSTR /\ f.kids[1].s = CDNS_ID THEN {} ELSE {"file: type id is not the text string C-DNS"})
         \cup (IF IsMap(f.kids[2]) THEN PreambleErrs(f.kids[2]) ELSE {"file: preamble is not a map"})
         \cup (IF ~IsArr(f.kids[3]) THEN {"file: blocks is not an array"}
               ELSE UNION {BlockErrs(f.kids[3].kids[i], NumBPs(f.kids[2])) : i \in 1..Len(f.kids[3].kids)})

(* ------------------------------ denotation ----------------------------- *)
(* only applied to trees with FileErrs = {} *)
Rec(pairs) == [x \in {p[1] : p \in pairs} |-> (CHOOSE p \in pairs : p[1] = x)[2]]
UVal(n)  == n.a
IVal(n)  == [neg |-> n.t = MT_NINT, a |-> n.a]
SVal(n)  == n.s
BVal(n)  == n.a = <<21>>
Opt(m, k, name, F(_)) == IF Has(m, k) THEN {<<name, F(Get(m, k))>>} ELSE {}
Elems(a, F(_)) == [i \in 1..Len(a.kids) |-> F(a.kids[i])]
OptList(m, k, name, F(_)) == IF Has(m, k) THEN {<<name, Elems(Get(m, k), F)>>} ELSE {}

DenHints(h) == [qrh |-> UVal(Get(h, K(0))), sigh |-> UVal(Get(h, K(1))), rrh |-> UVal(Get(h, K(2))),
                odh |-> UVal(Get(h, K(3)))]
DenColl(c) ==
    Rec(Opt(c, K(0), "query_timeout", UVal) \cup Opt(c, K(1), "skew_timeout", UVal) \cup Opt(c, K(2), "snaplen", UVal)
        \cup Opt(c, K(3), "promisc", BVal)
        \cup {<<"interfaces", IF Has(c, K(4)) THEN Elems(Get(c, K(4)), SVal) ELSE <<>> >>}
        \cup {<<"server_address", IF Has(c, K(5)) THEN Elems(Get(c, K(5)), SVal) ELSE <<>> >>}
        \cup {<<"vlan_ids", IF Has(c, K(6)) THEN Elems(Get(c, K(6)), UVal) ELSE <<>> >>}
        \cup Opt(c, K(7), "filter", SVal) \cup Opt(c, K(8), "generator_id", SVal) \cup Opt(c, K(9), "host_id", SVal))
DenBP(bp) ==
    LET sp == Get(bp, K(0))
        h  == DenHints(Get(sp, K(2)))
    IN Rec({<<"tps", UVal(Get(sp, K(0)))>>, <<"max", UVal(Get(sp, K(1)))>>, <<"qrh", h.qrh>>, <<"sigh", h.sigh>>,
            <<"rrh", h.rrh>>, <<"odh", h.odh>>,
            <<"opcodes", Elems(Get(sp, K(3)), UVal)>>, <<"rr_types", Elems(Get(sp, K(4)), UVal)>>}
           \cup Opt(sp, K(5), "storage_flags", UVal)
           \cup Opt(sp, K(6), "client_address_prefix_ipv4", UVal) \cup Opt(sp, K(7), "client_address_prefix_ipv6", UVal)
           \cup Opt(sp, K(8), "server_address_prefix_ipv4", UVal) \cup Opt(sp, K(9), "server_address_prefix_ipv6", UVal)
           \cup Opt(sp, K(10), "sampling_method", SVal) \cup Opt(sp, K(11), "anonymization_method", SVal)
           \cup Opt(bp, K(1), "coll", DenColl))
DenPreamble(p) ==
    Rec({<<"major", UVal(Get(p, K(0)))>>, <<"minor", UVal(Get(p, K(1)))>>, <<"bps", Elems(Get(p, K(3)), DenBP)>>}
        \cup Opt(p, K(2), "private", UVal))

(* table access in block b *)
Tab(b, k)      == Get(Get(b, K(2)), K(k)).kids
TabAt(b, k, n) == Tab(b, k)[ToInt(n.a) + 1]
DenCT(c)  == [type |-> UVal(Get(c, K(0))), class |-> UVal(Get(c, K(1)))]
DenQuestion(b, q) == [name |-> SVal(TabAt(b, TAB_NAME, Get(q, K(0)))), ct |-> DenCT(TabAt(b, TAB_CT, Get(q, K(1))))]
DenRR(b, r) ==
    LET Rd(n) == SVal(TabAt(b, TAB_NAME, n)) IN
    Rec({<<"name", SVal(TabAt(b, TAB_NAME, Get(r, K(0))))>>, <<"ct", DenCT(TabAt(b, TAB_CT, Get(r, K(1))))>>}
        \cup Opt(r, K(2), "ttl", UVal) \cup Opt(r, K(3), "rdata", Rd))
DenQList(b, n)  == LET l == TabAt(b, TAB_QLIST, n) Q(i) == DenQuestion(b, TabAt(b, TAB_QRR, i)) IN Elems(l, Q)
DenRRList(b, n) == LET l == TabAt(b, TAB_RRLIST, n) R(i) == DenRR(b, TabAt(b, TAB_RR, i)) IN Elems(l, R)

(* instant = earliest-time + offset, as ticks since the epoch *)
Ticks(secs, ticks, tps) == Add(Mul(secs, tps), ticks)

DenSig(b, s) ==
    LET Ip(n) == SVal(TabAt(b, TAB_IP, n))
        Ct(n) == DenCT(TabAt(b, TAB_CT, n))
        Nm(n) == SVal(TabAt(b, TAB_NAME, n))
    IN Opt(s, K(0), "server_ip", Ip) \cup Opt(s, K(1), "server_port", UVal) \cup Opt(s, K(2), "qr_transport_flags", UVal)
       \cup Opt(s, K(3), "qr_type", UVal) \cup Opt(s, K(4), "qr_sig_flags", UVal) \cup Opt(s, K(5), "query_opcode", UVal)
       \cup Opt(s, K(6), "qr_dns_flags", UVal) \cup Opt(s, K(7), "query_rcode", UVal) \cup Opt(s, K(8), "query_classtype", Ct)
       \cup Opt(s, K(9), "query_qdcount", UVal) \cup Opt(s, K(10), "query_ancount", UVal)
       \cup Opt(s, K(11), "query_nscount", UVal) \cup Opt(s, K(12), "query_arcount", UVal)
       \cup Opt(s, K(13), "query_edns_version", UVal) \cup Opt(s, K(14), "query_udp_size", UVal)
       \cup Opt(s, K(15), "query_opt_rdata", Nm) \cup Opt(s, K(16), "response_rcode", UVal)

DenQR(b, q, earliest, tps) ==
    LET Ip(n) == SVal(TabAt(b, TAB_IP, n))
        Nm(n) == SVal(TabAt(b, TAB_NAME, n))
        Ts(n) == Add(earliest, UVal(n))
        Ql(n) == DenQList(b, n)
        Rl(n) == DenRRList(b, n)
        Ext(e, pfx) == Opt(e, K(0), pfx \o "_questions", Ql) \cup Opt(e, K(1), pfx \o "_answers", Rl)
                       \cup Opt(e, K(2), pfx \o "_authority", Rl) \cup Opt(e, K(3), pfx \o "_additional", Rl)
    IN Rec(Opt(q, K(0), "ts", Ts) \cup Opt(q, K(1), "client_ip", Ip) \cup Opt(q, K(2), "client_port", UVal)
           \cup Opt(q, K(3), "transaction_id", UVal)
           \cup (IF Has(q, K(4)) THEN DenSig(b, TabAt(b, TAB_SIG, Get(q, K(4)))) ELSE {})
           \cup Opt(q, K(5), "client_hoplimit", UVal) \cup Opt(q, K(6), "response_delay", IVal)
           \cup Opt(q, K(7), "query_name", Nm) \cup Opt(q, K(8), "query_size", UVal) \cup Opt(q, K(9), "response_size", UVal)
           \cup (IF Has(q, K(10)) THEN Opt(Get(q, K(10)), K(0), "bailiwick", Nm)
                                       \cup Opt(Get(q, K(10)), K(1), "processing_flags", UVal) ELSE {})
           \cup (IF Has(q, K(11)) THEN Ext(Get(q, K(11)), "query") ELSE {})
           \cup (IF Has(q, K(12)) THEN Ext(Get(q, K(12)), "response") ELSE {})
           \cup Opt(q, KN(1), "asn", SVal) \cup Opt(q, KN(2), "country_code", SVal) \cup Opt(q, KN(3), "round_trip_time", IVal))

DenAEC(b, a) ==
    Rec({<<"ae_type", UVal(Get(a, K(0)))>>, <<"ip_address", SVal(TabAt(b, TAB_IP, Get(a, K(2))))>>,
         <<"count", UVal(Get(a, K(4)))>>}
        \cup Opt(a, K(1), "ae_code", UVal) \cup Opt(a, K(3), "ae_transport_flags", UVal))

DenMM(b, m, earliest) ==
    LET Ip(n) == SVal(TabAt(b, TAB_IP, n))
        Ts(n) == Add(earliest, UVal(n))
        d == IF Has(m, K(3)) THEN <<TabAt(b, TAB_MMD, Get(m, K(3)))>> ELSE <<>>
    IN Rec(Opt(m, K(0), "ts", Ts) \cup Opt(m, K(1), "client_ip", Ip) \cup Opt(m, K(2), "client_port", UVal)
           \cup (IF d = <<>> THEN {}
                 ELSE Opt(d[1], K(0), "server_ip", Ip) \cup Opt(d[1], K(1), "server_port", UVal)
                      \cup Opt(d[1], K(2), "mm_transport_flags", UVal) \cup Opt(d[1], K(3), "mm_payload", SVal)))

DenStats(s) ==
    Rec(Opt(s, K(0), "processed_messages", UVal) \cup Opt(s, K(1), "qr_data_items", UVal)
        \cup Opt(s, K(2), "unmatched_queries", UVal) \cup Opt(s, K(3), "unmatched_responses", UVal)
        \cup Opt(s, K(4), "discarded_opcode", UVal) \cup Opt(s, K(5), "malformed_items", UVal))

ItemsOf(b, k) == IF Has(b, K(k)) THEN Get(b, K(k)).kids ELSE <<>>

(* bps: the denoted block-parameter sets of the file (for ticks-per-second) *)
DenBlock(b, bps) ==
    LET pre == Get(b, K(0))
        bpi == IF Has(pre, K(1)) THEN ToInt(Get(pre, K(1)).a) ELSE 0
        tps == bps[bpi + 1].tps
        et  == Get(pre, K(0))
        earliest == Ticks(et.kids[1].a, et.kids[2].a, tps)
        qs  == ItemsOf(b, 3)
        as  == ItemsOf(b, 4)
        ms  == ItemsOf(b, 5)
    IN Rec({<<"bpi", bpi>>, <<"earliest", earliest>>, <<"eticks", et.kids[2].a>>,
            <<"qrs", [i \in 1..Len(qs) |-> DenQR(b, qs[i], earliest, tps)]>>,
            <<"aecs", [i \in 1..Len(as) |-> DenAEC(b, as[i])]>>,
            <<"mms", [i \in 1..Len(ms) |-> DenMM(b, ms[i], earliest)]>>}
           \cup Opt(b, K(1), "stats", DenStats))

DenFile(f) ==
    LET pre == DenPreamble(f.kids[2]) IN
    [preamble |-> pre,
     blocks   |-> [i \in 1..Len(f.kids[3].kids) |-> DenBlock(f.kids[3].kids[i], pre.bps)]]

(* ------------------------- hints / reachability (C04) ------------------ *)
(* indices of table k that some stored item or reachable entry refers to *)
RefSet(nodes, key) == {ToInt(Get(n, key).a) : n \in {x \in nodes : Has(x, key)}}
Range(s) == {s[i] : i \in 1..Len(s)}
UsedEntries(b) ==
    LET qs   == Range(ItemsOf(b, 3))
        as   == Range(ItemsOf(b, 4))
        ms   == Range(ItemsOf(b, 5))
        sigI == RefSet(qs, K(4))
        sigs == {Tab(b, TAB_SIG)[i + 1] : i \in sigI}
        mmdI == RefSet(ms, K(3))
        mmds == {Tab(b, TAB_MMD)[i + 1] : i \in mmdI}
        rpds == {Get(q, K(10)) : q \in {x \in qs : Has(x, K(10))}}
        exts == {Get(q, K(11)) : q \in {x \in qs : Has(x, K(11))}} \cup {Get(q, K(12)) : q \in {x \in qs : Has(x, K(12))}}
        qlI  == RefSet(exts, K(0))
        rlI  == RefSet(exts, K(1)) \cup RefSet(exts, K(2)) \cup RefSet(exts, K(3))
        qrrI == UNION {{ToInt(x.a) : x \in Range(Tab(b, TAB_QLIST)[i + 1].kids)} : i \in qlI}
        rrI  == UNION {{ToInt(x.a) : x \in Range(Tab(b, TAB_RRLIST)[i + 1].kids)} : i \in rlI}
        qrrs == {Tab(b, TAB_QRR)[i + 1] : i \in qrrI}
        rrs  == {Tab(b, TAB_RR)[i + 1] : i \in rrI}
        ipI  == RefSet(qs, K(1)) \cup RefSet(as, K(2)) \cup RefSet(ms, K(1)) \cup RefSet(sigs, K(0)) \cup RefSet(mmds, K(0))
        ctI  == RefSet(sigs, K(8)) \cup RefSet(qrrs, K(1)) \cup RefSet(rrs, K(1))
        nmI  == RefSet(qs, K(7)) \cup RefSet(sigs, K(15)) \cup RefSet(rpds, K(0)) \cup RefSet(qrrs, K(0))
                \cup RefSet(rrs, K(0)) \cup RefSet(rrs, K(3))
    IN [k \in 0..8 |-> CASE k = TAB_IP -> ipI [] k = TAB_CT -> ctI [] k = TAB_NAME -> nmI [] k = TAB_SIG -> sigI
                         [] k = TAB_QLIST -> qlI [] k = TAB_QRR -> qrrI [] k = TAB_RRLIST -> rlI
                         [] k = TAB_RR -> rrI [] OTHER -> mmdI]
(* the messages of FileErrs that report an index that addresses no table entry (referential closure, C11) *)
ClosureMsgs ==
    {nm \o ": index member " \o ToString(k) \o " does not address an existing table entry" :
         nm \in {"qr-sig", "question", "rr", "malformed-message-data", "response-processing-data", "query-response-extended",
                 "query-response", "address-event-count", "malformed-message"}, k \in 0..20}
    \cup {nm \o ": list element does not address an existing table entry" : nm \in {"qlist", "rrlist", "question-list", "rr-list"}}
ClosureErrs(errs) == errs \cap ClosureMsgs

(* table entries no stored item refers to, as <<table, index>> *)
Unreachable(b) ==
    LET u == UsedEntries(b) IN
    UNION {{<<k, i>> : i \in {j \in 0..(TLen(b, k) - 1) : j \notin u[k]}} : k \in 0..8}

(* duplicate entries in a table (C11: no table holds two equal entries) *)
DupTables(b) ==
    {k \in 0..8 : \E i, j \in 1..TLen(b, k) : i < j /\ SameValue(Tab(b, k)[i], Tab(b, k)[j])}
=============================================================================
