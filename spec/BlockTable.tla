----------------------------- MODULE BlockTable -----------------------------
(***************************************************************************)
(* Block tables of c-dns (src/block_table.h, the nine tables of CdnsBlock) *)
(* and the value semantics of blocks (C11, C19).                           *)
(*                                                                         *)
(* Abs : a table is a sequence of values; Add(v) returns the position of   *)
(*       v, appending it when new, so a table filled by Add alone has no   *)
(*       duplicates.  AddValue(v) (BlockTable::add_value, used by the      *)
(*       reader for every entry of a file and open to applications)        *)
(*       appends unconditionally; a value stored more than once is found   *)
(*       at its LAST position.  A copy is a new table with the same        *)
(*       sequence and nothing else in common.                              *)
(* Impl: the table also holds a reverse index whose keys are REFERENCES to *)
(*       stored elements (KeyRef): [own, pos] = element pos of the storage *)
(*       of table `own`, with the generation `gen` of that storage.  A     *)
(*       lookup dereferences the keys it compares with; dereferencing a    *)
(*       key whose storage was destroyed or cleared since is undefined     *)
(*       behaviour (ub).  TBug = "shallow_copy" is the pinned code: copying*)
(*       a table copies the keys as they are, i.e. still referring to the  *)
(*       source's storage.  The repaired code re-keys the copy.            *)
(*       TBug = "copy_counts_keys": the copy numbers its keys by the       *)
(*       number of keys recorded so far (wrong behind a repeated value).   *)
(***************************************************************************)
EXTENDS Integers, Sequences, FiniteSets, TLC

CONSTANT TBug

(* ------------------------------- Abs ----------------------------------- *)
PosOf(items, v) == IF \E i \in 1..Len(items) : items[i] = v
                   THEN (CHOOSE i \in 1..Len(items) : items[i] = v /\ \A j \in (i + 1)..Len(items) : items[j] # v) - 1 ELSE -1
AbsAdd(items, v) == IF PosOf(items, v) >= 0 THEN [items |-> items, idx |-> PosOf(items, v)]
                    ELSE [items |-> Append(items, v), idx |-> Len(items)]
AbsAddValue(items, v) == [items |-> Append(items, v), idx |-> Len(items)]
NoDup(items) == \A i, j \in 1..Len(items) : i # j => items[i] # items[j]

(* ------------------------------- Impl ---------------------------------- *)
(* heap: table id -> [alive, gen, items, index]; index = set of [own, gen, pos, idx] *)
NewTable == [alive |-> TRUE, gen |-> 0, items |-> <<>>, index |-> {}]

Dangling(heap, k) == ~heap[k.own].alive \/ heap[k.own].gen # k.gen \/ k.pos > Len(heap[k.own].items)
Deref(heap, k) == heap[k.own].items[k.pos]

(* find(): hash lookup compares the probe with stored keys through their references.           *)
(* Which keys are compared depends on hash buckets; in the worst case (and on every hit) the    *)
(* matching one, so any dangling key may be dereferenced.                                       *)
ImplFind(heap, t, v) ==
    LET idx == heap[t].index IN
    IF \E k \in idx : Dangling(heap, k) THEN [ub |-> TRUE, idx |-> -1]
    ELSE IF \E k \in idx : Deref(heap, k) = v
         THEN [ub |-> FALSE, idx |-> (CHOOSE k \in idx : Deref(heap, k) = v).idx]
         ELSE [ub |-> FALSE, idx |-> -1]

ImplAdd(heap, t, v) ==
    LET f == ImplFind(heap, t, v) IN
    IF f.ub THEN [heap |-> heap, idx |-> -1, ub |-> TRUE]
    ELSE IF f.idx >= 0 THEN [heap |-> heap, idx |-> f.idx, ub |-> FALSE]
    ELSE LET n == Len(heap[t].items) IN
         [heap |-> [heap EXCEPT ![t].items = Append(@, v),
                                ![t].index = @ \cup {[own |-> t, gen |-> heap[t].gen, pos |-> n + 1, idx |-> n]}],
          idx |-> n, ub |-> FALSE]

(* add_value(): append; `indexes_[key] = n` re-uses the entry of an equal key (found by a lookup) or makes one *)
ImplAddValue(heap, t, v) ==
    LET f == ImplFind(heap, t, v)
        n == Len(heap[t].items)
    IN IF f.ub THEN [heap |-> heap, idx |-> -1, ub |-> TRUE]
       ELSE IF f.idx >= 0
            THEN LET k == CHOOSE x \in heap[t].index : Deref(heap, x) = v IN
                 [heap |-> [heap EXCEPT ![t].items = Append(@, v),
                                        ![t].index = (@ \ {k}) \cup {[k EXCEPT !.idx = n]}],
                  idx |-> n, ub |-> FALSE]
            ELSE [heap |-> [heap EXCEPT ![t].items = Append(@, v),
                                        ![t].index = @ \cup {[own |-> t, gen |-> heap[t].gen, pos |-> n + 1, idx |-> n]}],
                  idx |-> n, ub |-> FALSE]

ImplClear(heap, t) == [heap EXCEPT ![t].items = <<>>, ![t].index = {}, ![t].gen = @ + 1]
ImplDestroy(heap, t) == [heap EXCEPT ![t].alive = FALSE, ![t].items = <<>>, ![t].index = {}]

(* copy construction / assignment of a table: dst becomes a copy of src *)
(* the repaired code walks the copied items in order: `indexes_[key(item)] = pos++`, so the last position of a *)
(* repeated value wins and the key refers to the first stored occurrence                                       *)
RECURSIVE Reindex(_, _, _, _, _)
Reindex(items, own, gen, i, acc) ==
    IF i > Len(items) THEN acc
    ELSE LET same == {k \in acc : items[k.pos] = items[i]} IN
         IF same = {} THEN Reindex(items, own, gen, i + 1,
                                   acc \cup {[own |-> own, gen |-> gen, pos |-> i,
                                              idx |-> IF TBug = "copy_counts_keys" THEN Cardinality(acc) ELSE i - 1]})
         ELSE LET k == CHOOSE x \in same : TRUE IN
              Reindex(items, own, gen, i + 1,
                      IF TBug = "copy_counts_keys" THEN acc            \* emplace keeps the first entry
                      ELSE (acc \ {k}) \cup {[k EXCEPT !.idx = i - 1]})
ImplCopy(heap, src, dst) ==
    [heap EXCEPT ![dst] = [alive |-> TRUE, gen |-> heap[dst].gen + 1,
                           items |-> heap[src].items,
                           index |-> IF TBug = "shallow_copy" THEN heap[src].index
                                     ELSE Reindex(heap[src].items, dst, heap[dst].gen + 1, 1, {})]]
=============================================================================
