----------------------------- MODULE BlockTable -----------------------------
(***************************************************************************)
(* Block tables of c-dns (src/block_table.h, the nine tables of CdnsBlock) *)
(* and the value semantics of blocks (C11, C19).                           *)
(*                                                                         *)
(* Abs : a table is a sequence of values without duplicates; Add(v)        *)
(*       returns the position of v, appending it when new; a copy is a new *)
(*       table with the same sequence and nothing else in common.          *)
(* Impl: the table also holds a reverse index whose keys are REFERENCES to *)
(*       stored elements (KeyRef): [own, pos] = element pos of the storage *)
(*       of table `own`, with the generation `gen` of that storage.  A     *)
(*       lookup dereferences the keys it compares with; dereferencing a    *)
(*       key whose storage was destroyed or cleared since is undefined     *)
(*       behaviour (ub).  TBug = "shallow_copy" is the pinned code: copying*)
(*       a table copies the keys as they are, i.e. still referring to the  *)
(*       source's storage.  The repaired code re-keys the copy.            *)
(***************************************************************************)
EXTENDS Integers, Sequences, FiniteSets, TLC

CONSTANT TBug

(* ------------------------------- Abs ----------------------------------- *)
PosOf(items, v) == IF \E i \in 1..Len(items) : items[i] = v
                   THEN (CHOOSE i \in 1..Len(items) : items[i] = v) - 1 ELSE -1
AbsAdd(items, v) == IF PosOf(items, v) >= 0 THEN [items |-> items, idx |-> PosOf(items, v)]
                    ELSE [items |-> Append(items, v), idx |-> Len(items)]
NoDup(items) == \A i, j \in 1..Len(items) : i # j => items[i] # items[j]

(* ------------------------------- Impl ---------------------------------- *)
(* heap: table id -> [alive, gen, items, index]; index = set of [own, gen, pos, idx] *)
NewTable == [alive |-> TRUE, gen |-> 0, items |-> <<>>, index |-> {}]

Dangling(heap, k) == ~heap[k.own].alive \/ heap[k.own].gen # k.gen \/ k.pos > Len(heap[k.own].items)
Deref(heap, k) == heap[k.own].items[k.pos]

(* find(): hash lookup compares the probe with stored keys through their references.           *)
(* Which keys are compared depends on hash buckets; in the worst case (and on every hit) the    *)
(* matching one, so any dangling key may be dereferenced.                                       *)
ImplFind(heap, t, v) ==
    LET idx == heap[t].index IN
    IF \E k \in idx : Dangling(heap, k) THEN [ub |-> TRUE, idx |-> -1]
    ELSE IF \E k \in idx : Deref(heap, k) = v
         THEN [ub |-> FALSE, idx |-> (CHOOSE k \in idx : Deref(heap, k) = v).idx]
         ELSE [ub |-> FALSE, idx |-> -1]

ImplAdd(heap, t, v) ==
    LET f == ImplFind(heap, t, v) IN
    IF f.ub THEN [heap |-> heap, idx |-> -1, ub |-> TRUE]
    ELSE IF f.idx >= 0 THEN [heap |-> heap, idx |-> f.idx, ub |-> FALSE]
    ELSE LET n == Len(heap[t].items) IN
         [heap |-> [heap EXCEPT ![t].items = Append(@, v),
                                ![t].index = @ \cup {[own |-> t, gen |-> heap[t].gen, pos |-> n + 1, idx |-> n]}],
          idx |-> n, ub |-> FALSE]

ImplClear(heap, t) == [heap EXCEPT ![t].items = <<>>, ![t].index = {}, ![t].gen = @ + 1]
ImplDestroy(heap, t) == [heap EXCEPT ![t].alive = FALSE, ![t].items = <<>>, ![t].index = {}]

(* copy construction / assignment of a table: dst becomes a copy of src *)
ImplCopy(heap, src, dst) ==
    [heap EXCEPT ![dst] = [alive |-> TRUE, gen |-> IF heap[dst].alive THEN heap[dst].gen + 1 ELSE heap[dst].gen + 1,
                           items |-> heap[src].items,
                           index |-> IF TBug = "shallow_copy" THEN heap[src].index
                                     ELSE {[own |-> dst, gen |-> heap[dst].gen + 1, pos |-> k.pos, idx |-> k.idx] :
                                               k \in heap[src].index}]]
=============================================================================
