------------------------------ MODULE MCReader ------------------------------
(***************************************************************************)
(* Every file of up to MaxBlocks blocks (indefinite- and definite-length   *)
(* blocks array), cut at every token boundary and inside every token, read *)
(* with up to MaxBlocks + 3 read_block() calls: the reader's observable    *)
(* behaviour equals Reader!Abs (C05: exactly the complete blocks, then     *)
(* end-of-input; complete input: eof, sticky).                             *)
(***************************************************************************)
EXTENDS Reader

CONSTANT MaxBlocks

VARIABLES inp, r, j, good
vars == <<inp, r, j, good>>

Inputs == {i \in [f : [indef : BOOLEAN, n : 0..MaxBlocks], cut : 0..(MaxBlocks + 2), part : BOOLEAN] : WellFormedInput(i)}

MCInit == /\ inp \in Inputs /\ r = ImplOpen(inp) /\ j = 0
          /\ good = (ImplOpen(inp).ok = AbsOpen(inp))

Call == /\ r.ok /\ j < MaxBlocks + 3
        /\ LET c == ImplCall(inp, r) IN
           /\ r' = c.r /\ j' = j + 1
           /\ good' = (good /\ c.out = AbsCall(inp, j + 1))
        /\ UNCHANGED inp

MCSpec == MCInit /\ [][Call]_vars

C05_ReaderExact == good
(* the counters of the code never run ahead of the input *)
ReaderBounds == r.read <= inp.f.n /\ r.pos <= Total(inp.f)
=============================================================================
