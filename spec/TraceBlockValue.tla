-------------------------- MODULE TraceBlockValue ---------------------------
(***************************************************************************)
(* Trace validation of real CdnsBlockRead objects against BlockValue!Abs.  *)
(* One execution = one history of item additions, copies in one of six     *)
(* manners, clear / destroy of sources and generic reads on the copies     *)
(* (harness/tbl_driver.cpp, mode runblk).  Events:                         *)
(*   R                                                                     *)
(*   I  t k v n full   item v of kind k added to slot t, n items of kind k, *)
(*                     full = what add_*() returned (block full under its  *)
(*                     own parameters)                                     *)
(*   NB t p            a new block constructed with parameter set p        *)
(*   SP t p ret        set_block_parameters(p) on slot t returned ret      *)
(*   CL t / DS t                                                           *)
(*   CP src dst how counts foreign                                         *)
(*   RD t k end v c ok rc oc  one read_generic_<k>(): end flag, id, count, *)
(*                     whether all other members (times exact to the tick) *)
(*                     equal those of item v; rc / oc: the record has a    *)
(*                     response-rcode / query-opcode (stored or not        *)
(*                     according to the hints of the block's parameters)   *)
(*   S  t p q a m      the block written through the real exporter (with   *)
(*                     parameter set p in the file preamble) and read      *)
(*                     back: [id, rc, oc] of q, ids of m, [key, count] of a*)
(***************************************************************************)
EXTENDS BlockValue, Json, IOUtils

Tr == ndJsonDeserialize(IOEnv.TRACE)
N  == Len(Tr)

VARIABLES l, val, cur, lost, viol, execs, mf, st
tvars == <<l, val, cur, lost, viol, execs, mf, st>>
(* st: the block statistics a slot's block holds (processed_messages; 0 = none): those most recently supplied with an item  *)
(* since the block was made or cleared; a copy holds what its source holds - nothing of what the target held before.        *)
(* mf: slots whose block was the source of a MOVE and was not overwritten, re-made or destroyed since.  The property    *)
(* promises nothing about a moved-from block (the pinned code copies, a real move empties it): nothing observed on it,  *)
(* or on a block obtained from it, is judged.                                                                            *)

Note(v) == IF Len(viol) < 40 THEN Append(viol, v) ELSE viol
Slots == 1..3

TraceInit == /\ l = 1 /\ val = [t \in Slots |-> EmptyVal] /\ cur = [t \in Slots |-> NoCursor]
             /\ lost = TRUE /\ viol = <<>> /\ execs = 0 /\ mf = {} /\ st = [t \in Slots |-> 0]

TReset == /\ l <= N /\ Tr[l].e = "R"
          /\ val' = [t \in Slots |-> EmptyVal] /\ cur' = [t \in Slots |-> NoCursor]
          /\ lost' = FALSE /\ execs' = execs + 1 /\ l' = l + 1 /\ mf' = {} /\ st' = [t \in Slots |-> 0]
          /\ UNCHANGED viol

Bad(what, ev) == /\ viol' = Note([l |-> l, prop |-> "C19", what |-> what, event |-> ev])
                 /\ lost' = TRUE

TItem == /\ l <= N /\ Tr[l].e = "I"
         /\ l' = l + 1 /\ UNCHANGED <<execs, cur, mf>>
         /\ st' = IF "sv" \in DOMAIN Tr[l] /\ Tr[l].sv > 0 THEN [st EXCEPT ![Tr[l].t] = Tr[l].sv] ELSE st
         /\ IF lost \/ Tr[l].t \in mf THEN UNCHANGED <<val, lost, viol>>
            ELSE LET ev == Tr[l]
                     nv == AbsAddItem(val[ev.t], ev.k, ev.v)
                 IN IF "st" \in DOMAIN ev /\ ev.st # st'[ev.t]
                    THEN Bad("after adding an item the block holds other statistics than those most recently supplied to it", ev)
                         /\ UNCHANGED val
                    ELSE IF ev.n # Count(nv, ev.k)
                    THEN Bad("adding an item to a block gave another item count than on a fresh block with that content", ev)
                         /\ UNCHANGED val
                    ELSE IF ev.full # AbsFull(nv)
                    THEN Bad("adding an item reported the block full / not full differently from a fresh block with that content and those parameters", ev)
                         /\ UNCHANGED val
                    ELSE IF "fe" \in DOMAIN ev /\ ~ev.fe
                    THEN Bad("after adding an item the block's earliest time differs from that of a freshly built block given the same items in the same order", ev)
                         /\ UNCHANGED val
                    ELSE val' = [val EXCEPT ![ev.t] = nv] /\ UNCHANGED <<lost, viol>>

TNew == /\ l <= N /\ Tr[l].e = "NB"
        /\ l' = l + 1 /\ UNCHANGED <<execs, lost, viol>> /\ mf' = mf \ {Tr[l].t} /\ st' = [st EXCEPT ![Tr[l].t] = 0]
        /\ val' = [val EXCEPT ![Tr[l].t] = EmptyValP(Tr[l].p)]
        /\ cur' = [cur EXCEPT ![Tr[l].t] = NoCursor]

TSetP == /\ l <= N /\ Tr[l].e = "SP"
         /\ l' = l + 1 /\ UNCHANGED <<execs, cur, mf, st>>
         /\ IF lost \/ Tr[l].t \in mf THEN UNCHANGED <<val, lost, viol>>
            ELSE LET ev == Tr[l]
                     allowed == Counts(val[ev.t]) = <<0, 0, 0>>
                 IN IF ev.ret # allowed
                    THEN Bad("set_block_parameters accepted / refused differently from a fresh block with that content", ev) /\ UNCHANGED val
                    ELSE /\ val' = IF allowed THEN [val EXCEPT ![ev.t].p = ev.p] ELSE val
                         /\ UNCHANGED <<lost, viol>>

TClear == /\ l <= N /\ Tr[l].e \in {"CL", "DS"}
          /\ l' = l + 1 /\ UNCHANGED <<execs, lost, viol, cur>>
          /\ mf' = IF Tr[l].e = "DS" THEN mf \ {Tr[l].t} ELSE mf
          /\ st' = [st EXCEPT ![Tr[l].t] = 0]
          /\ val' = [val EXCEPT ![Tr[l].t] = IF Tr[l].e = "CL" THEN EmptyValP(@.p) ELSE EmptyVal]

TCopy == /\ l <= N /\ Tr[l].e = "CP"
         /\ l' = l + 1 /\ UNCHANGED execs
         /\ mf' = IF Tr[l].src \in mf THEN mf \cup {Tr[l].dst}
                  ELSE IF Tr[l].how \in {"mctor", "massign"} THEN (mf \ {Tr[l].dst}) \cup {Tr[l].src} ELSE mf \ {Tr[l].dst}
         /\ st' = [st EXCEPT ![Tr[l].dst] = st[Tr[l].src]]
         /\ IF lost \/ Tr[l].src \in mf THEN UNCHANGED <<val, cur, lost, viol>>
            ELSE LET ev == Tr[l] IN
                 IF ev.counts # Counts(val[ev.src])
                 THEN Bad("copied block does not hold the source's items", ev) /\ UNCHANGED <<val, cur>>
                 ELSE IF "st" \in DOMAIN ev /\ ev.st # st[ev.src]
                 THEN Bad("copied block does not hold the source's block statistics (those of the source, present or absent - not what the target held before)", ev)
                      /\ UNCHANGED <<val, cur>>
                 ELSE /\ val' = [val EXCEPT ![ev.dst] = val[ev.src]]
                      /\ cur' = [cur EXCEPT ![ev.dst] = NoCursor]
                      /\ UNCHANGED lost
                      /\ viol' = IF ev.foreign = 0 THEN viol
                                  ELSE Note([l |-> l, prop |-> "C19", event |-> ev,
                                             what |-> "lookup keys of the copied block still refer to the source's storage"])

TRead == /\ l <= N /\ Tr[l].e = "RD"
         /\ l' = l + 1 /\ UNCHANGED <<execs, val, mf, st>>
         /\ IF lost \/ Tr[l].t \in mf THEN UNCHANGED <<cur, lost, viol>>
            ELSE LET ev == Tr[l] IN
                 IF AbsReadOK(val[ev.t], cur[ev.t], ev.k, ev.end, ev.v, ev.c) /\ ev.ok
                    /\ ((ev.k = "qr" /\ ~ev.end) => (ev.rc = RcExp(ev.v, val[ev.t].p) /\ ev.oc = OcExp(ev.v, val[ev.t].p)))
                 THEN cur' = [cur EXCEPT ![ev.t] = AbsReadNext(@, ev.k, ev.end, ev.v)] /\ UNCHANGED <<lost, viol>>
                 ELSE Bad("reading the copied block gives something else than reading a fresh block with that content", ev)
                      /\ UNCHANGED cur

SerOK(v, ev) == /\ ev.ok /\ ev.m = v.m
                /\ ("fe" \in DOMAIN ev => ev.fe)       \* earliest time = that of a freshly built block given the same items in the same order
                /\ Len(ev.q) = Len(v.q)
                /\ \A i \in 1..Len(v.q) : ev.q[i] = <<v.q[i], RcExp(v.q[i], v.p), OcExp(v.q[i], v.p)>>
                /\ Len(ev.a) = Len(v.a)
                /\ {<<ev.a[i][1], ev.a[i][2]>> : i \in 1..Len(ev.a)} = AecPairs(v)

TSer == /\ l <= N /\ Tr[l].e = "S"
        /\ l' = l + 1 /\ UNCHANGED <<execs, val, cur, mf, st>>
        /\ IF lost \/ Tr[l].t \in mf \/ Tr[l].p # val[Tr[l].t].p \/ SerOK(val[Tr[l].t], Tr[l]) THEN UNCHANGED <<lost, viol>>
           ELSE Bad("the serialisation of the block differs from that of a fresh block with that content", Tr[l])

TCrash == /\ l <= N /\ Tr[l].e = "CRASH"
          /\ l' = l + 1 /\ UNCHANGED <<execs, val, cur, mf, st>>
          /\ Bad("implementation crashed (sanitizer report or signal): " \o Tr[l].what, Tr[l])

TEnd == /\ l <= N /\ Tr[l].e = "END"
        /\ ndJsonSerialize(IOEnv.OUT, <<[execs |-> execs, events |-> N, viol |-> viol, drift |-> <<>>]>>)
        /\ l' = l + 1 /\ UNCHANGED <<val, cur, lost, viol, execs, mf, st>>

TraceNext == TReset \/ TItem \/ TNew \/ TSetP \/ TClear \/ TCopy \/ TRead \/ TSer \/ TCrash \/ TEnd
TraceSpec == TraceInit /\ [][TraceNext]_tvars
TraceConsumed == TLCGet("stats").diameter - 1 = N
=============================================================================
