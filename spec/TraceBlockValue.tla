-------------------------- MODULE TraceBlockValue ---------------------------
(***************************************************************************)
(* Trace validation of real CdnsBlockRead objects against BlockValue!Abs.  *)
(* One execution = one history of item additions, copies in one of six     *)
(* manners, clear / destroy of sources and generic reads on the copies     *)
(* (harness/tbl_driver.cpp, mode runblk).  Events:                         *)
(*   R                                                                     *)
(*   I  t k v n        item v of kind k added to slot t, n items of kind k *)
(*   CL t / DS t                                                           *)
(*   CP src dst how counts foreign                                         *)
(*   RD t k end v c ok one read_generic_<k>(): end flag, id, count and     *)
(*                     whether all derived members equal those of item v   *)
(*   S  t q a m        the block written through the real exporter and     *)
(*                     read back: ids of q and m, [key, count] pairs of a  *)
(***************************************************************************)
EXTENDS BlockValue, Json, IOUtils

Tr == ndJsonDeserialize(IOEnv.TRACE)
N  == Len(Tr)

VARIABLES l, val, cur, lost, viol, execs
tvars == <<l, val, cur, lost, viol, execs>>

Note(v) == IF Len(viol) < 40 THEN Append(viol, v) ELSE viol
Slots == 1..3

TraceInit == /\ l = 1 /\ val = [t \in Slots |-> EmptyVal] /\ cur = [t \in Slots |-> NoCursor]
             /\ lost = TRUE /\ viol = <<>> /\ execs = 0

TReset == /\ l <= N /\ Tr[l].e = "R"
          /\ val' = [t \in Slots |-> EmptyVal] /\ cur' = [t \in Slots |-> NoCursor]
          /\ lost' = FALSE /\ execs' = execs + 1 /\ l' = l + 1
          /\ UNCHANGED viol

Bad(what, ev) == /\ viol' = Note([l |-> l, prop |-> "C19", what |-> what, event |-> ev])
                 /\ lost' = TRUE

TItem == /\ l <= N /\ Tr[l].e = "I"
         /\ l' = l + 1 /\ UNCHANGED <<execs, cur>>
         /\ IF lost THEN UNCHANGED <<val, lost, viol>>
            ELSE LET ev == Tr[l]
                     nv == AbsAddItem(val[ev.t], ev.k, ev.v)
                 IN IF ev.n = Count(nv, ev.k)
                    THEN val' = [val EXCEPT ![ev.t] = nv] /\ UNCHANGED <<lost, viol>>
                    ELSE Bad("adding an item to a block gave another item count than on a fresh block with that content", ev)
                         /\ UNCHANGED val

TClear == /\ l <= N /\ Tr[l].e \in {"CL", "DS"}
          /\ l' = l + 1 /\ UNCHANGED <<execs, lost, viol, cur>>
          /\ val' = [val EXCEPT ![Tr[l].t] = EmptyVal]

TCopy == /\ l <= N /\ Tr[l].e = "CP"
         /\ l' = l + 1 /\ UNCHANGED execs
         /\ IF lost THEN UNCHANGED <<val, cur, lost, viol>>
            ELSE LET ev == Tr[l] IN
                 IF ev.counts # Counts(val[ev.src])
                 THEN Bad("copied block does not hold the source's items", ev) /\ UNCHANGED <<val, cur>>
                 ELSE /\ val' = [val EXCEPT ![ev.dst] = val[ev.src]]
                      /\ cur' = [cur EXCEPT ![ev.dst] = NoCursor]
                      /\ UNCHANGED lost
                      /\ viol' = IF ev.foreign = 0 THEN viol
                                  ELSE Note([l |-> l, prop |-> "C19", event |-> ev,
                                             what |-> "lookup keys of the copied block still refer to the source's storage"])

TRead == /\ l <= N /\ Tr[l].e = "RD"
         /\ l' = l + 1 /\ UNCHANGED <<execs, val>>
         /\ IF lost THEN UNCHANGED <<cur, lost, viol>>
            ELSE LET ev == Tr[l] IN
                 IF AbsReadOK(val[ev.t], cur[ev.t], ev.k, ev.end, ev.v, ev.c) /\ ev.ok
                 THEN cur' = [cur EXCEPT ![ev.t] = AbsReadNext(@, ev.k, ev.end, ev.v)] /\ UNCHANGED <<lost, viol>>
                 ELSE Bad("reading the copied block gives something else than reading a fresh block with that content", ev)
                      /\ UNCHANGED cur

SerOK(v, ev) == /\ ev.ok /\ ev.q = v.q /\ ev.m = v.m
                /\ Len(ev.a) = Len(v.a)
                /\ {<<ev.a[i][1], ev.a[i][2]>> : i \in 1..Len(ev.a)} = AecPairs(v)

TSer == /\ l <= N /\ Tr[l].e = "S"
        /\ l' = l + 1 /\ UNCHANGED <<execs, val, cur>>
        /\ IF lost \/ SerOK(val[Tr[l].t], Tr[l]) THEN UNCHANGED <<lost, viol>>
           ELSE Bad("the serialisation of the block differs from that of a fresh block with that content", Tr[l])

TCrash == /\ l <= N /\ Tr[l].e = "CRASH"
          /\ l' = l + 1 /\ UNCHANGED <<execs, val, cur>>
          /\ Bad("implementation crashed (sanitizer report or signal): " \o Tr[l].what, Tr[l])

TEnd == /\ l <= N /\ Tr[l].e = "END"
        /\ ndJsonSerialize(IOEnv.OUT, <<[execs |-> execs, events |-> N, viol |-> viol, drift |-> <<>>]>>)
        /\ l' = l + 1 /\ UNCHANGED <<val, cur, lost, viol, execs>>

TraceNext == TReset \/ TItem \/ TClear \/ TCopy \/ TRead \/ TSer \/ TCrash \/ TEnd
TraceSpec == TraceInit /\ [][TraceNext]_tvars
TraceConsumed == TLCGet("stats").diameter - 1 = N
=============================================================================
