---------------------------- MODULE TraceExporter ---------------------------
(***************************************************************************)
(* Trace validation of the real CdnsExporter / CdnsReader against the      *)
(* Exporter state machine and the independent RFC 8949/8618 semantics      *)
(* (Cbor, CdnsFormat).                                                     *)
(*  "C"   one public call: the model takes the same step; return value     *)
(*        (zero / non-zero, index, bool) and all counters must agree (C12) *)
(*  "OUT" an output was closed: its real (decompressed) bytes are parsed   *)
(*        by TLC; they must be                                             *)
(*          empty iff no block was written, else one well-formed,          *)
(*          schema-valid, index-closed document              (C02, C13)    *)
(*          whose denotation equals the blocks/records the model holds     *)
(*          for that output                                  (C01, C13)    *)
(*          with nothing a cleared hint excludes, no unreferenced table    *)
(*          entry, the applied hints in the preamble         (C04)         *)
(*          the preamble as supplied                         (C09)         *)
(*          no duplicate table entries                       (C11)         *)
(*          earliest-time <= every stored instant            (C17)         *)
(*          size = sum of the reported byte counts           (C10)         *)
(*        and the library's own reader must return the same  (C01, C09)    *)
(* Each mismatch is recorded with the properties it concerns.              *)
(***************************************************************************)
EXTENDS Exporter, RawBlock, Json, IOUtils

Tr == ndJsonDeserialize(IOEnv.TRACE)
N  == Len(Tr)

VARIABLES l, ex, lost, viol, execs, flags
tvars == <<l, ex, lost, viol, execs, flags>>

Note(v) == IF Len(viol) < 60 THEN Append(viol, v) ELSE viol
(* violation records carry the flags of the execution (e.g. a rotation whose argument kind did not match) *)
Flagged(v) == IF flags = {} THEN v ELSE v @@ [flags |-> flags]
Notes(vs) == LET RECURSIVE A(_, _)
                 A(acc, i) == IF i > Len(vs) \/ Len(acc) >= 60 THEN acc ELSE A(Append(acc, Flagged(vs[i])), i + 1)
             IN A(viol, 1)

Seg(s) == IF "l" \in DOMAIN s THEN s.l ELSE Fill(s.b, s.n)
RECURSIVE ExpandFrom(_, _)
ExpandFrom(segs, i) == IF i > Len(segs) THEN <<>> ELSE Seg(segs[i]) \o ExpandFrom(segs, i + 1)
Expand(segs) == ExpandFrom(segs, 1)

(* supplied preamble -> the form Den / the reader dump use *)
ListOr(c, f) == IF f \in DOMAIN c THEN c[f] ELSE <<>>
NormColl(c) == [f \in (DOMAIN c \cup {"interfaces", "server_address", "vlan_ids"}) |->
                   IF f \in {"interfaces", "server_address", "vlan_ids"} THEN ListOr(c, f) ELSE c[f]]
NormBP(bp) == [f \in DOMAIN bp |-> IF f = "coll" THEN NormColl(bp[f]) ELSE bp[f]]
PreOf(p) == [f \in (DOMAIN p \ {"bps"}) |-> p[f]]
ExpPreamble(o) == [f \in (DOMAIN o.pre \cup {"bps"}) |->
                      IF f = "bps" THEN [i \in 1..Len(o.bps) |-> NormBP(o.bps[i])] ELSE o.pre[f]]

StatsOf(ev) == IF "stats" \in DOMAIN ev.op THEN <<ev.op.stats>> ELSE NoStats

TraceInit == /\ l = 1 /\ ex = ExInit([major |-> <<1>>, minor |-> <<>>], <<>>) /\ lost = TRUE
             /\ viol = <<>> /\ execs = 0 /\ flags = {}

TReset ==
    /\ l <= N /\ Tr[l].e = "R"
    /\ ex' = ExInit(PreOf(Tr[l].preamble), Tr[l].preamble.bps)
    /\ lost' = FALSE /\ execs' = execs + 1 /\ l' = l + 1 /\ flags' = {}
    /\ UNCHANGED viol

Cnt(e) == [items |-> ItemCount(e.blk), qr |-> Len(e.blk.qrs), aec |-> Len(e.blk.aecs), mm |-> Len(e.blk.mms),
           bw |-> e.bw, active |-> e.active]

(* the model's step for a logged call: [s, nz (return value non-zero?), exact (exact return value or -1)] *)
ModelStep(e, op) ==
    CASE op.op = "qr"  -> LET r == StepQR(e, op.r, IF "stats" \in DOMAIN op THEN <<op.stats>> ELSE NoStats)
                          IN [s |-> r.s, nz |-> r.wrote, exact |-> -1]
      [] op.op = "aec" -> LET r == StepAEC(e, op.r, IF "stats" \in DOMAIN op THEN <<op.stats>> ELSE NoStats)
                          IN [s |-> r.s, nz |-> r.wrote, exact |-> -1]
      [] op.op = "mm"  -> LET r == StepMM(e, op.r, IF "stats" \in DOMAIN op THEN <<op.stats>> ELSE NoStats)
                          IN [s |-> r.s, nz |-> r.wrote, exact |-> -1]
      [] op.op = "wb"  -> LET r == StepWB(e) IN [s |-> r.s, nz |-> r.wrote, exact |-> -1]
      [] op.op = "rot" -> LET r == StepRot(e, op.export) IN [s |-> r.s, nz |-> r.wrote, exact |-> -1]
      [] op.op = "addbp" -> LET r == StepAddBP(e, op.bp) IN [s |-> r.s, nz |-> r.idx > 0, exact |-> r.idx]
      [] op.op = "setbp" -> LET r == StepSetBP(e, op.i) IN [s |-> r.s, nz |-> r.ok, exact |-> IF r.ok THEN 1 ELSE 0]
      [] op.op = "xnew" -> [s |-> XNew(e, op.i), nz |-> FALSE, exact |-> 0]
      [] op.op = "xset" -> LET r == XSet(e, op.i) IN [s |-> r.s, nz |-> r.ok, exact |-> IF r.ok THEN 1 ELSE 0]
      [] op.op = "xclear" -> [s |-> XClear(e), nz |-> FALSE, exact |-> 0]
      [] op.op \in {"xqr", "xaec", "xmm"} ->
            LET r == XAdd(e, IF op.op = "xqr" THEN "qr" ELSE IF op.op = "xaec" THEN "aec" ELSE "mm", op.r,
                          IF "stats" \in DOMAIN op THEN <<op.stats>> ELSE NoStats)
            IN [s |-> r.s, nz |-> r.full, exact |-> IF r.full THEN 1 ELSE 0]
      [] op.op = "xwb" -> LET r == XWrite(e) IN [s |-> r.s, nz |-> r.wrote, exact |-> -1]
      [] op.op = "editbp" -> [s |-> StepEditBP(e, op.bp), nz |-> FALSE, exact |-> 0]
      [] op.op = "wbx" -> \* write_block(block) with a block built through the raw add_* API; the buffered block is untouched
            LET b == RawModelBlock(op, e.bps) IN
            IF ItemCount(b) = 0 THEN [s |-> e, nz |-> FALSE, exact |-> -1]
            ELSE [s |-> [e EXCEPT !.cur = Append(@, b), !.bw = @ + 1, !.hdr = IF e.bw = 0 THEN Len(e.bps) ELSE @,
                                   !.hb = IF e.bw = 0 THEN e.bps ELSE @],
                  nz |-> TRUE, exact |-> -1]
      [] OTHER -> [s |-> e, nz |-> FALSE, exact |-> 0]

ByteCounted(op) == op.op \in {"qr", "aec", "mm", "wb", "rot", "wbx", "xwb"}
XCnt(e) == [items |-> ItemCount(e.xb), qr |-> Len(e.xb.qrs), aec |-> Len(e.xb.aecs), mm |-> Len(e.xb.mms), bpi |-> e.xb.bpi]

TCall ==
    /\ l <= N /\ Tr[l].e = "C"
    /\ l' = l + 1 /\ UNCHANGED execs
    /\ flags' = IF "mismatch" \in DOMAIN Tr[l].op /\ Tr[l].op.mismatch THEN flags \cup {"kindmismatch"} ELSE flags
    /\ IF lost THEN UNCHANGED <<ex, lost, viol>>
       ELSE LET ev == Tr[l]
                \* byte counts returned by buffer/write/rotate calls belong to the output open at the call
                e0 == IF ByteCounted(ev.op) THEN [ex EXCEPT !.rep = @ + ev.ret] ELSE ex
                m  == ModelStep(e0, ev.op)
                retOK == /\ "exc" \notin DOMAIN ev
                         /\ (ev.ret # 0) = m.nz
                         /\ (m.exact >= 0 => ev.ret = m.exact)
                cntOK == ev.cnt = Cnt(m.s) /\ ("xcnt" \in DOMAIN ev => ev.xcnt = XCnt(m.s))
            IN IF retOK /\ cntOK
               THEN ex' = m.s /\ UNCHANGED <<lost, viol>>
               ELSE /\ viol' = Note(Flagged([l |-> l,
                                     \* a kept block that states another parameter set than the one whose hints are applied to it: C04 too
                                     \* ... or a block that took in an address event / malformed message the hints in force exclude
                                     prop |-> IF ("xcnt" \in DOMAIN ev /\ ev.xcnt.bpi # XCnt(m.s).bpi)
                                                 \/ ev.cnt.aec > Cnt(m.s).aec \/ ev.cnt.mm > Cnt(m.s).mm
                                                 \/ ("xcnt" \in DOMAIN ev /\ (ev.xcnt.aec > XCnt(m.s).aec \/ ev.xcnt.mm > XCnt(m.s).mm))
                                              THEN "C04,C12,C13,C01" ELSE "C12,C13,C01",
                                     what |-> IF "xcnt" \in DOMAIN ev /\ ev.xcnt.bpi # XCnt(m.s).bpi
                                              THEN "call " \o ev.op.op \o ": the block kept by the application states another Block parameters set than the one it is filled under"
                                              ELSE "call " \o ev.op.op \o ": return value or counters differ from the exporter state machine",
                                     ret |-> ev.ret, want_nonzero |-> m.nz, cnt |-> ev.cnt, want_cnt |-> Cnt(m.s),
                                     exc |-> IF "exc" \in DOMAIN ev THEN ev.exc ELSE ""]))
                    /\ lost' = TRUE /\ UNCHANGED ex

(* ----------------------------- closed output --------------------------- *)
ExpBlockQRs(b) == b.qrs
ExpStats(b) == b.stats

(* per-block comparison of the denotation d with the model block b: sequence of violation records *)
BlockViol(d, b, tree, bp, who, ln) ==
    LET tps == bp.tps
        h   == HintsOf(bp)
        cntOK == Len(d.qrs) = Len(b.qrs) /\ Len(d.mms) = Len(b.mms) /\ Len(d.aecs) = Len(b.aecs) /\ d.bpi = b.bpi
        \* a member the hints exclude: of the query/response itself, or (ttl, rdata) of a resource record in one of its sections
        ExtraRR(dq, bq) == \E f \in (RRLists \cap DOMAIN dq) \cap DOMAIN bq :
                              /\ Len(dq[f]) = Len(bq[f])
                              /\ \E j \in 1..Len(dq[f]) : ~(DOMAIN dq[f][j] \subseteq DOMAIN bq[f][j])
        extraQ == {i \in 1..Len(d.qrs) : ~(DOMAIN d.qrs[i] \subseteq DOMAIN b.qrs[i]) \/ ExtraRR(d.qrs[i], b.qrs[i])}
        badQ == {i \in 1..Len(d.qrs) : d.qrs[i] # b.qrs[i]}
        badM == {i \in 1..Len(d.mms) : d.mms[i] # b.mms[i]}
        aecOK == {d.aecs[i] : i \in 1..Len(d.aecs)} = AecSet(b)
        statsOK == IF b.stats = NoStats THEN "stats" \notin DOMAIN d
                   ELSE "stats" \in DOMAIN d /\ d.stats = b.stats[1]
    IN IF ~cntOK THEN
          \* more malformed messages / address events than the hints in force let through: C04 as well
          <<[l |-> ln, prop |-> IF Len(d.mms) > Len(b.mms) \/ Len(d.aecs) > Len(b.aecs) THEN "C01,C12,C13,C04" ELSE "C01,C12,C13",
             what |-> who \o ": block holds a different number of records (or another parameter index) than were buffered into it",
             got |-> <<Len(d.qrs), Len(d.aecs), Len(d.mms), d.bpi>>, want |-> <<Len(b.qrs), Len(b.aecs), Len(b.mms), b.bpi>>]>>
       ELSE (IF extraQ # {} THEN
               <<[l |-> ln, prop |-> "C04,C01", what |-> who \o ": a query/response (or a resource record of one of its sections) carries a member its storage hint excludes",
                  got |-> DOMAIN d.qrs[CHOOSE i \in extraQ : TRUE], want |-> DOMAIN b.qrs[CHOOSE i \in extraQ : TRUE]]>>
             ELSE IF badQ # {} THEN
               <<[l |-> ln, prop |-> "C01,C13,C17", what |-> who \o ": query/response differs from the record buffered",
                  index |-> CHOOSE i \in badQ : TRUE,
                  got |-> d.qrs[CHOOSE i \in badQ : TRUE], want |-> b.qrs[CHOOSE i \in badQ : TRUE]]>>
             ELSE <<>>)
            \o (IF badM # {} THEN
               <<[l |-> ln, prop |-> "C01,C13,C17", what |-> who \o ": malformed message differs from the record buffered",
                  got |-> d.mms[CHOOSE i \in badM : TRUE], want |-> b.mms[CHOOSE i \in badM : TRUE]]>> ELSE <<>>)
            \o (IF ~aecOK THEN
               <<[l |-> ln, prop |-> "C01,C13", what |-> who \o ": address event keys/counts differ from what was buffered",
                  got |-> {d.aecs[i] : i \in 1..Len(d.aecs)}, want |-> AecSet(b)]>> ELSE <<>>)
            \o (IF ~statsOK THEN
               <<[l |-> ln, prop |-> "C01", what |-> who \o ": block statistics differ from those most recently supplied",
                  want |-> b.stats]>> ELSE <<>>)

(* checks that need the tree of the block (independent parse only) *)
TreeViol(bt, d, ln) ==
    (IF Unreachable(bt) # {} THEN
        \* (an entry nothing of this block refers to: either an excluded value was stored, C04, or the table was not empty
        \*  when the block was started, C11 "nothing of the previous block's tables is visible in the next one")
        <<[l |-> ln, prop |-> "C04,C11", what |-> "block table entry that no stored item refers to (table, index)",
           got |-> Unreachable(bt)]>> ELSE <<>>)
    \o (IF DupTables(bt) # {} THEN
        <<[l |-> ln, prop |-> "C11", what |-> "block table with two equal entries", got |-> DupTables(bt)]>> ELSE <<>>)
    \o (IF \E i \in 1..Len(d.qrs) : "ts" \in DOMAIN d.qrs[i] /\ Lt(d.qrs[i].ts, d.earliest)
        THEN <<[l |-> ln, prop |-> "C17", what |-> "stored instant earlier than the block's earliest-time"]>> ELSE <<>>)

RECURSIVE BlocksViol(_, _, _, _, _, _)
BlocksViol(dblocks, mblocks, bps, who, ln, i) ==
    IF i > Len(mblocks) THEN <<>>
    ELSE BlockViol(dblocks[i], mblocks[i], 0, mblocks[i].bp, who, ln)
         \o BlocksViol(dblocks, mblocks, bps, who, ln, i + 1)

RECURSIVE TreesViol(_, _, _, _, _)
TreesViol(f, D, mblocks, ln, i) ==
    IF i > Len(D.blocks) THEN <<>>
    ELSE (IF "raw" \in DOMAIN mblocks[i] THEN <<>>       \* tables of a hand-built block are the application's business
          ELSE TreeViol(f.kids[3].kids[i], D.blocks[i], ln)) \o TreesViol(f, D, mblocks, ln, i + 1)

(* the reader dump in the form of a denotation *)
RdBlock(rb, bps) ==
    LET bpi == IF "bpi" \in DOMAIN rb THEN ToInt(rb.bpi) ELSE 0
        tps == bps[bpi + 1].tps
    IN [f \in (DOMAIN rb \cup {"bpi"}) \ {"earliest", "str"} |->       \* ("str": digest of the rendered block, compared between runs only)
          CASE f = "bpi" -> bpi
            [] f = "qrs" -> [i \in 1..Len(rb.qrs) |-> NormRead(rb.qrs[i], tps)]
            [] f = "mms" -> [i \in 1..Len(rb.mms) |-> NormRead(rb.mms[i], tps)]
            [] OTHER -> rb[f]]
RdTsOK(rb, bps) ==
    LET bpi == IF "bpi" \in DOMAIN rb THEN ToInt(rb.bpi) ELSE 0
        tps == bps[bpi + 1].tps
    IN /\ \A i \in 1..Len(rb.qrs) : TsNormalised(rb.qrs[i], tps)
       /\ \A i \in 1..Len(rb.mms) : TsNormalised(rb.mms[i], tps)

OutViol(ev, o, ln) ==
    LET bytes == Expand(ev.bytes)
        nb    == Len(o.blocks)
    IN
    IF ~ev.raw_ok THEN <<[l |-> ln, prop |-> IF ev.why = "rot" THEN "C14,C02,C13" ELSE "C14,C02",    \* closed by a rotation: not a complete file by itself (C13)
                            what |-> "closed compressed output is not one complete stream"]>>
    ELSE IF nb = 0 THEN
        (IF Len(bytes) = 0 THEN <<>>
         ELSE <<[l |-> ln, prop |-> "C02,C13", what |-> "an output to which no block was written received data", got |-> Len(bytes)]>>)
        \* the ledger of such an output: nothing reported, nothing received (whatever it did receive must have been reported,
        \* at most the closing byte of a destruction excepted)
        \o (IF Len(bytes) = o.rep \/ (o.why = "destroy" /\ Len(bytes) > 0 /\ Len(bytes) = o.rep + 1) THEN <<>>
            ELSE <<[l |-> ln, prop |-> "C10", what |-> "sum of reported byte counts differs from the uncompressed size of an output to which no block was written",
                    reported |-> o.rep, size |-> Len(bytes)]>>)
    ELSE
    LET P == Parse(bytes)
        ledger == o.rep + (IF o.why = "destroy" THEN 1 ELSE 0)
        \* the ledger is a matter of sizes only: it is evaluated whether or not the content can be parsed
        LedgerViol == IF ledger = Len(bytes) THEN <<>>
                      ELSE <<[l |-> ln, prop |-> "C10", what |-> "sum of reported byte counts differs from the uncompressed size of the output",
                              reported |-> ledger, size |-> Len(bytes)]>>
    IN
    IF ~P.ok THEN <<[l |-> ln, prop |-> "C02,C13,C01,C09", what |-> "closed output is not exactly one well-formed CBOR data item",
                     size |-> Len(bytes)]>> \o LedgerViol
    ELSE LET errs == FileErrs(P.n) IN
    \* (an index that addresses no table entry: referential closure of the block tables, C11)
    IF errs # {} THEN <<[l |-> ln, prop |-> IF ClosureErrs(errs) # {} THEN "C02,C13,C01,C09,C11" ELSE "C02,C13,C01,C09",
                         what |-> "closed output violates the RFC 8618 schema", errs |-> errs]>> \o LedgerViol
    ELSE
    LET D    == DenFile(P.n)
        expP == ExpPreamble(o)
    IN
      (IF D.preamble = expP THEN <<>>
       ELSE <<[l |-> ln, prop |-> "C09,C04,C13", what |-> "preamble in the file differs from the preamble supplied",
               got |-> D.preamble, want |-> expP]>>)
      \o (IF Len(D.blocks) # nb
          THEN <<[l |-> ln, prop |-> "C01,C12,C13", what |-> "number of blocks in the output differs", got |-> Len(D.blocks), want |-> nb]>>
          ELSE BlocksViol(D.blocks, o.blocks, o.bps, "independent RFC 8618 reading", ln, 1) \o TreesViol(P.n, D, o.blocks, ln, 1))
      \o LedgerViol
      \o (IF "rd" \notin DOMAIN ev THEN <<>>
          ELSE LET rd == ev.rd IN
               IF rd.fin # "eof" THEN
                    \* (it failed before it had the preamble: the preamble written cannot be read back, C09)
                    <<[l |-> ln, prop |-> IF "preamble" \in DOMAIN rd THEN "C01,C02" ELSE "C01,C02,C09",
                       what |-> "the library's own reader fails on the output: " \o rd.fin,
                       msg |-> IF "msg" \in DOMAIN rd THEN rd.msg ELSE ""]>>
               ELSE (IF rd.preamble = expP THEN <<>>
                     ELSE <<[l |-> ln, prop |-> "C09", what |-> "preamble returned by the library's reader differs from the preamble supplied",
                             got |-> rd.preamble, want |-> expP]>>)
                    \* the same preamble read into a FilePreamble object that has read other files before
                    \o (IF "preamble_reused" \notin DOMAIN rd \/ rd.preamble_reused = expP THEN <<>>
                        ELSE <<[l |-> ln, prop |-> "C09", what |-> "preamble read into a FilePreamble object that was used for other files before differs from the preamble supplied",
                                got |-> rd.preamble_reused, want |-> expP]>>)
                    \o (IF Len(rd.blocks) # nb
                        THEN <<[l |-> ln, prop |-> "C01,C13", what |-> "library reader returns a different number of blocks",
                                got |-> Len(rd.blocks), want |-> nb]>>
                        ELSE BlocksViol([i \in 1..nb |-> RdBlock(rd.blocks[i], o.bps)], o.blocks, o.bps, "library reader", ln, 1)
                             \o (IF \A i \in 1..nb : RdTsOK(rd.blocks[i], o.bps) THEN <<>>
                                 ELSE <<[l |-> ln, prop |-> "C17,C01", what |-> "library reader returns a timestamp that is not normalised"]>>)))

(* what can be said about a closed output without the model (still checked when the model lost track of the state) *)
FormViol(ev, ln) ==
    LET bytes == Expand(ev.bytes) IN
    IF ~ev.raw_ok THEN <<[l |-> ln, prop |-> IF ev.why = "rot" THEN "C14,C02,C13" ELSE "C14,C02",    \* closed by a rotation: not a complete file by itself (C13)
                            what |-> "closed compressed output is not one complete stream"]>>
    ELSE IF Len(bytes) = 0 THEN <<>>
    ELSE LET P == Parse(bytes) IN
         IF ~P.ok THEN <<[l |-> ln, prop |-> "C02,C13,C01,C09", what |-> "closed output is not exactly one well-formed CBOR data item",
                          size |-> Len(bytes)]>>
         ELSE IF FileErrs(P.n) # {}
         THEN <<[l |-> ln, prop |-> IF ClosureErrs(FileErrs(P.n)) # {} THEN "C02,C13,C01,C09,C11" ELSE "C02,C13,C01,C09",
                 what |-> "closed output violates the RFC 8618 schema", errs |-> FileErrs(P.n)]>>
         ELSE IF "rd" \in DOMAIN ev /\ ev.rd.fin # "eof"
         THEN <<[l |-> ln, prop |-> IF "preamble" \in DOMAIN ev.rd THEN "C01,C02" ELSE "C01,C02,C09",
                 what |-> "the library's own reader fails on the output: " \o ev.rd.fin]>>
         ELSE <<>>

TOut ==
    /\ l <= N /\ Tr[l].e = "OUT"
    /\ l' = l + 1 /\ UNCHANGED <<execs, lost, flags>>
    /\ IF lost THEN viol' = Notes(FormViol(Tr[l], l)) /\ UNCHANGED ex
       ELSE LET ev  == Tr[l]
                ex1 == IF ev.why = "destroy" THEN StepDestroy(ex) ELSE ex
                o   == ex1.closed[Len(ex1.closed)]
            IN /\ viol' = Notes(OutViol(ev, o, l))
               /\ ex' = [ex1 EXCEPT !.closed = <<>>]       \* checked outputs are dropped from the state

(* "MANY": one output with n blocks of one record each (n beyond 2^16), closed by a rotation, a second output with 3 blocks  *)
(* closed by destruction; only counts and sizes are logged.  Every buffer call wrote a block; each output is one file (one *)
(* type id, closing break), read back completely with the records in order; the ledgers match.                (C12 C13 C10) *)
ManyViol(ev, ln) ==
    LET good1 == /\ ev.out1.fin = "eof" /\ ev.out1.blocks = ev.n /\ ev.out1.ids_ok /\ ev.out1.headers = 1 /\ ev.out1.last = 255
        good2 == /\ ev.out2.fin = "eof" /\ ev.out2.blocks = 3 /\ ev.out2.ids_ok /\ ev.out2.headers = 1 /\ ev.out2.last = 255
    IN (IF good1 /\ good2 THEN <<>>
        ELSE <<[l |-> ln, prop |-> "C13,C12,C02,C01", n |-> ev.n, out1 |-> ev.out1, out2 |-> ev.out2,
                what |-> "an output holding very many blocks (or the output after it) is not one complete C-DNS file with all blocks and records in order"]>>)
       \o (IF ev.nonzero_returns = ev.n THEN <<>>
           ELSE <<[l |-> ln, prop |-> "C12", n |-> ev.n, what |-> "with a block size of 1 not every buffer call wrote a block", got |-> ev.nonzero_returns]>>)
       \o (IF ev.rep1 = ev.out1.size /\ ev.rep2 + 1 = ev.out2.size THEN <<>>
           ELSE <<[l |-> ln, prop |-> "C10", n |-> ev.n, what |-> "sum of reported byte counts differs from the size of an output holding very many blocks",
                   rep |-> <<ev.rep1, ev.rep2>>, size |-> <<ev.out1.size, ev.out2.size>>]>>)
TMany ==
    /\ l <= N /\ Tr[l].e = "MANY"
    /\ l' = l + 1 /\ execs' = execs + 1
    /\ viol' = Notes(ManyViol(Tr[l], l))
    /\ UNCHANGED <<ex, lost, flags>>

TCrash ==
    /\ l <= N /\ Tr[l].e = "CRASH"
    /\ l' = l + 1
    /\ viol' = Note([l |-> l, prop |-> "C01,C02,C12,C13,C20,C03", what |-> "implementation crashed: " \o Tr[l].what])
    /\ lost' = TRUE
    /\ UNCHANGED <<ex, execs, flags>>

TEnd ==
    /\ l <= N /\ Tr[l].e = "END"
    /\ ndJsonSerialize(IOEnv.OUT, <<[execs |-> execs, events |-> N, viol |-> viol, drift |-> <<>>]>>)
    /\ l' = l + 1
    /\ UNCHANGED <<ex, lost, viol, execs, flags>>

TraceNext == TReset \/ TCall \/ TOut \/ TMany \/ TCrash \/ TEnd
TraceSpec == TraceInit /\ [][TraceNext]_tvars
TraceConsumed == TLCGet("stats").diameter - 1 = N
=============================================================================
