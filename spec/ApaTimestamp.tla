---------------------------- MODULE ApaTimestamp ----------------------------
(***************************************************************************)
(* The timestamp arithmetic of Timestamp.tla at the PRODUCTION word size:  *)
(* 64-bit two's-complement words, every tick rate 1..MaxTps, every         *)
(* (secs, ticks), every reference and every offset of the representable    *)
(* range -- decided symbolically by Apalache (Z3) instead of enumerated.   *)
(* MCTimestamp enumerates the same formulas for 7..8-bit words with TLC;   *)
(* this module removes the scaling for the arithmetic part of C17:         *)
(*   Exact    the offset of t from ref computed in wrapping 64-bit words   *)
(*            is the exact difference of the instants,                     *)
(*   Inverse  adding it back to ref is not refused and gives t, normalised,*)
(*   RefuseOK an offset that would move before the epoch is refused, any   *)
(*            other one whose result is representable is applied exactly,  *)
(*   NoUB     the signed addition never leaves the word range (C03/C17:    *)
(*            the reader adds offsets from a file to instants from a file).*)
(* TsBug selects the deviations of Timestamp.tla ("negmin", "addoverflow") *)
(* as must-fail self-tests; Vac is violated iff Init is satisfiable with   *)
(* non-trivial values (vacuity guard).                                     *)
(* One state only: run with --length=0.                                    *)
(***************************************************************************)
EXTENDS Integers

CONSTANTS
    \* @type: Int;
    MaxTps,
    \* @type: Str;
    TsBug

VARIABLES
    \* @type: Int;
    tps,
    \* @type: Int;
    s,
    \* @type: Int;
    t,
    \* @type: Int;
    rs,
    \* @type: Int;
    rt,
    \* @type: Int;
    off

MinW == -9223372036854775808
MaxW == 9223372036854775807
Two64 == 18446744073709551616
Wrap(x) == ((x - MinW) % Two64) + MinW           \* two's-complement wrap-around of a 64-bit word

Inst(sec, tick) == sec * tps + tick
ImplOffset == Wrap(Wrap(s * tps + t) - Wrap(rs * tps + rt))
AbsOffset == Inst(s, t) - Inst(rs, rt)

Ticks == Wrap(rs * tps + rt)
Refuse == IF TsBug = "negmin" THEN Wrap(-1 * off) > Ticks ELSE off < -Ticks
Over == TsBug # "addoverflow" /\ off > 0 /\ Ticks > MaxW - off
Refused == Refuse \/ Over
Sum == Wrap(Ticks + off)

Init ==
    /\ tps \in 1..MaxTps
    /\ s \in 0..MaxW /\ t \in 0..(tps - 1) /\ rs \in 0..MaxW /\ rt \in 0..(tps - 1)
    /\ off \in MinW..MaxW
    /\ Inst(s, t) <= MaxW /\ Inst(rs, rt) <= MaxW
Next == UNCHANGED <<tps, s, t, rs, rt, off>>

Exact == ImplOffset = AbsOffset
Inverse == LET o == ImplOffset IN
           /\ ~(o < -Ticks) /\ ~(o > 0 /\ Ticks > MaxW - o)
           /\ Wrap(Ticks + o) \div tps = s /\ Wrap(Ticks + o) % tps = t
RefuseOK == IF Inst(rs, rt) + off < 0 THEN Refused
            ELSE (Inst(rs, rt) + off <= MaxW) => (~Refused /\ Sum = Inst(rs, rt) + off)
NoUB == Refused \/ (Ticks + off >= MinW /\ Ticks + off <= MaxW)
Inv == Exact /\ Inverse /\ RefuseOK /\ NoUB

Vac == ~(s > 1000 /\ off < -5 /\ rs > 7 /\ t > 0 /\ tps > 3)
=============================================================================
