------------------------------ MODULE MCTools ------------------------------
(* All files of up to MaxB blocks with 0..MaxI items of each kind, all option combinations: the tools' loops show what Abs says. *)
EXTENDS Tools, TLC
CONSTANTS MaxB, MaxI, TBug
VARIABLES file, opt, bopt
vars == <<file, opt, bopt>>
Blk == [q : 0..MaxI, a : 0..MaxI, m : 0..MaxI]
Files == UNION {[1..n -> Blk] : n \in 0..MaxB}
Top == MaxB * MaxI * 3 + 1
Opts == [type : {"all", "q", "a", "m"}, ranged : {FALSE}, lo : {0}, hi : {0}]
        \cup {o \in [type : {"all", "q", "a", "m"}, ranged : {TRUE}, lo : 0..Top, hi : 0..Top] : o.lo <= o.hi}
BOpts == [one : {FALSE}, n : {0}] \cup [one : {TRUE}, n : 0..(MaxB + 1)]
Init == file \in Files /\ opt \in Opts /\ bopt \in BOpts
Next == UNCHANGED vars
Spec == Init /\ [][Next]_vars
HeadsAgree == ItemsImpl(file, opt, TBug).heads = ItemsAbs(file, opt).heads
ShortAgree == ItemsImpl(file, opt, TBug).short = ItemsAbs(file, opt).short
BlocksAgree == BlocksImpl(Len(file), bopt, 0) = BlocksAbs(Len(file), bopt)
=============================================================================
