----------------------------- MODULE MCExporter -----------------------------
(***************************************************************************)
(* Bounded model of the exporter state machine (Exporter.tla):             *)
(* every history up to MaxOps calls over a small alphabet -- storable and  *)
(* unstorable query/responses, two address-event keys, malformed messages  *)
(* (enabled / disabled by hints), write_block, rotation with and without   *)
(* export, adding a parameter set, switching the active set (valid and     *)
(* invalid index) -- for every pair of block sizes in Sizes.               *)
(* Invariants: conservation of records in submission order (C12/C13),      *)
(* block sizes (C12), self-contained outputs (C13), closed outputs frozen. *)
(* With Emit = TRUE every complete history is written out as a scenario    *)
(* for the real exporter (GenExporter.cfg).                                *)
(***************************************************************************)
EXTENDS Exporter, Json, IOUtils

CONSTANTS MaxOps, Sizes, Emit

VARIABLES ex, hist, subQR, subMM, subAEC, nadd, bps0
vars == <<ex, hist, subQR, subMM, subAEC, nadd, bps0>>

AllQ == <<3, 255, 255>>     \* 2^18 - 1
AllS == <<1, 255, 255>>     \* 2^17 - 1
MkBP(max, qrh, odh) == [tps |-> <<3, 232>>, max |-> FromInt(max), qrh |-> qrh, sigh |-> AllS, rrh |-> <<3>>, odh |-> odh,
                        opcodes |-> <<>>, rr_types |-> <<>>]
(* set 0: everything stored.  set 1: no client address, no malformed messages *)
BP0(m) == MkBP(m, AllQ, <<3>>)
BP1(m) == MkBP(m, <<3, 255, 253>>, <<2>>)
BP2    == MkBP(2, AllQ, <<1>>)          \* added later: no address events
BP3    == MkBP(1, <<3, 255, 251>>, <<3>>)  \* replaces the active set in place: no client port

QrA == [client_port |-> <<1>>, ts |-> [s |-> <<5>>, t |-> <<7>>]]
QrB == [client_ip |-> <<10, 0, 0, 1>>]                 \* unstorable under set 1
QrC == [client_port |-> <<2>>, client_ip |-> <<10, 0, 0, 2>>, ts |-> [s |-> <<4>>, t |-> <<>>]]
QrZ == [client_port |-> <<3>>, ts |-> [s |-> <<>>, t |-> <<>>]]      \* timed exactly at the epoch
Aec1 == [ae_type |-> <<>>, ip_address |-> <<1, 1, 1, 1>>]
Aec2 == [ae_type |-> <<1>>, ip_address |-> <<1, 1, 1, 1>>, ae_code |-> <<3>>]
Aec3 == [ae_type |-> <<>>, ip_address |-> <<2, 2, 2, 2>>]           \* Aec1's type at another address
Mm1 == [client_port |-> <<9>>, mm_payload |-> <<1, 2>>, ts |-> [s |-> <<4>>, t |-> <<9>>]]
St1 == [processed_messages |-> <<4>>]

Ops == {[op |-> "qr", r |-> QrA], [op |-> "qr", r |-> QrB], [op |-> "qr", r |-> QrZ], [op |-> "qr", r |-> QrC, stats |-> St1],
        [op |-> "aec", r |-> Aec1], [op |-> "aec", r |-> Aec2], [op |-> "aec", r |-> Aec1 @@ [ae_count_in |-> <<7>>]], [op |-> "aec", r |-> Aec3], [op |-> "mm", r |-> Mm1],
        [op |-> "wb"], [op |-> "rot", export |-> TRUE], [op |-> "rot", export |-> FALSE],
        [op |-> "setbp", i |-> 0], [op |-> "setbp", i |-> 1], [op |-> "setbp", i |-> 2], [op |-> "setbp", i |-> 9],
        [op |-> "addbp", bp |-> BP2], [op |-> "editbp", bp |-> BP3]}

Pre == [major |-> <<1>>, minor |-> <<>>, private |-> <<1>>]

MCInit == /\ \E m0 \in Sizes : \E m1 \in Sizes : ex = ExInit(Pre, <<BP0(m0), BP1(m1)>>) /\ bps0 = <<BP0(m0), BP1(m1)>>
          /\ hist = <<>> /\ subQR = <<>> /\ subMM = <<>> /\ subAEC = <<>> /\ nadd = 0

StatsIn(o) == IF "stats" \in DOMAIN o THEN <<o.stats>> ELSE NoStats

Apply(o) ==
    CASE o.op = "qr"  -> StepQR(ex, o.r, StatsIn(o)).s
      [] o.op = "aec" -> StepAEC(ex, o.r, StatsIn(o)).s
      [] o.op = "mm"  -> StepMM(ex, o.r, StatsIn(o)).s
      [] o.op = "wb"  -> StepWB(ex).s
      [] o.op = "rot" -> StepRot(ex, o.export).s
      [] o.op = "addbp" -> StepAddBP(ex, o.bp).s
      [] o.op = "editbp" -> StepEditBP(ex, o.bp)
      [] OTHER -> StepSetBP(ex, o.i).s

MCNext ==
    /\ Len(hist) < MaxOps
    /\ \E o \in Ops :
        /\ o.op = "addbp" => nadd = 0
        /\ o.op = "setbp" => SetBPAllowed(ex, o.i)             \* documented caller duty
        /\ o.op = "editbp" => (ex.bw = 0 /\ ~\E i \in 1..Len(hist) : hist[i].op = "editbp")
                                                               \* only while the header of the output is not written yet
        /\ ex' = Apply(o)
        /\ hist' = Append(hist, o) /\ UNCHANGED bps0
        /\ nadd' = IF o.op = "addbp" THEN 1 ELSE nadd
        /\ subQR' = IF o.op = "qr" /\ StorableQR(o.r, Hints(ex))
                    THEN Append(subQR, FilterQR(o.r, Hints(ex), BP(ex).tps)) ELSE subQR
        /\ subMM' = IF o.op = "mm" /\ StorableMM(o.r, Hints(ex))
                    THEN Append(subMM, FilterMM(o.r, BP(ex).tps)) ELSE subMM
        /\ subAEC' = IF o.op = "aec" /\ AECEnabled(Hints(ex)) THEN Append(subAEC, AecKeyIn(o.r)) ELSE subAEC

MCSpec == MCInit /\ [][MCNext]_vars

(* -- invariants -- *)
C12_Conserve   == StreamQR(ex) = subQR /\ StreamMM(ex) = subMM
RECURSIVE CountIn(_, _, _)
CountIn(blocks, k, i) == IF i > Len(blocks) THEN 0
                         ELSE LET b == blocks[i]
                                  hit == {j \in 1..Len(b.aecs) : b.aecs[j].key = k}
                              IN (IF hit = {} THEN 0 ELSE b.aecs[CHOOSE j \in hit : TRUE].n) + CountIn(blocks, k, i + 1)
RECURSIVE ClosedCount(_, _)
ClosedCount(k, o) == IF o > Len(ex.closed) THEN 0 ELSE CountIn(ex.closed[o].blocks, k, 1) + ClosedCount(k, o + 1)
Occurs(k) == Cardinality({i \in 1..Len(subAEC) : subAEC[i] = k})
C12_AecConserve == \A k \in {Aec1, Aec2} :
                      ClosedCount(k, 1) + CountIn(ex.cur, k, 1) + CountIn(<<ex.blk>>, k, 1) = Occurs(k)
C12_Sizes      == C12_BlockSizes(ex)
C13_Contained  == C13_SelfContained(ex)
C17_EarliestOK == C17_Earliest(ex)
(* closed outputs never change afterwards *)
C13_Frozen     == [][\A o \in 1..Len(ex.closed) : ex'.closed[o] = ex.closed[o]]_vars

(* -- emission of complete histories for replay on the implementation -- *)
Scenario == [comp |-> "none", out |-> "file",
             preamble |-> [major |-> Pre.major, minor |-> Pre.minor, private |-> Pre.private, bps |-> bps0],
             ops |-> hist]
EmitDone == (Emit /\ Len(hist) = MaxOps) => PrintT(<<"HIST", ToJson(Scenario)>>)
=============================================================================
