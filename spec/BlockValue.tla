----------------------------- MODULE BlockValue -----------------------------
(***************************************************************************)
(* Whole blocks as values (C19): the items of a block and the read cursors *)
(* of CdnsBlockRead (src/block.h, src/block.cpp).                          *)
(*                                                                         *)
(* Abs : a block is  q  - the sequence of query/responses (ids),           *)
(*                   a  - the address event counts, a sequence of DISTINCT *)
(*                        keys with a count each (cnt),                    *)
(*                   m  - the sequence of malformed messages,              *)
(*                   p  - the block parameters it is filled under (an id:  *)
(*                        tick rate, maximal item count, storage hints);   *)
(*                        they decide when the block is full, which        *)
(*                        members of a record are stored and how record    *)
(*                        times are kept, so they are part of its value.   *)
(*       A block obtained from another one in any manner holds the same    *)
(*       q, a/cnt, m and reads like a freshly built block: read_generic_qr *)
(*       / _mm return the items in order, read_generic_aec returns every   *)
(*       key exactly once with its count (in any order), then `end`.       *)
(* Impl: the q and m cursors are plain indices, the address event cursor   *)
(*       is an ITERATOR into the block's own unordered_map:                *)
(*       [own, gen, pos] = position pos of the map of slot own in its      *)
(*       generation gen; Singular is a value-initialised iterator.         *)
(*       Dereferencing or comparing a singular iterator, or one whose map  *)
(*       was destroyed / cleared / overwritten since, is undefined (ub).   *)
(*       VBug names deviations:                                            *)
(*         "memberwise"    - the cursors are copied as they are (the       *)
(*                           iterator still refers to the source's map),   *)
(*         "move_singular" - the move constructor leaves the iterator      *)
(*                           value-initialised,                            *)
(*         "keep_cursor"   - assignment keeps the destination's index      *)
(*                           cursors,                                      *)
(*         "keep_params"   - assignment keeps the destination's block      *)
(*                           parameters (both state the same index),       *)
(*         "move_no_params"- a moved block does not take its parameters    *)
(*                           along (constructed: default ones, assigned:   *)
(*                           the destination's).                           *)
(***************************************************************************)
EXTENDS Integers, Sequences, FiniteSets, TLC

CONSTANT VBug

Kinds == {"qr", "aec", "mm"}
Hows  == {"cctor", "mctor", "cassign", "massign", "rctor", "rassign"}
Ctor(how) == how \in {"cctor", "mctor", "rctor"}

(* ------------------------------- Abs ----------------------------------- *)
EmptyValP(p) == [q |-> <<>>, a |-> <<>>, cnt |-> <<>>, m |-> <<>>, p |-> p]
EmptyVal == EmptyValP(0)

(* parameter sets: 0 = default (10^6 ticks/s, 10000 items, all hints), 1 = 1000 ticks/s, 2 items, response-rcode *)
(* not stored, 2 = 10^6 ticks/s, 3 items, query-opcode not stored                                                *)
ParamIds == {0, 1, 2}
MaxItems(p) == CASE p = 1 -> 2 [] p = 2 -> 3 [] OTHER -> 10000

HasKey(val, v) == \E i \in 1..Len(val.a) : val.a[i] = v
KeyPos(val, v) == CHOOSE i \in 1..Len(val.a) : val.a[i] = v

AbsAddItem(val, k, v) ==
    CASE k = "qr"  -> [val EXCEPT !.q = Append(@, v)]
      [] k = "mm"  -> [val EXCEPT !.m = Append(@, v)]
      [] k = "aec" -> IF HasKey(val, v) THEN [val EXCEPT !.cnt[KeyPos(val, v)] = @ + 1]
                      ELSE [val EXCEPT !.a = Append(@, v), !.cnt = Append(@, 1)]

(* which optional members of query/response v are stored under the hints of parameter set p (the driver gives every *)
(* record a query-opcode and the odd ones a response-rcode)                                                           *)
RcExp(v, p) == (v % 2 = 1) /\ p # 1
OcExp(v, p) == p # 2

(* The block's earliest time is part of what a block is (it goes into the serialisation).  Which instant it is when some  *)
(* items carry no time is the implementation's choice (C17 only asks that it is not later than any stored time), so the  *)
(* trace specification compares it with the earliest time of a FRESHLY BUILT block that was given the same items in the  *)
(* same order (driver field fe) - the statement of C19 itself - and not with a formula.                                  *)

(* what add_*() returns: the block is full under ITS parameters *)
AbsFull(val) == Len(val.q) >= MaxItems(val.p) \/ Len(val.a) >= MaxItems(val.p) \/ Len(val.m) >= MaxItems(val.p)

Count(val, k) == CASE k = "qr" -> Len(val.q) [] k = "mm" -> Len(val.m) [] k = "aec" -> Len(val.a)
Counts(val) == <<Len(val.q), Len(val.a), Len(val.m)>>
AecPairs(val) == {<<val.a[i], val.cnt[i]>> : i \in 1..Len(val.a)}

(* abstract read cursors: rq, rm = number of items read, ra = set of keys read *)
NoCursor == [rq |-> 0, ra |-> {}, rm |-> 0]

(* is the observation (end, v, c) of one read_generic_<k> call what a fresh block with content val gives? *)
AbsReadOK(val, cur, k, end, v, c) ==
    CASE k = "qr"  -> IF cur.rq >= Len(val.q) THEN end ELSE ~end /\ v = val.q[cur.rq + 1]
      [] k = "mm"  -> IF cur.rm >= Len(val.m) THEN end ELSE ~end /\ v = val.m[cur.rm + 1]
      [] k = "aec" -> IF Cardinality(cur.ra) >= Len(val.a) THEN end
                      ELSE ~end /\ HasKey(val, v) /\ v \notin cur.ra /\ c = val.cnt[KeyPos(val, v)]
AbsReadNext(cur, k, end, v) ==
    IF end THEN cur
    ELSE CASE k = "qr" -> [cur EXCEPT !.rq = @ + 1]
           [] k = "mm" -> [cur EXCEPT !.rm = @ + 1]
           [] k = "aec" -> [cur EXCEPT !.ra = @ \cup {v}]

(* ------------------------------- Impl ---------------------------------- *)
Singular == [own |-> 0, gen |-> 0, pos |-> 0]
NewBlock(alive) == [alive |-> alive, gen |-> 0, val |-> EmptyVal, cq |-> 0, cm |-> 0, it |-> Singular]

BadIt(heap, t) == LET it == heap[t].it IN
                  it.own = 0 \/ it.own # t \/ ~heap[it.own].alive \/ heap[it.own].gen # it.gen

(* one read_generic_<k>() on slot t: [heap, ub, end, v, c] *)
ImplRead(heap, t, k) ==
    LET b == heap[t] IN
    CASE k = "qr" -> IF b.cq >= Len(b.val.q) THEN [heap |-> heap, ub |-> FALSE, end |-> TRUE, v |-> -1, c |-> 0]
                     ELSE [heap |-> [heap EXCEPT ![t].cq = @ + 1], ub |-> FALSE, end |-> FALSE, v |-> b.val.q[b.cq + 1], c |-> 0]
      [] k = "mm" -> IF b.cm >= Len(b.val.m) THEN [heap |-> heap, ub |-> FALSE, end |-> TRUE, v |-> -1, c |-> 0]
                     ELSE [heap |-> [heap EXCEPT ![t].cm = @ + 1], ub |-> FALSE, end |-> FALSE, v |-> b.val.m[b.cm + 1], c |-> 0]
      [] k = "aec" -> IF BadIt(heap, t) THEN [heap |-> heap, ub |-> TRUE, end |-> TRUE, v |-> -1, c |-> 0]
                      ELSE IF b.it.pos > Len(b.val.a) THEN [heap |-> heap, ub |-> FALSE, end |-> TRUE, v |-> -1, c |-> 0]
                      ELSE [heap |-> [heap EXCEPT ![t].it.pos = @ + 1], ub |-> FALSE, end |-> FALSE,
                            v |-> b.val.a[b.it.pos], c |-> b.val.cnt[b.it.pos]]

(* adding an item: vectors grow, the map may rehash (iterators into it die: new generation) *)
ImplAddItem(heap, t, k, v) ==
    [heap EXCEPT ![t].val = AbsAddItem(@, k, v),
                 ![t].gen = IF k = "aec" /\ ~HasKey(heap[t].val, v) THEN @ + 1 ELSE @]

ImplClear(heap, t)   == [heap EXCEPT ![t].val = EmptyValP(@.p), ![t].gen = @ + 1]     \* clear() keeps the parameters
ImplSetP(heap, t, p) == [heap EXCEPT ![t].val.p = p]                                  \* set_block_parameters on an empty block
ImplDestroy(heap, t) == [heap EXCEPT ![t].alive = FALSE, ![t].val = EmptyVal, ![t].gen = @ + 1]

(* dst becomes a copy of src (all six manners; the reader manners build the block from its serialisation) *)
ImplCopy(heap, s, d, how) ==
    LET g == heap[d].gen + 1
        own == [own |-> d, gen |-> g, pos |-> 1]
        dp == IF heap[d].alive THEN heap[d].val.p ELSE 0
        np == IF VBug = "keep_params" /\ ~Ctor(how) THEN dp
              ELSE IF VBug = "move_no_params" /\ how \in {"mctor", "massign"} THEN dp
              ELSE heap[s].val.p
    IN [heap EXCEPT ![d] = [alive |-> TRUE, gen |-> g, val |-> [heap[s].val EXCEPT !.p = np],
                            cq |-> IF VBug = "memberwise" THEN heap[s].cq
                                   ELSE IF VBug = "keep_cursor" /\ ~Ctor(how) THEN heap[d].cq ELSE 0,
                            cm |-> IF VBug = "memberwise" THEN heap[s].cm
                                   ELSE IF VBug = "keep_cursor" /\ ~Ctor(how) THEN heap[d].cm ELSE 0,
                            it |-> IF VBug = "memberwise" /\ how \notin {"rctor", "rassign"} THEN heap[s].it
                                   ELSE IF VBug = "move_singular" /\ how = "mctor" THEN Singular
                                   ELSE own]]
=============================================================================
