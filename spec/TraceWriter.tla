---------------------------- MODULE TraceWriter -----------------------------
(***************************************************************************)
(* Trace validation of the real output stack (writers under the encoder /  *)
(* exporter) against the property level of Writer.tla.                     *)
(*  "R"  reference run of a scenario (no crash, no fault): ordered log of  *)
(*       API calls and write/writev/rename system calls, and a description *)
(*       of every file left behind: which chunks (writer target) or which  *)
(*       records (exporter target) its independently decompressed content  *)
(*       consists of.                                                      *)
(*         every API call succeeds, the process exits normally             *)
(*         every output holds exactly what was handed to it     (C14,C13)  *)
(*         compressed outputs are single complete streams, named outputs   *)
(*         carry the suffix, no '.part' is left                  (C14,C15) *)
(*         data is written to '<name>.part' only; rename only              *)
(*         '<x>.part' -> '<x>'                                   (C15)     *)
(*  "K"  the same scenario killed before system call k: every file under a *)
(*       final name is pre-existing or identical to a complete output the  *)
(*       reference run made visible under that name (at the end, or before *)
(*       a later output replaced it)  (C15)                                *)
(*  "F"  the same scenario with system call k failing: no rotate_output    *)
(*       returns normally for an output that lost bytes unless an API call *)
(*       has thrown since; after an exception from a block-writing call    *)
(*       the recovery (rotate to a healthy destination + write_block)      *)
(*       yields a complete valid file holding the block's records  (C16)   *)
(***************************************************************************)
EXTENDS Naturals, Sequences, FiniteSets, TLC, Json, IOUtils

Tr == ndJsonDeserialize(IOEnv.TRACE)
N  == Len(Tr)

VARIABLES l, ref, viol, execs
tvars == <<l, ref, viol, execs>>
Note(v) == IF Len(viol) < 400 THEN Append(viol, v) ELSE viol
Notes(vs) == LET RECURSIVE A(_, _)
                 A(acc, i) == IF i > Len(vs) \/ Len(acc) >= 400 THEN acc ELSE A(Append(acc, vs[i]), i + 1)
             IN A(viol, 1)

Range(s) == {s[i] : i \in 1..Len(s)}

(* what each output must hold: sequence (per output, in order) of chunk ids / record counts *)
RECURSIVE ExpW(_, _, _, _, _)
ExpW(steps, empty, i, cur, done) ==      \* empty: ids of zero-length chunks (they leave no trace in an output)
    IF i > Len(steps) THEN Append(done, cur)
    ELSE IF steps[i].op = "w" THEN ExpW(steps, empty, i + 1, IF steps[i].c \in empty THEN cur ELSE Append(cur, steps[i].c), done)
    ELSE IF steps[i].op = "rot" THEN ExpW(steps, empty, i + 1, <<>>, Append(done, cur))
    ELSE ExpW(steps, empty, i + 1, cur, done)
RECURSIVE TotalRecs(_, _)
TotalRecs(steps, i) == IF i > Len(steps) THEN 0
                       ELSE (IF steps[i].op = "rec" THEN steps[i].n ELSE 0) + TotalRecs(steps, i + 1)

(* the name (index) each output is written under: output 1 -> name 1, a rotation goes to the name it says    *)
(* ("to": a name used before, possibly the one in use) or to the next fresh name                            *)
RECURSIVE NamesOf(_, _, _, _)
NamesOf(steps, i, acc, mx) ==
    IF i > Len(steps) THEN acc
    ELSE IF steps[i].op = "rot" THEN
         LET nm == IF "to" \in DOMAIN steps[i] THEN steps[i].to ELSE mx + 1 IN
         NamesOf(steps, i + 1, Append(acc, nm), IF nm > mx THEN nm ELSE mx)
    ELSE NamesOf(steps, i + 1, acc, mx)
Names(steps) == NamesOf(steps, 1, <<1>>, 1)
(* the outputs whose file is still there at the end: the last output written under each name *)
Surviving(nm) == {o \in 1..Len(nm) : \A p \in (o + 1)..Len(nm) : nm[p] # nm[o]}

OutOf(outs, o) == {x \in Range(outs) : x.o = o /\ x.final /\ ~x.old}
RECURSIVE CatPorts(_, _, _)
CatPorts(outs, o, maxo) == IF o > maxo THEN <<>>
                           ELSE (IF OutOf(outs, o) = {} THEN <<>> ELSE (CHOOSE x \in OutOf(outs, o) : TRUE).ports)
                                \o CatPorts(outs, o + 1, maxo)

Ctx(ev) == [target |-> ev.scn.target, comp |-> ev.scn.comp, kind |-> ev.scn.kind, scn |-> ev.scn.id]

(* scenarios in which the environment refuses one rename ("rename_fail"): that output cannot be published; what must hold *)
(* is only that nothing incomplete appears under a final name (the system-call rules here, every crash point in KViol)   *)
RefViol(ev, ln) ==
    LET sc   == ev.scn
        rf   == "rename_fail" \in DOMAIN ev.scn
        log  == ev.log
        sysl == {i \in 1..Len(log) : log[i].t = "sys"}
        apil == {i \in 1..Len(log) : log[i].t = "api"}
        named == sc.kind = "file"
    IN
    (IF ev.status # 0 THEN <<[l |-> ln, prop |-> "C14,C03,C15", ctx |-> Ctx(ev), what |-> IF ev.status = 99999 THEN "the scenario does not terminate (endless loop in the output stack)"
                                                                                                ELSE "process died while producing the outputs (signal / abnormal exit)", status |-> ev.status]>> ELSE <<>>)
    \o (IF \E i \in apil : log[i].r # "ok" /\ log[i].c # "rotbad" THEN <<[l |-> ln, prop |-> "C14,C13", ctx |-> Ctx(ev), what |-> "an API call failed in a fault-free run"]>> ELSE <<>>)
    \o (IF named /\ \E i \in sysl : log[i].c \in {"write", "writev"} /\ ~log[i].part
        THEN <<[l |-> ln, prop |-> "C15", ctx |-> Ctx(ev), what |-> "data written to a file that does not carry the .part suffix"]>> ELSE <<>>)
    \o (IF named /\ \E i \in sysl : log[i].c = "rename" /\ ~log[i].pq
        THEN <<[l |-> ln, prop |-> "C15", ctx |-> Ctx(ev), what |-> "rename other than '<name>.part' -> '<name>'"]>> ELSE <<>>)
    \o (IF named /\ \E i, j \in sysl : /\ i < j /\ log[i].c = "rename" /\ log[j].c \in {"write", "writev"} /\ log[j].o = log[i].o
                                       /\ ~\E a \in apil : i < a /\ a < j /\ log[a].c = "rot"     \* (a later output may use the name again)
        THEN <<[l |-> ln, prop |-> "C15,C13", ctx |-> Ctx(ev), what |-> "an output received data after it was renamed to its final name"]>> ELSE <<>>)
    \o (IF ~rf /\ ev.status = 0 /\ \E x \in Range(ev.outs) : ~x.final /\ ~x.old      \* (a stale .part of a name that was never opened stays as it was)
        THEN <<[l |-> ln, prop |-> "C15", ctx |-> Ctx(ev), what |-> "a .part file is left after all outputs were closed"]>> ELSE <<>>)
    \o (IF ev.status # 0 \/ rf THEN <<>>
        ELSE IF sc.target = "writer" THEN
            LET exp == ExpW(sc.steps, {sc.chunks[i].id : i \in {j \in 1..Len(sc.chunks) : sc.chunks[j].n = 0}}, 1, <<>>, <<>>)
                nm  == Names(sc.steps)
                bad == {o \in Surviving(nm) :
                           \/ OutOf(ev.outs, nm[o]) = {}
                           \/ LET x == CHOOSE y \in OutOf(ev.outs, nm[o]) : TRUE IN
                              ~x.stream_ok \/ x.rest # 0 \/ x.chunks # exp[o]}
            IN IF bad = {} THEN <<>>
               ELSE <<[l |-> ln, prop |-> IF named THEN "C14,C13,C15" ELSE "C14,C13", ctx |-> Ctx(ev),      \* under a final name: not a complete output (C15)
                       what |-> "closed output is not one complete stream whose decompression equals the bytes written to it",
                       outputs |-> bad, outs |-> ev.outs, want |-> exp]>>
        ELSE
            LET n == TotalRecs(sc.steps, 1)
                maxo == Len(SelectSeq(sc.steps, LAMBDA s : s.op = "rot")) + 1
                got == CatPorts(ev.outs, 1, maxo)
                badfin == {x \in Range(ev.outs) : x.final /\ ~x.old /\ (~x.stream_ok \/ x.fin \notin {"eof", "empty"})}
                nm == Names(sc.steps)
                reuse == Cardinality(Surviving(nm)) # Len(nm)      \* an output was replaced by a later one of the same name
            IN (IF reuse \/ got = [i \in 1..n |-> i - 1] THEN <<>>
                ELSE <<[l |-> ln, prop |-> "C14,C13,C01", ctx |-> Ctx(ev), what |-> "records read back from the outputs differ from the records buffered",
                        got |-> got, want |-> n]>>)
               \o (IF "nbps" \notin DOMAIN sc \/ \A x \in Range(ev.outs) : ~(x.final /\ ~x.old /\ "nbps" \in DOMAIN x /\ x.fin = "eof" /\ x.o <= Len(sc.nbps) /\ x.nbps # sc.nbps[x.o])
                   THEN <<>>
                   ELSE <<[l |-> ln, prop |-> "C09,C13", ctx |-> Ctx(ev), what |-> "the preamble of an output does not hold the parameter sets that had been added when it was opened"]>>)
               \o (IF badfin = {} THEN <<>>
                   ELSE <<[l |-> ln, prop |-> IF named THEN "C14,C13,C02,C15" ELSE "C14,C13,C02", ctx |-> Ctx(ev), what |-> "an output is not a single complete stream holding a complete C-DNS file",
                           outs |-> badfin]>>))

KViol(ev, r, ln) ==
    IF r.scn.kind # "file" THEN <<>>
    ELSE LET complete(f) == \/ f.same        \* what the uncrashed run leaves under that name at the end, or earlier on:
                            \/ \E i \in 1..Len(r.log) : /\ r.log[i].t = "sys" /\ r.log[i].c = "rename" /\ r.log[i].r = "ok"
                                                        /\ r.log[i].q = f.name /\ r.log[i].n = f.h
             bad == {f \in Range(ev.files) : f.final /\ ~f.old /\ ~complete(f)} IN
         IF bad = {} THEN <<>>
         ELSE <<[l |-> ln, prop |-> "C15", ctx |-> Ctx(r), k |-> ev.k,
                 what |-> "after a crash a file under a final name is neither pre-existing nor a complete output",
                 files |-> bad]>>

(* C16: walk the ordered log *)
RECURSIVE Walk(_, _, _, _, _, _)
\* log, i, lost (outputs that lost bytes and no exception yet), closing phase?, cur output, result
Walk(log, i, lost, cur, lastBlockExc, acc) ==
    IF i > Len(log) THEN [unrep |-> acc, blockExc |-> lastBlockExc]
    ELSE LET e == log[i] IN
         IF e.t = "sys" THEN
              Walk(log, i + 1, IF e.r \in {"fail", "short"} THEN lost \cup {e.o} ELSE lost, cur, lastBlockExc, acc)
         ELSE IF e.r # "ok" THEN     \* an API call threw: everything lost so far has been reported
              Walk(log, i + 1, {}, IF e.c \in {"rot", "recover-rot"} THEN cur + 1 ELSE cur,
                   IF e.c \in {"rec", "wb"} THEN TRUE ELSE lastBlockExc, acc)
         ELSE IF e.c \in {"rot", "recover-rot"} THEN
              Walk(log, i + 1, lost \ {cur}, cur + 1, lastBlockExc, IF cur \in lost THEN acc \cup {cur} ELSE acc)
         ELSE Walk(log, i + 1, lost, cur, lastBlockExc, acc)

FaultPhase(log) ==   \* was the failing system call issued while an output was being closed?
    LET f == {i \in 1..Len(log) : log[i].t = "sys" /\ log[i].r \in {"fail", "short"}} IN
    IF f = {} THEN "none"
    ELSE LET i == CHOOSE j \in f : \A k \in f : j <= k
             nextApi == {j \in (i + 1)..Len(log) : log[j].t = "api"}
         IN IF nextApi = {} THEN "close"
            ELSE LET j == CHOOSE x \in nextApi : \A y \in nextApi : x <= y IN
                 IF log[j].c \in {"rot", "recover-rot", "destroy"} THEN "close" ELSE "write"

FViol(ev, r, ln) ==
    LET w == Walk(ev.log, 1, {}, 1, FALSE, {})
        sc == r.scn
        hasRecover == \E i \in 1..Len(sc.steps) : sc.steps[i].op = "recover"
        nrot == Cardinality({i \in 1..Len(ev.log) : ev.log[i].t = "api" /\ ev.log[i].c \in {"rot", "recover-rot"}})
        recOut == {x \in Range(ev.outs) : x.final /\ ~x.old /\ x.o = nrot + 1}
        n == Cardinality({i \in 1..Len(ev.log) : ev.log[i].t = "api" /\ ev.log[i].c = "rec"})
        recApi == {i \in 1..Len(ev.log) : ev.log[i].t = "api" /\ ev.log[i].c \in {"recover-rot", "recover-wb"} /\ ev.log[i].r # "ok"}
    IN
    (IF ev.status # 0 THEN <<[l |-> ln, prop |-> "C16,C03", ctx |-> Ctx(r), k |-> ev.k, what |-> IF ev.status = 99999 THEN "the API calls do not terminate after an output system call failed (endless loop)"
                                                                                                    ELSE "process died when an output system call failed"]>> ELSE <<>>)
    \o (IF w.unrep = {} THEN <<>>
        \* a SHORT write is no failure of the output at all (the system took a part, the rest can be offered again): an output
        \* that was closed normally after one, without any exception, and is not a complete document also violates C02
        ELSE <<[l |-> ln, prop |-> IF ev.fault = "short" /\ \E x \in Range(ev.outs) : /\ x.final /\ ~x.old /\ x.o \in w.unrep
                                                                                      /\ (~x.stream_ok \/ (sc.target # "writer" /\ x.fin \notin {"eof", "empty"}))
                                   THEN "C16,C02,C01" ELSE "C16",       \* (C01: its records cannot be read back either)
                ctx |-> Ctx(r), k |-> ev.k, kind |-> sc.kind, comp |-> sc.comp, target |-> sc.target,
                fault |-> ev.fault, persistent |-> ev.persistent, phase |-> FaultPhase(ev.log), symptom |-> "unreported",
                what |-> "rotate_output returned normally for an output that lost bytes and no API call had thrown", outputs |-> w.unrep]>>)
    \* a single fault that no API call reported - neither a call on the output it hit nor the rotation that closed that output
    \* (it was swallowed, or hit an output whose stream state is never looked at): the outputs opened AFTER that rotation
    \* meet no fault at all, so no call on them fails and each is a complete stream with exactly its content
    \o (LET sysf == {i \in 1..Len(ev.log) : ev.log[i].t = "sys" /\ ev.log[i].r \in {"fail", "short"}}
            plain == \A i \in 1..Len(sc.steps) : "to" \notin DOMAIN sc.steps[i] /\ sc.steps[i].op \notin {"rotbad", "recover"}
        IN IF ev.persistent \/ sysf = {} \/ ~plain THEN <<>>
           ELSE LET f0  == CHOOSE i \in sysf : \A j \in sysf : i <= j
                    fo  == ev.log[f0].o
                    rots == {i \in (f0 + 1)..Len(ev.log) : ev.log[i].t = "api" /\ ev.log[i].c = "rot"}
                IN IF rots = {} THEN <<>>
                   ELSE LET R == CHOOSE i \in rots : \A j \in rots : i <= j
                            excBefore == \E i \in 1..R : ev.log[i].t = "api" /\ ev.log[i].r # "ok"
                            excAfter  == \E i \in (R + 1)..Len(ev.log) : ev.log[i].t = "api" /\ ev.log[i].r # "ok"
                            exp == IF sc.target = "writer"
                                   THEN ExpW(sc.steps, {sc.chunks[i].id : i \in {j \in 1..Len(sc.chunks) : sc.chunks[j].n = 0}}, 1, <<>>, <<>>)
                                   ELSE <<>>
                            bad == IF ev.status # 0 THEN {} ELSE
                                   {x \in Range(ev.outs) : /\ x.final /\ ~x.old /\ x.o > fo
                                                           /\ \/ ~x.stream_ok
                                                              \/ sc.target = "writer" /\ (x.rest # 0 \/ (x.o <= Len(exp) /\ x.chunks # exp[x.o]))
                                                              \/ sc.target # "writer" /\ x.fin \notin {"eof", "empty"}
                                                              \* (scenarios that add parameter sets state how many each output's preamble holds)
                                                              \/ ("nbps" \in DOMAIN sc /\ "nbps" \in DOMAIN x /\ x.fin = "eof" /\ x.o <= Len(sc.nbps)
                                                                  /\ x.nbps # sc.nbps[x.o])}
                        IN IF excBefore \/ (~excAfter /\ bad = {} /\ ev.status = 0) THEN <<>>
                           ELSE <<[l |-> ln, prop |-> IF "nbps" \in DOMAIN sc THEN "C14,C16,C09" ELSE "C14,C16", ctx |-> Ctx(r), k |-> ev.k, kind |-> sc.kind, comp |-> sc.comp, target |-> sc.target,
                                   fault |-> ev.fault, persistent |-> ev.persistent, phase |-> FaultPhase(ev.log), symptom |-> "later_output_corrupt",
                                   what |-> IF ev.status # 0 THEN "after a single, unreported output fault and a successful rotation the calls on the new output do not terminate / the process dies"
                                            ELSE IF excAfter THEN "after a single, unreported output fault and a successful rotation a call on the new output (which met no fault) failed"
                                            ELSE "after a single, unreported output fault an output opened later (which met no fault) is not a complete stream holding what was written to it",
                                   outs |-> bad]>>)
    \* the exporter's counters (api entries carry 10^6 * blocks written + buffered items after the call): a buffer / write_block
    \* call that ended with an exception wrote no block - the blocks-written counter is what it was before the call
    \o (LET apis == {i \in 1..Len(ev.log) : ev.log[i].t = "api"}
            prevApi(i) == {j \in apis : j < i}
            bad == {i \in apis : /\ ev.log[i].c \in {"rec", "wb"} /\ ev.log[i].r # "ok" /\ prevApi(i) # {}
                                 /\ LET j == CHOOSE x \in prevApi(i) : \A y \in prevApi(i) : y <= x IN
                                    ev.log[j].c \in {"open", "rec", "wb"} /\ (ev.log[i].n \div 1000000) # (ev.log[j].n \div 1000000)}
        IN IF sc.target # "exporter" \/ bad = {} THEN <<>>
           ELSE <<[l |-> ln, prop |-> "C12,C16", ctx |-> Ctx(r), k |-> ev.k, kind |-> sc.kind, comp |-> sc.comp, target |-> sc.target,
                   fault |-> ev.fault, persistent |-> ev.persistent, phase |-> FaultPhase(ev.log), symptom |-> "counter_after_failed_write",
                   what |-> "a buffer / write_block call that failed with an exception changed the number of blocks written",
                   calls |-> bad]>>)
    \o (IF ~(hasRecover /\ w.blockExc /\ sc.target = "exporter") THEN <<>>
        ELSE IF recApi # {} THEN
             <<[l |-> ln, prop |-> "C16", ctx |-> Ctx(r), k |-> ev.k, kind |-> sc.kind, comp |-> sc.comp, target |-> sc.target,
                fault |-> ev.fault, persistent |-> ev.persistent, phase |-> FaultPhase(ev.log), symptom |-> "no_recovery",
                what |-> "after a failed block write, rotating to a healthy destination and writing the block failed"]>>
        ELSE IF recOut = {} \/ (LET x == CHOOSE y \in recOut : TRUE IN
                                ~x.stream_ok \/ x.fin # "eof" \/ Len(x.ports) = 0 \/ x.ports[Len(x.ports)] # n - 1)
        THEN <<[l |-> ln, prop |-> "C16", ctx |-> Ctx(r), k |-> ev.k, kind |-> sc.kind, comp |-> sc.comp, target |-> sc.target,
                fault |-> ev.fault, persistent |-> ev.persistent, phase |-> FaultPhase(ev.log), symptom |-> "recovery_incomplete",
                what |-> "the recovery output is not a complete valid file holding the records of the failed block", outs |-> recOut]>>
        \* the block that could not be written stays buffered and is the block it was: values buffered meanwhile that it already
        \* holds are found in its tables, so the recovery output's tables hold nothing twice (C11)
        ELSE IF \E x \in recOut : "dups" \in DOMAIN x /\ x.dups > 0
        THEN <<[l |-> ln, prop |-> "C11,C16", ctx |-> Ctx(r), k |-> ev.k, kind |-> sc.kind, comp |-> sc.comp, target |-> sc.target,
                fault |-> ev.fault, persistent |-> ev.persistent, phase |-> FaultPhase(ev.log), symptom |-> "recovery_duplicates",
                what |-> "the tables of the block written by the recovery hold equal entries", outs |-> recOut]>>
        ELSE <<>>)

TraceInit == l = 1 /\ ref = [e |-> "none"] /\ viol = <<>> /\ execs = 0

TRef == /\ l <= N /\ Tr[l].e = "R"
        /\ ref' = [scn |-> Tr[l].scn, log |-> Tr[l].log] /\ execs' = execs + 1 /\ l' = l + 1
        /\ viol' = Notes(RefViol(Tr[l], l))
TK == /\ l <= N /\ Tr[l].e = "K"
      /\ l' = l + 1 /\ execs' = execs + 1 /\ UNCHANGED ref
      /\ viol' = Notes(KViol(Tr[l], ref, l))
TF == /\ l <= N /\ Tr[l].e = "F"
      /\ l' = l + 1 /\ execs' = execs + 1 /\ UNCHANGED ref
      /\ viol' = Notes(FViol(Tr[l], ref, l))
TEnd == /\ l <= N /\ Tr[l].e = "END"
        /\ ndJsonSerialize(IOEnv.OUT, <<[execs |-> execs, events |-> N, viol |-> viol, drift |-> <<>>]>>)
        /\ l' = l + 1 /\ UNCHANGED <<ref, viol, execs>>
TraceNext == TRef \/ TK \/ TF \/ TEnd
TraceSpec == TraceInit /\ [][TraceNext]_tvars
TraceConsumed == TLCGet("stats").diameter - 1 = N
=============================================================================
