------------------------------- MODULE Merge --------------------------------
(***************************************************************************)
(* cdns-merge (src/bin/cdns_merge.cpp; C18) over abstract inputs.          *)
(* An input is [name, st, ver, bps, blocks, good]:                         *)
(*   st   "ok" | "trunc" (header readable, error after `good` blocks)      *)
(*        | "unopenable" (missing, empty or not C-DNS)                     *)
(*   ver  format version (major.minor.private as one value)                *)
(*   bps  sequence of block-parameter VALUES; blocks: [bpi, id, empty]     *)
(* Abs  : the merged file has the version of the first readable input, and *)
(*        holds, in input order, every non-empty readable block of every   *)
(*        input whose version equals it, each with the parameter VALUE it  *)
(*        had in its source; nothing else.                                 *)
(* Impl : pass 1 collects preambles and an index map keyed by input NAME,  *)
(*        pass 2 re-reads blocks and rewrites the index.  MBug =           *)
(*        "pass2_all" is the pinned code: pass 2 iterates over all inputs, *)
(*        so an input rejected for its version is merged under index 0.    *)
(***************************************************************************)
EXTENDS Naturals, Sequences, FiniteSets, TLC

CONSTANT MBug

Readable(i) == i.st \in {"ok", "trunc"}
ReadBlocks(i) == IF i.st = "ok" THEN i.blocks ELSE SubSeq(i.blocks, 1, i.good)
NonEmpty(bs) == SelectSeq(bs, LAMBDA b : ~b.empty)

FirstReadable(ins) == IF \E k \in 1..Len(ins) : Readable(ins[k])
                      THEN CHOOSE k \in 1..Len(ins) : Readable(ins[k]) /\ \A j \in 1..(k - 1) : ~Readable(ins[j])
                      ELSE 0

RECURSIVE AbsBlocks(_, _, _)
AbsBlocks(ins, k, ver) ==
    IF k > Len(ins) THEN <<>>
    ELSE (IF Readable(ins[k]) /\ ins[k].ver = ver
          THEN LET bs == NonEmpty(ReadBlocks(ins[k])) IN
               [j \in 1..Len(bs) |-> [bp |-> ins[k].bps[bs[j].bpi + 1], id |-> bs[j].id]]
          ELSE <<>>) \o AbsBlocks(ins, k + 1, ver)

MergeAbs(ins) ==
    LET f == FirstReadable(ins) IN
    IF f = 0 THEN [ver |-> "none", blocks |-> <<>>]
    ELSE [ver |-> ins[f].ver, blocks |-> AbsBlocks(ins, 1, ins[f].ver)]

(* ------------------------------- Impl ---------------------------------- *)
(* pass 1: st = [first, ver, bps, map] ; map: name -> sequence of new indices *)
RECURSIVE Pass1(_, _, _)
Pass1(ins, k, st) ==
    IF k > Len(ins) THEN st
    ELSE LET i == ins[k] IN
         IF ~Readable(i) THEN Pass1(ins, k + 1, st)
         ELSE IF st.first
              THEN Pass1(ins, k + 1, [first |-> FALSE, ver |-> i.ver, bps |-> i.bps,
                                      map |-> (i.name :> [n \in 1..Len(i.bps) |-> n - 1]) @@ st.map])
         ELSE IF i.ver # st.ver THEN Pass1(ins, k + 1, st)
         ELSE Pass1(ins, k + 1, [st EXCEPT !.bps = @ \o i.bps,
                                           !.map = (i.name :> [n \in 1..Len(i.bps) |-> Len(st.bps) + n - 1]) @@ @])

RECURSIVE Pass2(_, _, _)
Pass2(ins, k, st) ==
    IF k > Len(ins) THEN <<>>
    ELSE LET i == ins[k]
             known == i.name \in DOMAIN st.map
         IN (IF ~Readable(i) \/ (~known /\ MBug # "pass2_all") THEN <<>>
             ELSE LET bs == NonEmpty(ReadBlocks(i)) IN
                  [j \in 1..Len(bs) |->
                      LET idx == IF known THEN st.map[i.name][bs[j].bpi + 1] ELSE 0 IN
                      [bp |-> st.bps[idx + 1], id |-> bs[j].id]])
            \o Pass2(ins, k + 1, st)

MergeImpl(ins) ==
    LET st == Pass1(ins, 1, [first |-> TRUE, ver |-> "none", bps |-> <<>>, map |-> <<>>]) IN
    IF st.first THEN [ver |-> "none", blocks |-> <<>>]
    ELSE [ver |-> st.ver, blocks |-> Pass2(ins, 1, st)]
=============================================================================
