------------------------------- MODULE Reader -------------------------------
(***************************************************************************)
(* The file reader as a state machine (src/cdns.cpp: CdnsReader).          *)
(*                                                                         *)
(* A file is seen at the granularity the reader works at: a sequence of    *)
(* TOKENS  "H" (type id + preamble + start of the blocks array),           *)
(* <<"B", id>> (one whole block) and "K" (the break that ends an           *)
(* indefinite-length blocks array).  The blocks array is indefinite-length *)
(* (what the exporter writes) or definite-length with a declared count     *)
(* (what other writers produce).  The input may be CUT anywhere: after a   *)
(* whole number of tokens (cut) or inside the next one (part = TRUE).      *)
(*                                                                         *)
(* Abs : what a caller must observe (C05, C13): the constructor succeeds   *)
(*       iff the header is wholly there; then read_block() yields exactly  *)
(*       the blocks wholly contained in the input, in order, each once;    *)
(*       then, if the input is complete, eof - and eof again for every     *)
(*       further call (sticky) -, otherwise an end-of-input failure.       *)
(* Impl: the code: m_blocks_count, m_blocks_read, m_indef_blocks and the   *)
(*       position in the token stream; read_block() first looks at the     *)
(*       counters / peeks for a break, then reads one block.               *)
(*       RBug names deviations:                                            *)
(*         "eof_not_sticky" - after the break the reader stays in the      *)
(*                            indefinite mode and peeks past the end,      *)
(*         "count_from_one" - a definite-length array of n blocks yields   *)
(*                            n - 1 of them,                               *)
(*         "partial_block"  - a block that is cut is returned with what    *)
(*                            was read of it instead of failing.           *)
(***************************************************************************)
EXTENDS Naturals, Sequences, TLC

CONSTANT RBug

(* ------------------------------ the input ------------------------------ *)
(* file: [indef, n]; tokens of a complete file *)
Tokens(f) == <<<<"H", 0>>>> \o [i \in 1..f.n |-> <<"B", i>>] \o (IF f.indef THEN <<<<"K", 0>>>> ELSE <<>>)
Total(f) == Len(Tokens(f))
(* input: [f, cut, part]: tokens 1..cut are wholly there, token cut+1 is partly there iff part *)
Complete(inp) == inp.cut = Total(inp.f)
WellFormedInput(inp) == /\ inp.cut <= Total(inp.f)
                        /\ inp.part => (inp.cut < Total(inp.f) /\ Tokens(inp.f)[inp.cut + 1][1] # "K")   \* the break is one byte

(* ------------------------------- Abs ----------------------------------- *)
AbsOpen(inp) == inp.cut >= 1                                   \* the header is wholly there
AbsBlocks(inp) == LET k == IF inp.cut - 1 < inp.f.n THEN inp.cut - 1 ELSE inp.f.n IN [i \in 1..k |-> i]
(* outcome of the j-th read_block() call after a successful construction: <<"block", id>>, "eof" or "end" *)
AbsCall(inp, j) ==
    LET bs == AbsBlocks(inp) IN
    IF j <= Len(bs) THEN <<"block", bs[j]>>
    ELSE IF Complete(inp) THEN <<"eof">> ELSE <<"end">>

(* ------------------------------- Impl ---------------------------------- *)
(* reader state after the constructor *)
ImplOpen(inp) == [ok |-> inp.cut >= 1, pos |-> 1, count |-> IF inp.f.indef THEN 0 ELSE inp.f.n, read |-> 0,
                  indef |-> inp.f.indef]

Have(inp, r)    == r.pos < inp.cut                              \* the next token is wholly there
Partly(inp, r)  == r.pos = inp.cut /\ inp.part                  \* ... partly (its first byte can be peeked)
NextTok(inp, r) == Tokens(inp.f)[r.pos + 1]

(* one read_block(): [r, out] *)
ImplCall(inp, r) ==
    IF r.indef /\ (Have(inp, r) \/ Partly(inp, r)) /\ NextTok(inp, r)[1] = "K"
    THEN [r |-> [r EXCEPT !.pos = @ + 1, !.indef = (RBug = "eof_not_sticky"), !.count = r.read], out |-> <<"eof">>]
    ELSE IF ~r.indef /\ r.read = (IF RBug = "count_from_one" /\ r.count > 0 THEN r.count - 1 ELSE r.count)
    THEN [r |-> r, out |-> <<"eof">>]
    ELSE IF Have(inp, r) /\ NextTok(inp, r)[1] # "K"
    THEN [r |-> [r EXCEPT !.pos = @ + 1, !.read = @ + 1], out |-> <<"block", NextTok(inp, r)[2]>>]
    ELSE IF Partly(inp, r) /\ RBug = "partial_block" /\ NextTok(inp, r)[1] # "K"
    THEN [r |-> [r EXCEPT !.pos = @ + 1, !.read = @ + 1], out |-> <<"block", NextTok(inp, r)[2]>>]
    ELSE [r |-> r, out |-> <<"end">>]                            \* nothing (more) to read: end-of-input failure
=============================================================================
