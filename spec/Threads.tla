------------------------------ MODULE Threads -------------------------------
(***************************************************************************)
(* C20: the library keeps no shared mutable state.  N threads each run     *)
(* their own program on their own instance: a step of thread t reads and   *)
(* writes only st[t] (its exporter/encoder/reader/blocks) and its own      *)
(* output.  Helper functions (renderers, hashing, address formatting) use  *)
(* a scratch area; in the design it is per call (a local), so it does not  *)
(* appear in the shared state at all.  SBug = "shared_scratch" models a    *)
(* helper with a static scratch buffer: a step becomes two atomic actions  *)
(* (fill the shared scratch, then copy it out), and TLC finds the          *)
(* interleaving in which a thread emits another thread's data.             *)
(* Property: whatever the interleaving, every thread's output equals the   *)
(* output of its program run alone.                                        *)
(***************************************************************************)
EXTENDS Naturals, Sequences, TLC

CONSTANTS NThreads, ProgLen, SBug

Threads == 1..NThreads
VARIABLES pc, out, scratch, phase
vars == <<pc, out, scratch, phase>>

Item(t, k) == <<t, k>>                       \* what step k of thread t produces
Alone(t) == [k \in 1..ProgLen |-> Item(t, k)]  \* the sequential result

Init == /\ pc = [t \in Threads |-> 1] /\ out = [t \in Threads |-> <<>>]
        /\ scratch = <<0, 0>> /\ phase = [t \in Threads |-> "idle"]

(* the design: scratch is local to the call, one atomic step from the point of view of other threads *)
StepLocal(t) ==
    /\ SBug = "none" /\ pc[t] <= ProgLen
    /\ out' = [out EXCEPT ![t] = Append(@, Item(t, pc[t]))]
    /\ pc' = [pc EXCEPT ![t] = @ + 1]
    /\ UNCHANGED <<scratch, phase>>

(* the deviation: a static scratch buffer, filled and copied out in two steps *)
Fill(t) ==
    /\ SBug = "shared_scratch" /\ pc[t] <= ProgLen /\ phase[t] = "idle"
    /\ scratch' = Item(t, pc[t]) /\ phase' = [phase EXCEPT ![t] = "filled"]
    /\ UNCHANGED <<pc, out>>
CopyOut(t) ==
    /\ SBug = "shared_scratch" /\ phase[t] = "filled"
    /\ out' = [out EXCEPT ![t] = Append(@, scratch)]
    /\ pc' = [pc EXCEPT ![t] = @ + 1] /\ phase' = [phase EXCEPT ![t] = "idle"]
    /\ UNCHANGED scratch

Next == \E t \in Threads : StepLocal(t) \/ Fill(t) \/ CopyOut(t)
Spec == Init /\ [][Next]_vars

(* every prefix produced so far is a prefix of the sequential result *)
C20_Isolation == \A t \in Threads : out[t] = SubSeq(Alone(t), 1, Len(out[t]))
=============================================================================
