------------------------------- MODULE Writer -------------------------------
(***************************************************************************)
(* The output stack of c-dns (src/writer.{h,cpp}: Writer<std::string>,     *)
(* Writer<int>, CborOutputWriter, GzipCborOutputWriter, XzCborOutputWriter *)
(* under CdnsEncoder / CdnsExporter) at the level of system calls          *)
(* (C13 frozen outputs, C14, C15, C16).                                    *)
(*                                                                         *)
(* A scenario is a sequence of API operations                              *)
(*     [op |-> "write"] | [op |-> "rotate"] | [op |-> "destroy"]           *)
(* on successive outputs 1, 2, ...  Output 1 goes to name 1; a rotation    *)
(* goes to the next fresh name or, with a field `to`, onto a name used     *)
(* before -- also the one in use.  Data is counted in abstract units:      *)
(* unit <<o, k>> is the k-th unit handed to output o; compressed outputs   *)
(* end with a trailer unit <<o, 0>> produced when the stream is finished.  *)
(*                                                                         *)
(* Each API operation is a sequence of atomic steps (pc):                  *)
(*   write   : stage the unit in user space (stream buffer / compressor);  *)
(*             the stack may issue write system calls at any time          *)
(*   rotate, destroy : finish the stream (trailer), write everything,      *)
(*             close the file, rename '<name>.part' to '<name>' (named     *)
(*             outputs); rotate then opens the next output                 *)
(* A crash stops the process before any step.  A fault makes one write     *)
(* system call (or all from it on) fail: its data is lost.                 *)
(*                                                                         *)
(* WBug selects a deviation (model self-tests / the pinned behaviour):     *)
(*   "rename_before_flush"  the rename is issued before the final writes   *)
(*   "write_final_name"     data is written to the final name directly     *)
(*   "swallow"              a failed write of a named output raises no     *)
(*                          exception in any API call (pinned behaviour,   *)
(*                          known finding for C16)                         *)
(*   "swallow_close"        a write that fails while a compressed stream   *)
(*                          is being finished raises no exception (pinned) *)
(*   "open_before_close"    a rotation opens (truncates) the next '.part'  *)
(*                          before it closes and renames the current one   *)
(*   "append_part"          opening does not truncate: the new output is   *)
(*                          appended to a '.part' file left by a dead run  *)
(***************************************************************************)
EXTENDS Naturals, Sequences, FiniteSets, TLC

CONSTANTS Scenario,    \* sequence of API operations
          Named,       \* TRUE: file-name outputs ('.part' + rename); FALSE: descriptor outputs
          Compressed,  \* TRUE: outputs end with a trailer unit
          PreExisting, \* set of names whose final name already exists with old content
          PrePart,     \* set of names whose '.part' file already exists (left by a run that died): opening truncates it
          FaultAt,     \* 0 = no fault; k = the k-th write system call fails
          Persistent,  \* TRUE: every write system call from FaultAt on fails
          WBug

VARIABLES pc,        \* index of the current API operation
          step,      \* micro-step within it
          cur,       \* current output index
          given,     \* units handed to the current output so far
          ubuf,      \* units staged in user space, not yet written
          fs,        \* path -> sequence of units ("old" for pre-existing content)
          nsys,      \* write system calls issued so far
          lost,      \* outputs that lost data
          reported,  \* outputs for which some API call raised an exception
          returned,  \* outputs whose closing rotate returned normally
          alive

vars == <<pc, step, cur, given, ubuf, fs, nsys, lost, reported, returned, alive>>

(* the name every output is written under (static: determined by the scenario) *)
RECURSIVE NameSeq(_, _, _)
NameSeq(i, acc, mx) ==
    IF i > Len(Scenario) THEN acc
    ELSE IF Scenario[i].op = "rotate" THEN
         LET n == IF "to" \in DOMAIN Scenario[i] THEN Scenario[i].to ELSE mx + 1 IN
         NameSeq(i + 1, Append(acc, n), IF n > mx THEN n ELSE mx)
    ELSE NameSeq(i + 1, acc, mx)
OutNames == NameSeq(1, <<1>>, 1)
NameOf(o) == OutNames[o]

Part(o)  == <<"part", NameOf(o)>>
Final(o) == <<"final", NameOf(o)>>
SameNameAsBefore(o) == o > 1 /\ NameOf(o) = NameOf(o - 1)
Target(o) == IF ~Named \/ WBug = "write_final_name" THEN Final(o)
             ELSE IF WBug = "open_before_close" /\ SameNameAsBefore(o) THEN Final(o)    \* the file it opened has been renamed
             ELSE Part(o)
Old == << <<0, 0>> >>       \* content of a file that existed before (a unit of no output)

(* open(path): the file is created or truncated *)
Opened(f, p) == IF WBug = "append_part" /\ p \in DOMAIN f THEN f
                ELSE [q \in DOMAIN f \cup {p} |-> IF q = p THEN <<>> ELSE f[q]]

Units(o, n) == [k \in 1..n |-> <<o, k>>]
Trailer(o) == <<o, 0>>

(* what output o must contain when complete, given that n units were handed to it *)
Complete(o, n) == Units(o, n) \o (IF Compressed THEN <<Trailer(o)>> ELSE <<>>)

Init ==
    /\ pc = 1 /\ step = "begin" /\ cur = 1 /\ given = 0 /\ ubuf = <<>>
    /\ fs = Opened([p \in {<<"final", n>> : n \in PreExisting} \cup (IF Named THEN {<<"part", n>> : n \in PrePart} ELSE {}) |-> Old], Target(1))
    /\ nsys = 0 /\ lost = {} /\ reported = {} /\ returned = {} /\ alive = TRUE

Op == Scenario[pc]
Failing(k) == FaultAt > 0 /\ (k = FaultAt \/ (Persistent /\ k >= FaultAt))

(* one write system call moving a non-empty prefix of the staged units to the file *)
SysWrite(n) ==
    /\ n \in 1..Len(ubuf)
    /\ nsys' = nsys + 1
    /\ IF Failing(nsys + 1)
       THEN /\ lost' = lost \cup {cur}
            /\ ubuf' = SubSeq(ubuf, n + 1, Len(ubuf))                 \* the data is gone
            /\ fs' = fs
            /\ reported' = IF (Named /\ WBug = "swallow") \/ (WBug = "swallow_close" /\ Compressed /\ step = "flush")
                           THEN reported ELSE reported \cup {cur}
       ELSE /\ fs' = [fs EXCEPT ![Target(cur)] = @ \o SubSeq(ubuf, 1, n)]
            /\ ubuf' = SubSeq(ubuf, n + 1, Len(ubuf))
            /\ UNCHANGED <<lost, reported>>

(* the stack may write staged data at any time while the process runs *)
Background ==
    /\ alive /\ pc <= Len(Scenario) /\ ubuf # <<>> /\ step \in {"begin", "flush"}
    /\ \E n \in 1..Len(ubuf) : SysWrite(n)
    /\ UNCHANGED <<pc, step, cur, given, returned, alive>>

ApiWrite ==
    /\ alive /\ pc <= Len(Scenario) /\ Op.op = "write" /\ step = "begin"
    /\ given' = given + 1
    /\ ubuf' = Append(ubuf, <<cur, given + 1>>)
    /\ pc' = pc + 1
    /\ UNCHANGED <<step, cur, fs, nsys, lost, reported, returned, alive>>

Closing == pc <= Len(Scenario) /\ Op.op \in {"rotate", "destroy"}

CloseFinish ==      \* finish the compressed stream: the trailer is staged
    /\ alive /\ Closing /\ step = "begin"
    /\ ubuf' = IF Compressed THEN Append(ubuf, Trailer(cur)) ELSE ubuf
    /\ step' = IF Named /\ WBug = "rename_before_flush" THEN "rename" ELSE "flush"
    /\ fs' = IF Named /\ WBug = "open_before_close" /\ Op.op = "rotate"
             THEN [p \in DOMAIN fs \cup {Part(cur + 1)} |-> IF p = Part(cur + 1) THEN <<>> ELSE fs[p]]    \* (deviation) opened too early
             ELSE fs
    /\ UNCHANGED <<pc, cur, given, nsys, lost, reported, returned, alive>>

CloseFlushed ==     \* everything staged has been handed to the operating system
    /\ alive /\ Closing /\ step = "flush" /\ ubuf = <<>>
    /\ step' = IF Named /\ WBug # "rename_before_flush" THEN "rename" ELSE "done"
    /\ UNCHANGED <<pc, cur, given, ubuf, fs, nsys, lost, reported, returned, alive>>

CloseRename ==      \* close + rename('<name>.part', '<name>')
    /\ alive /\ Closing /\ step = "rename"
    /\ fs' = IF WBug = "write_final_name" THEN fs
             ELSE [p \in (DOMAIN fs \ {Part(cur)}) \cup {Final(cur)} |->
                       IF p = Final(cur) THEN fs[Part(cur)] ELSE fs[p]]
    /\ step' = IF WBug = "rename_before_flush" THEN "flushlate" ELSE "done"
    /\ UNCHANGED <<pc, cur, given, ubuf, nsys, lost, reported, returned, alive>>

CloseFlushLate ==   \* (deviation) the remaining data is written after the rename
    /\ alive /\ Closing /\ step = "flushlate"
    /\ IF ubuf = <<>> THEN step' = "done" /\ UNCHANGED <<ubuf, fs, nsys, lost, reported>>
       ELSE /\ nsys' = nsys + 1
            /\ fs' = [fs EXCEPT ![Final(cur)] = @ \o ubuf]
            /\ ubuf' = <<>> /\ UNCHANGED <<step, lost, reported>>
    /\ UNCHANGED <<pc, cur, given, returned, alive>>

CloseDone ==
    /\ alive /\ Closing /\ step = "done"
    /\ returned' = IF Op.op = "rotate" /\ cur \notin reported THEN returned \cup {cur} ELSE returned
    /\ IF Op.op = "rotate"
       THEN /\ cur' = cur + 1 /\ given' = 0
            /\ fs' = IF Named /\ WBug = "open_before_close" THEN fs            \* (deviation) it is open already
                     ELSE Opened(fs, Target(cur + 1))
       ELSE UNCHANGED <<cur, given, fs>>
    /\ pc' = pc + 1 /\ step' = "begin"
    /\ UNCHANGED <<ubuf, nsys, lost, reported, alive>>

Crash == alive /\ alive' = FALSE
         /\ UNCHANGED <<pc, step, cur, given, ubuf, fs, nsys, lost, reported, returned>>

Next == ApiWrite \/ Background \/ CloseFinish \/ CloseFlushed \/ CloseRename \/ CloseFlushLate \/ CloseDone \/ Crash
Spec == Init /\ [][Next]_vars

(* number of units handed to output o by the scenario *)
RECURSIVE CountFor(_, _, _, _)
CountFor(o, i, curo, n) ==
    IF i > Len(Scenario) THEN n
    ELSE IF Scenario[i].op = "write" THEN CountFor(o, i + 1, curo, IF curo = o THEN n + 1 ELSE n)
    ELSE IF Scenario[i].op = "rotate" THEN CountFor(o, i + 1, curo + 1, n)
    ELSE CountFor(o, i + 1, curo, n)
Expected(o) == Complete(o, CountFor(o, 1, 1, 0))

(* C15: at every instant (in particular after a crash) a file found under a final name is either *)
(* the one that was there before or a complete output                                              *)
OutputsOfName(n) == {o \in 1..Len(OutNames) : OutNames[o] = n}
C15_Atomic ==
    Named => \A p \in DOMAIN fs : p[1] = "final" =>
                 (fs[p] = Old \/ (FaultAt = 0 => \E o \in OutputsOfName(p[2]) : fs[p] = Expected(o)))
C15_AtomicNoFault == FaultAt = 0 => C15_Atomic

(* C16: rotate_output never returns normally for an output that lost bytes *)
C16_Reported == \A o \in returned : o \notin lost
(* C13/C14 at this level: a closed output holds exactly what was handed to it (no fault, no crash) *)
C14_Complete ==
    (FaultAt = 0 /\ alive /\ pc > Len(Scenario)) =>
        \A p \in DOMAIN fs : (p[1] = "final" /\ fs[p] # Old) =>
            LET os == OutputsOfName(p[2]) IN fs[p] = Expected(CHOOSE o \in os : \A q \in os : q <= o)   \* the last output of that name
=============================================================================
