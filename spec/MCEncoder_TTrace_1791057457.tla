---- MODULE MCEncoder_TTrace_1791057457 ----
EXTENDS Sequences, TLCExt, Toolbox, MCEncoder, Naturals, TLC

_expression ==
    LET MCEncoder_TEExpression == INSTANCE MCEncoder_TEExpression
    IN MCEncoder_TEExpression!expression
----

_trace ==
    LET MCEncoder_TETrace == INSTANCE MCEncoder_TETrace
    IN MCEncoder_TETrace!trace
----

_inv ==
    ~(
        TLCGet("level") = Len(_TETrace)
        /\
        ret = (2)
        /\
        hist = (<<120, 56, 127>>)
        /\
        buf = (<<120, 56, 128>>)
        /\
        sink = (<<>>)
        /\
        want = (2)
        /\
        steps = (1)
    )
----

_init ==
    /\ steps = _TETrace[1].steps
    /\ ret = _TETrace[1].ret
    /\ hist = _TETrace[1].hist
    /\ buf = _TETrace[1].buf
    /\ sink = _TETrace[1].sink
    /\ want = _TETrace[1].want
----

_next ==
    /\ \E i,j \in DOMAIN _TETrace:
        /\ \/ /\ j = i + 1
              /\ i = TLCGet("level")
        /\ steps  = _TETrace[i].steps
        /\ steps' = _TETrace[j].steps
        /\ ret  = _TETrace[i].ret
        /\ ret' = _TETrace[j].ret
        /\ hist  = _TETrace[i].hist
        /\ hist' = _TETrace[j].hist
        /\ buf  = _TETrace[i].buf
        /\ buf' = _TETrace[j].buf
        /\ sink  = _TETrace[i].sink
        /\ sink' = _TETrace[j].sink
        /\ want  = _TETrace[i].want
        /\ want' = _TETrace[j].want

\* Uncomment the ASSUME below to write the states of the error trace
\* to the given file in Json format. Note that you can pass any tuple
\* to `JsonSerialize`. For example, a sub-sequence of _TETrace.
    \* ASSUME
    \*     LET J == INSTANCE Json
    \*         IN J!JsonSerialize("MCEncoder_TTrace_1791057457.json", _TETrace)

=============================================================================

 Note that you can extract this module `MCEncoder_TEExpression`
  to a dedicated file to reuse `expression` (the module in the 
  dedicated `MCEncoder_TEExpression.tla` file takes precedence 
  over the module `MCEncoder_TEExpression` below).

---- MODULE MCEncoder_TEExpression ----
EXTENDS Sequences, TLCExt, Toolbox, MCEncoder, Naturals, TLC

expression == 
    [
        \* To hide variables of the `MCEncoder` spec from the error trace,
        \* remove the variables below.  The trace will be written in the order
        \* of the fields of this record.
        steps |-> steps
        ,ret |-> ret
        ,hist |-> hist
        ,buf |-> buf
        ,sink |-> sink
        ,want |-> want
        
        \* Put additional constant-, state-, and action-level expressions here:
        \* ,_stateNumber |-> _TEPosition
        \* ,_stepsUnchanged |-> steps = steps'
        
        \* Format the `steps` variable as Json value.
        \* ,_stepsJson |->
        \*     LET J == INSTANCE Json
        \*     IN J!ToJson(steps)
        
        \* Lastly, you may build expressions over arbitrary sets of states by
        \* leveraging the _TETrace operator.  For example, this is how to
        \* count the number of times a spec variable changed up to the current
        \* state in the trace.
        \* ,_stepsModCount |->
        \*     LET F[s \in DOMAIN _TETrace] ==
        \*         IF s = 1 THEN 0
        \*         ELSE IF _TETrace[s].steps # _TETrace[s-1].steps
        \*             THEN 1 + F[s-1] ELSE F[s-1]
        \*     IN F[_TEPosition - 1]
    ]

=============================================================================



Parsing and semantic processing can take forever if the trace below is long.
 In this case, it is advised to uncomment the module below to deserialize the
 trace from a generated binary file.

\*
\*---- MODULE MCEncoder_TETrace ----
\*EXTENDS IOUtils, MCEncoder, TLC
\*
\*trace == IODeserialize("MCEncoder_TTrace_1791057457.bin", TRUE)
\*
\*=============================================================================
\*

---- MODULE MCEncoder_TETrace ----
EXTENDS MCEncoder, TLC

trace == 
    <<
    ([ret |-> 0,hist |-> <<120>>,buf |-> <<120>>,sink |-> <<>>,want |-> 0,steps |-> 0]),
    ([ret |-> 2,hist |-> <<120, 56, 127>>,buf |-> <<120, 56, 128>>,sink |-> <<>>,want |-> 2,steps |-> 1])
    >>
----


=============================================================================

---- CONFIG MCEncoder_TTrace_1791057457 ----
CONSTANTS
    B = 12
    Bug = "neg_minus"
    MaxSteps = 1
    MaxStr = 12

INVARIANT
    _inv

CHECK_DEADLOCK
    \* CHECK_DEADLOCK off because of PROPERTY or INVARIANT above.
    FALSE

INIT
    _init

NEXT
    _next

CONSTANT
    _TETrace <- _trace

ALIAS
    _expression
=============================================================================
\* Generated on Sat Oct 03 19:57:39 UTC 2026