------------------------------ MODULE Decoder ------------------------------
(***************************************************************************)
(* The CBOR decoder of c-dns (src/cdns_decoder.{h,cpp}) at two levels.     *)
(*                                                                         *)
(* Abs (property level; C05, C07): AbsExpect(S, p, op) is what RFC 8949    *)
(*     (module Cbor) says the operation `op` must yield when p bytes of    *)
(*     the stream S have been consumed:                                    *)
(*       "val" with the value and the new position -- a well-formed item   *)
(*             of the matching type starts at p;                           *)
(*       "end" -- the stream is exhausted, or ends inside the item;        *)
(*       "any" -- malformed input or an operation that does not match the  *)
(*             item: the outcome is not constrained here (C03 demands      *)
(*             only that it is not a crash).                               *)
(*     Nothing about buffering appears at this level.                      *)
(*                                                                         *)
(* Impl (code level): a window of W bytes refilled from the stream with    *)
(*     the eof semantics of std::istream::read, read_cbor_type / read_int  *)
(*     / read_string / skip_item as written.  Bugs names deviations of the *)
(*     pinned code that are switched on one at a time as self-tests:       *)
(*       - a 0-byte refill is not treated as end of input (stale window);  *)
(*       - read_string / skip_item test for SIMPLE where peek_type()       *)
(*         reports BREAK: indefinite strings rejected, skipping an         *)
(*         indefinite container runs to the end of the input;              *)
(*       - skip_item consumes a tag number without its content;            *)
(*       - skip_item recurses per nesting level; reserve(length) unchecked.*)
(***************************************************************************)
EXTENDS Cbor, TLC

CONSTANTS W,        \* decoder window (BUFFER_SIZE)
          RsvCap,   \* largest reservation the repaired code may request
          Bugs      \* set of named deviations of the pinned code (self-tests); {} = repaired code

Has(b) == b \in Bugs
Min(a, b) == IF a <= b THEN a ELSE b

ReadOps == {"uint", "nint", "int", "bool", "bstr", "tstr", "arr", "map", "brk", "skip", "peek"}

(* ------------------------------- Abs ---------------------------------- *)
Val(v, p) == [k |-> "val", v |-> v, p |-> p]
EndOut    == [k |-> "end"]
AnyOut    == [k |-> "any"]

Fits63(a) == Len(a) < 8 \/ (Len(a) = 8 /\ a[1] < 128)

AbsExpect(S, p, op) ==
    IF p >= Len(S) THEN EndOut ELSE
    LET b0 == S[p + 1]
        mt == b0 \div 32
        ai == b0 % 32
        h  == PHead(S, p + 1)
        it == PItem(S, p + 1, MaxDepth)
        HeadVal(f(_)) == IF h.ok THEN (IF ai = 31 THEN AnyOut ELSE f(h))
                         ELSE IF h.short THEN EndOut ELSE AnyOut
        UVal(hh) == Val(hh.a, hh.e - 1)
        NVal(hh) == IF Fits63(hh.a) THEN Val(hh.a, hh.e - 1) ELSE AnyOut
        IVal(hh) == IF Fits63(hh.a) THEN Val([neg |-> mt = 1, a |-> hh.a], hh.e - 1) ELSE AnyOut
    IN
    CASE op = "peek" -> Val(IF b0 = 255 THEN 8 ELSE mt, p)
      [] op = "brk"  -> IF b0 = 255 THEN Val(0, p + 1) ELSE AnyOut
      [] op = "bool" -> IF b0 \in {244, 245} THEN Val(b0 - 244, p + 1) ELSE AnyOut
      [] op = "uint" -> IF mt = MT_UINT THEN HeadVal(UVal) ELSE AnyOut
      [] op = "nint" -> IF mt = MT_NINT THEN HeadVal(NVal) ELSE AnyOut
      [] op = "int"  -> IF mt \in {MT_UINT, MT_NINT} THEN HeadVal(IVal) ELSE AnyOut
      [] op \in {"arr", "map"} ->
            IF mt = (IF op = "arr" THEN MT_ARR ELSE MT_MAP)
            THEN IF h.ok THEN Val([indef |-> ai = 31, n |-> h.a], h.e - 1)
                 ELSE IF h.short THEN EndOut ELSE AnyOut
            ELSE AnyOut
      [] op \in {"bstr", "tstr"} ->
            IF mt = (IF op = "bstr" THEN MT_BSTR ELSE MT_TSTR)
            THEN IF it.ok THEN Val(it.n.s, it.e - 1)
                 ELSE IF it.short THEN EndOut ELSE AnyOut
            ELSE AnyOut
      [] OTHER -> \* "skip": exactly one data item, whatever it is
            IF it.ok THEN Val(0, it.e - 1)
            ELSE IF it.short THEN EndOut ELSE AnyOut

(* does an observed outcome [k, v] conform to the expectation? *)
Conforms(exp, out) ==
    CASE exp.k = "val" -> out.k = "val" /\ out.v = exp.v
      [] exp.k = "end" -> out.k = "end"
      [] OTHER -> out.k \in {"val", "end", "err"}

(* ------------------------------- Impl --------------------------------- *)
(* decoder state: p = bytes consumed, we = absolute end of the window,     *)
(* eof = eofbit of the stream, rsv = largest reservation requested,        *)
(* dep = deepest native recursion                                          *)
DInit == [p |-> 0, we |-> 0, eof |-> FALSE, rsv |-> <<>>, dep |-> 0]

Ok(st)      == [k |-> "ok", st |-> st]
OkV(st, v)  == [k |-> "ok", st |-> st, v |-> v]
Bad(k, st)  == [k |-> k, st |-> st]

(* read_to_buffer(); kind = "unopened": a stream that cannot be read (no data, no eofbit) *)
Refill(S, kind, st) ==
    IF st.p # st.we THEN Ok(st)
    ELSE IF st.eof THEN Bad("end", st)
    ELSE LET avail == IF kind = "unopened" THEN 0 ELSE Len(S) - st.p
             got   == Min(W, avail)
             st1   == [st EXCEPT !.we = st.p + got, !.eof = (kind # "unopened") /\ got < W]
         IN IF got = 0
            THEN IF Has("stale") THEN Bad("fab", st1)     \* goes on to read the stale window
                 ELSE Bad("end", st1)
            ELSE Ok(st1)

Fetch(S, kind, st) ==
    LET r == Refill(S, kind, st) IN
    IF r.k # "ok" THEN r
    ELSE [k |-> "ok", b |-> S[r.st.p + 1], st |-> [r.st EXCEPT !.p = @ + 1]]

PeekB(S, kind, st) ==
    LET r == Refill(S, kind, st) IN
    IF r.k # "ok" THEN r ELSE [k |-> "ok", b |-> S[r.st.p + 1], st |-> r.st]

RECURSIVE ReadBytes(_, _, _, _, _)
ReadBytes(S, kind, st, n, acc) ==
    IF n = 0 THEN OkV(st, acc)
    ELSE LET f == Fetch(S, kind, st) IN
         IF f.k # "ok" THEN f ELSE ReadBytes(S, kind, f.st, n - 1, Append(acc, f.b))

(* read_int(item_length) *)
ReadInt(S, kind, st, ai) ==
    IF ai <= 23 THEN OkV(st, IF ai = 0 THEN <<>> ELSE <<ai>>)
    ELSE IF ai <= 27 THEN LET r == ReadBytes(S, kind, st, Pow2(ai - 24), <<>>) IN
                          IF r.k # "ok" THEN r ELSE OkV(r.st, Strip(r.v))
    ELSE OkV(st, <<>>)

(* read_cbor_type *)
ReadType(S, kind, st) ==
    LET f == Fetch(S, kind, st) IN
    IF f.k # "ok" THEN f ELSE [k |-> "ok", mt |-> f.b \div 32, ai |-> f.b % 32, st |-> f.st]

(* how many bytes a loop `for i < len` can fetch before the stream ends (+1 to hit the end) *)
Bounded(S, st, len) == IF FitsInt(len) THEN Min(ToInt(len), Len(S) - st.p + 1) ELSE Len(S) - st.p + 1

Reserve(st, len) ==
    LET want == IF Has("reserve") THEN len
                ELSE IF Cmp(len, FromInt(RsvCap)) = 1 THEN FromInt(RsvCap) ELSE len
    IN [st EXCEPT !.rsv = IF Cmp(want, @) = 1 THEN want ELSE @]

RECURSIVE ReadChunks(_, _, _, _, _)
(* the indefinite branch of read_string *)
ReadChunks(S, kind, st, mt, acc) ==
    LET pk == PeekB(S, kind, st) IN
    IF pk.k # "ok" THEN pk
    ELSE LET stop == IF Has("break_simple") THEN pk.b \div 32 = MT_SIMPLE /\ pk.b # 255   \* peek_type() != SIMPLE
                     ELSE pk.b = 255                                         \* peek_type() != BREAK
         IN IF stop
            THEN \* read_break()
                 LET h == ReadType(S, kind, pk.st) IN
                 IF h.k # "ok" THEN h
                 ELSE IF h.mt # MT_SIMPLE \/ h.ai # 31 THEN Bad("err", h.st)
                 ELSE OkV(h.st, acc)
            ELSE LET h == ReadType(S, kind, pk.st) IN
                 IF h.k # "ok" THEN h
                 ELSE IF h.mt # mt \/ h.ai = 31 THEN Bad("err", h.st)
                 ELSE LET n == ReadInt(S, kind, h.st, h.ai) IN
                      IF n.k # "ok" THEN n
                      ELSE LET st2 == Reserve(n.st, n.v)
                               r   == ReadBytes(S, kind, st2, Bounded(S, st2, n.v), <<>>)
                           IN IF r.k # "ok" THEN r
                              ELSE ReadChunks(S, kind, r.st, mt, acc \o r.v)

(* read_string(cbor_type, length, indef) *)
ReadString(S, kind, st, mt, len, indef) ==
    IF ~indef
    THEN LET st1 == Reserve(st, len) IN ReadBytes(S, kind, st1, Bounded(S, st1, len), <<>>)
    ELSE ReadChunks(S, kind, st, mt, <<>>)

RECURSIVE Skip(_, _, _, _), SkipN(_, _, _, _, _), SkipIndef(_, _, _, _, _)
(* skip_item(); d = native recursion depth of this call *)
Skip(S, kind, st0, d) ==
    LET h == ReadType(S, kind, st0) IN
    IF h.k # "ok" THEN h ELSE
    LET st == IF Has("depth") THEN [h.st EXCEPT !.dep = IF d > @ THEN d ELSE @] ELSE h.st
        mt == h.mt
        ai == h.ai
    IN
    CASE mt \in {MT_UINT, MT_NINT} ->
            IF ai >= 28 THEN Bad("err", st) ELSE ReadInt(S, kind, st, ai)
      [] mt = MT_TAG ->
            IF ai >= 28 THEN Bad("err", st)
            ELSE LET n == ReadInt(S, kind, st, ai) IN
                 IF n.k # "ok" THEN n
                 ELSE IF Has("tag") THEN n                 \* content left unread
                 ELSE Skip(S, kind, n.st, d + 1)
      [] mt = MT_SIMPLE ->
            IF ai \in 28..30 THEN Bad("err", st) ELSE ReadInt(S, kind, st, ai)
      [] mt \in {MT_BSTR, MT_TSTR} ->
            IF ai \in 28..30 THEN Bad("err", st)
            ELSE LET n == ReadInt(S, kind, st, ai) IN
                 IF n.k # "ok" THEN n ELSE ReadString(S, kind, n.st, mt, n.v, ai = 31)
      [] OTHER -> \* arrays and maps
            IF ai \in 28..30 THEN Bad("err", st)
            ELSE IF ai = 31 THEN SkipIndef(S, kind, st, mt = MT_MAP, d)
            ELSE LET n == ReadInt(S, kind, st, ai) IN
                 IF n.k # "ok" THEN n
                 ELSE SkipN(S, kind, n.st,
                            (IF mt = MT_MAP THEN 2 ELSE 1) * Bounded(S, n.st, n.v), d)

SkipN(S, kind, st, k, d) ==
    IF k = 0 THEN Ok(st)
    ELSE LET r == Skip(S, kind, st, d + 1) IN
         IF r.k # "ok" THEN r ELSE SkipN(S, kind, r.st, k - 1, d)

SkipIndef(S, kind, st, isMap, d) ==
    LET pk == PeekB(S, kind, st) IN
    IF pk.k # "ok" THEN pk
    ELSE IF ~Has("break_simple") /\ pk.b = 255 THEN Ok([pk.st EXCEPT !.p = @ + 1])
    \* pinned code: `peek_type() == SIMPLE && ai == 31` never holds (0xFF is reported as BREAK)
    ELSE LET r1 == Skip(S, kind, pk.st, d + 1) IN
         IF r1.k # "ok" THEN r1
         ELSE IF ~isMap THEN SkipIndef(S, kind, r1.st, isMap, d)
         ELSE LET r2 == Skip(S, kind, r1.st, d + 1) IN
              IF r2.k # "ok" THEN r2 ELSE SkipIndef(S, kind, r2.st, isMap, d)

(* the public operations; result [k |-> "val"|"end"|"err"|"fab", v, st] *)
Out(r, v) == IF r.k = "ok" THEN [k |-> "val", v |-> v, st |-> r.st] ELSE [k |-> r.k, st |-> r.st]

ImplOp(S, kind, st, op) ==
    CASE op = "peek" ->
            LET pk == PeekB(S, kind, st) IN
            IF pk.k # "ok" THEN Out(pk, 0) ELSE Out(pk, IF pk.b = 255 THEN 8 ELSE pk.b \div 32)
      [] op = "skip" -> LET r == Skip(S, kind, st, 1) IN Out(r, 0)
      [] op = "int" ->
            LET pk == PeekB(S, kind, st) IN
            IF pk.k # "ok" THEN Out(pk, 0)
            ELSE IF pk.b = 255 \/ pk.b \div 32 \notin {MT_UINT, MT_NINT} THEN Out(Bad("err", pk.st), 0)
            ELSE LET h == ReadType(S, kind, pk.st) IN
                 IF h.k # "ok" THEN Out(h, 0)
                 ELSE IF h.ai >= 28 THEN Out(Bad("err", h.st), 0)
                 ELSE LET n == ReadInt(S, kind, h.st, h.ai) IN
                      IF n.k # "ok" THEN Out(n, 0) ELSE Out(n, [neg |-> h.mt = MT_NINT, a |-> n.v])
      [] OTHER ->
            LET h == ReadType(S, kind, st) IN
            IF h.k # "ok" THEN Out(h, 0) ELSE
            CASE op \in {"uint", "nint"} ->
                    IF h.mt # (IF op = "uint" THEN MT_UINT ELSE MT_NINT) \/ h.ai >= 28
                    THEN Out(Bad("err", h.st), 0)
                    ELSE LET n == ReadInt(S, kind, h.st, h.ai) IN Out(n, IF n.k = "ok" THEN n.v ELSE 0)
              [] op = "bool" ->
                    IF h.mt = MT_SIMPLE THEN
                         IF h.ai \in {20, 21} THEN Out(Ok(h.st), h.ai - 20) ELSE Out(Bad("err", h.st), 0)
                    ELSE IF h.mt = MT_UINT /\ h.ai < 28 THEN
                         LET n == ReadInt(S, kind, h.st, h.ai) IN
                         Out(n, IF n.k = "ok" /\ n.v # <<>> THEN 1 ELSE 0)
                    ELSE Out(Bad("err", h.st), 0)
              [] op \in {"bstr", "tstr"} ->
                    LET mt == IF op = "bstr" THEN MT_BSTR ELSE MT_TSTR IN
                    IF h.mt # mt \/ h.ai \in 28..30 THEN Out(Bad("err", h.st), 0)
                    ELSE LET n == ReadInt(S, kind, h.st, h.ai) IN
                         IF n.k # "ok" THEN Out(n, 0)
                         ELSE LET r == ReadString(S, kind, n.st, mt, n.v, h.ai = 31) IN
                              Out(r, IF r.k = "ok" THEN r.v ELSE 0)
              [] op \in {"arr", "map"} ->
                    IF h.mt # (IF op = "arr" THEN MT_ARR ELSE MT_MAP) \/ h.ai \in 28..30
                    THEN Out(Bad("err", h.st), 0)
                    ELSE IF h.ai = 31 THEN Out(Ok(h.st), [indef |-> TRUE, n |-> <<>>])
                    ELSE LET n == ReadInt(S, kind, h.st, h.ai) IN
                         Out(n, IF n.k = "ok" THEN [indef |-> FALSE, n |-> n.v] ELSE 0)
              [] OTHER -> \* "brk"
                    IF h.mt # MT_SIMPLE \/ h.ai # 31 THEN Out(Bad("err", h.st), 0) ELSE Out(Ok(h.st), 0)
=============================================================================
