----------------------------- MODULE MCEncoder -----------------------------
(***************************************************************************)
(* Bounded model of the encoder: every initial fill level 0..B of a small  *)
(* buffer, every operation with boundary arguments, sequences of up to     *)
(* MaxSteps calls followed by a flush.  Checks C06 (NoLoss, RetExact) and  *)
(* that the staged bytes never exceed the buffer.                          *)
(***************************************************************************)
EXTENDS Encoder

CONSTANTS MaxSteps, MaxStr

VARIABLE steps
vars == <<evars, steps>>

U(n) == Pad(n, 8)
(* boundary values as 8-byte images *)
UVals8  == {U(<<>>), U(<<23>>), U(<<24>>), U(<<255>>)}
UVals16 == UVals8 \cup {U(<<1, 0>>), U(<<255, 255>>)}
UVals32 == UVals16 \cup {U(<<1, 0, 0>>), U(<<1, 0, 0, 0>>), U(<<255, 255, 255, 255>>)}
UVals64 == UVals32 \cup {U(<<1, 0, 0, 0, 0>>), U(<<127, 255, 255, 255, 255, 255, 255, 255>>),
                         U(<<128, 0, 0, 0, 0, 0, 0, 0>>), U(<<255, 255, 255, 255, 255, 255, 255, 255>>)}
(* negative values: two's complement images, sign-extended *)
Neg(mag) == Compl(U(mag))          \* the image of -1 - mag
IVals8  == (UVals8 \ {U(<<255>>)}) \cup {U(<<127>>), Neg(<<>>), Neg(<<23>>), Neg(<<24>>), Neg(<<127>>)}
IVals16 == IVals8 \cup {U(<<1, 0>>), U(<<127, 255>>), Neg(<<255>>), Neg(<<1, 0>>), Neg(<<127, 255>>)}
IVals32 == IVals16 \cup {U(<<127, 255, 255, 255>>), Neg(<<255, 255>>), Neg(<<1, 0, 0>>), Neg(<<127, 255, 255, 255>>)}
IVals64 == IVals32 \cup {U(<<127, 255, 255, 255, 255, 255, 255, 255>>), Neg(<<255, 255, 255, 255>>),
                         Neg(<<1, 0, 0, 0, 0>>), Neg(<<127, 255, 255, 255, 255, 255, 255, 255>>)}

Args(op) ==
    CASE op = "u8" -> UVals8 [] op = "u16" -> UVals16 [] op = "u32" -> UVals32 [] op = "u64" -> UVals64
      [] op = "i8" -> IVals8 [] op = "i16" -> IVals16 [] op = "i32" -> IVals32 [] op = "i64" -> IVals64
      [] op \in SizeOps -> UVals64
      [] op = "bool" -> {0, 1}
      [] op \in {"iarr", "imap", "brk"} -> {0}
      [] OTHER -> {[i \in 1..n |-> 65 + (i % 26)] : n \in 0..MaxStr}

MCInit == /\ \E f \in 0..B : /\ buf = Fill(120, f) /\ hist = Fill(120, f)
          /\ sink = <<>> /\ ret = 0 /\ want = 0 /\ steps = 0

MCNext == \/ /\ steps < MaxSteps
             /\ \E op \in AllOps : \E a \in Args(op) : ImplWrite(op, a)
             /\ steps' = steps + 1
          \/ /\ steps < MaxSteps            \* the output rejects the pre-flush of a call (non-string operations)
             /\ \E op \in AllOps \ StrOps : \E a \in Args(op) : ImplWriteFault(op, a)
             /\ steps' = steps + 1
          \/ /\ steps \in 1..MaxSteps
             /\ ImplFlush
             /\ steps' = MaxSteps + 1

MCSpec == MCInit /\ [][MCNext]_vars

(* after the final flush everything has been delivered *)
C06_AllDelivered == steps = MaxSteps + 1 => (sink = hist /\ buf = <<>>)

(* Cbor!CHead is the shortest head that carries the argument, and decodes back *)
ShortestOK ==
    \A a \in UVals64 : \A mt \in {0, 1, 2, 3, 4, 5} :
        /\ HeadArg(CHead(mt, a)) = Strip(a)
        /\ \A w \in Widths : FitsWidth(a, w) => Len(CHead(mt, a)) <= 1 + w
ASSUME ShortestOK
=============================================================================
