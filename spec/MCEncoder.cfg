SPECIFICATION MCSpec
CONSTANTS
  B = 12
  Bug = "none"
  MaxSteps = 2
  MaxStr = 30
INVARIANTS
  C06_NoLoss
  C06_RetExact
  C06_Fits
  C06_AllDelivered
CHECK_DEADLOCK FALSE
