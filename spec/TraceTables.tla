---------------------------- MODULE TraceTables -----------------------------
(***************************************************************************)
(* Trace validation of real CdnsBlock tables against BlockTable!Abs.       *)
(* One execution = one history on one of the nine tables with one manner   *)
(* of copying blocks.  Every add must return the index the abstract table  *)
(* gives (C11: de-duplication, distinct values distinct indices,           *)
(* stability), the value read back at that index must be the value added,  *)
(* a copy must hold the source's content, own all its lookup keys          *)
(* (probe: no key refers to foreign storage) and keep behaving like a      *)
(* fresh table with that content after the source was modified, cleared    *)
(* or destroyed (C19).                                                     *)
(***************************************************************************)
EXTENDS BlockTable, Json, IOUtils

Tr == ndJsonDeserialize(IOEnv.TRACE)
N  == Len(Tr)

VARIABLES l, abs, lost, viol, execs, ctx, mf
tvars == <<l, abs, lost, viol, execs, ctx, mf>>
(* mf: slots whose block was the source of a MOVE and not cleared or overwritten since.  The property promises nothing   *)
(* about a moved-from block (the pinned code copies, a real move empties it), so nothing observed on it is judged.     *)

Note(v) == IF Len(viol) < 40 THEN Append(viol, v) ELSE viol
Slots == 1..3

TraceInit == /\ l = 1 /\ abs = [t \in Slots |-> <<>>] /\ lost = TRUE /\ viol = <<>> /\ execs = 0
             /\ ctx = [tab |-> "", how |-> "", cls |-> ""] /\ mf = {}

TReset == /\ l <= N /\ Tr[l].e = "R"
          /\ abs' = [t \in Slots |-> <<>>] /\ lost' = FALSE /\ execs' = execs + 1 /\ l' = l + 1
          /\ ctx' = [tab |-> Tr[l].tab, how |-> Tr[l].how, cls |-> Tr[l].cls] /\ mf' = {}
          /\ UNCHANGED viol

Bad(props, what, ev) == /\ viol' = Note([l |-> l, prop |-> props, what |-> what, tab |-> ctx.tab, how |-> ctx.how,
                                         cls |-> ctx.cls, event |-> ev])
                        /\ lost' = TRUE

TAdd == /\ l <= N /\ Tr[l].e = "A"
        /\ l' = l + 1 /\ UNCHANGED <<execs, ctx, mf>>
        /\ IF lost \/ Tr[l].t \in mf THEN UNCHANGED <<abs, lost, viol>>
           ELSE LET ev == Tr[l]
                    a  == AbsAdd(abs[ev.t], ev.v)
                IN IF ev.idx = a.idx /\ ev.size = Len(a.items) /\ ev.back = ev.v
                   THEN abs' = [abs EXCEPT ![ev.t] = a.items] /\ UNCHANGED <<lost, viol>>
                   ELSE /\ Bad("C11,C19", "add returned another index / size than the de-duplicating table, or the entry at that index is not the value added", ev)
                        /\ UNCHANGED abs

(* add_value: appended unconditionally (as the reader does with the entries of a file) *)
TAddValue == /\ l <= N /\ Tr[l].e = "AV"
             /\ l' = l + 1 /\ UNCHANGED <<execs, ctx, mf>>
             /\ IF lost \/ Tr[l].t \in mf THEN UNCHANGED <<abs, lost, viol>>
                ELSE LET ev == Tr[l]
                         a  == AbsAddValue(abs[ev.t], ev.v)
                     IN IF ev.idx = a.idx /\ ev.size = Len(a.items) /\ ev.back = ev.v
                        THEN abs' = [abs EXCEPT ![ev.t] = a.items] /\ UNCHANGED <<lost, viol>>
                        ELSE /\ Bad("C11,C19", "add_value did not append the value at the end of the table", ev)
                             /\ UNCHANGED abs

TClear == /\ l <= N /\ Tr[l].e \in {"CL", "DS"}
          /\ l' = l + 1 /\ UNCHANGED <<execs, ctx, lost, viol>>
          /\ abs' = [abs EXCEPT ![Tr[l].t] = <<>>] /\ mf' = mf \ {Tr[l].t}

TCopy == /\ l <= N /\ Tr[l].e = "CP"
         /\ l' = l + 1 /\ UNCHANGED <<execs, ctx>>
         /\ mf' = IF Tr[l].src \in mf THEN mf \cup {Tr[l].dst}
                  ELSE IF ctx.how = "move" THEN (mf \ {Tr[l].dst}) \cup {Tr[l].src} ELSE mf \ {Tr[l].dst}
         /\ IF lost \/ Tr[l].src \in mf THEN UNCHANGED <<abs, lost, viol>>
            ELSE LET ev == Tr[l] IN
                 IF ev.size # Len(abs[ev.src])
                 THEN /\ Bad("C19", "copied block does not hold the source's content", ev) /\ UNCHANGED abs
                 ELSE /\ abs' = [abs EXCEPT ![ev.dst] = abs[ev.src]]
                      /\ UNCHANGED lost
                      /\ viol' = IF ev.foreign = 0 THEN viol
                                  ELSE Note([l |-> l, prop |-> "C19", tab |-> ctx.tab, how |-> ctx.how, cls |-> ctx.cls, event |-> ev,
                                             what |-> "lookup keys of the copied block still refer to the source's storage"])

TFinal == /\ l <= N /\ Tr[l].e = "F"
          /\ l' = l + 1 /\ UNCHANGED <<execs, ctx, abs, mf>>
          /\ IF lost \/ Tr[l].t \in mf \/ Tr[l].vals = abs[Tr[l].t] THEN UNCHANGED <<lost, viol>>
             ELSE Bad("C11,C19", "final table content differs from the abstract table", Tr[l])

TCrash == /\ l <= N /\ Tr[l].e = "CRASH"
          /\ l' = l + 1 /\ UNCHANGED <<execs, ctx, abs, mf>>
          /\ Bad("C19,C11,C03", "implementation crashed (sanitizer report or signal): " \o Tr[l].what, Tr[l])

TEnd == /\ l <= N /\ Tr[l].e = "END"
        /\ ndJsonSerialize(IOEnv.OUT, <<[execs |-> execs, events |-> N, viol |-> viol, drift |-> <<>>]>>)
        /\ l' = l + 1 /\ UNCHANGED <<abs, lost, viol, execs, ctx, mf>>

TraceNext == TReset \/ TAdd \/ TAddValue \/ TClear \/ TCopy \/ TFinal \/ TCrash \/ TEnd
TraceSpec == TraceInit /\ [][TraceNext]_tvars
TraceConsumed == TLCGet("stats").diameter - 1 = N
=============================================================================
