------------------------------- MODULE Tools -------------------------------
(***************************************************************************)
(* The inspection tools cdns-items and cdns-blocks as selection functions  *)
(* (src/bin/cdns_items.cpp, src/bin/cdns_blocks.cpp).  Beyond the listed   *)
(* properties: C18 states the guarantee for cdns-merge and cdns-itemcount; *)
(* the free-text layout of the other tools is not part of it.  What IS     *)
(* stable - and what scripts built on these tools rely on - is WHICH items *)
(* are shown and under WHICH number; that is what this module states.      *)
(*                                                                         *)
(* A file is a sequence of blocks [q, a, m] (numbers of Query/Response,    *)
(* Address-Event-Count and Malformed-Message items).                       *)
(*                                                                         *)
(* Abs : the items of the selected kind(s), in file order (per block: q,   *)
(*       then a, then m), are numbered from 0; those whose number lies in  *)
(*       the range are shown under that number.  "short" (the remark on    *)
(*       stderr) says the range reaches past the last item.                *)
(* Impl: the tool's loops with the running counter i.                      *)
(*       Pinned deviation, named: the remark is made when i < hi, i.e. it  *)
(*       is missing when hi is exactly the number of items (one past the   *)
(*       last) - TBugs "short_remark_exact" is the pinned code, "" is Abs. *)
(***************************************************************************)
EXTENDS Naturals, Sequences

Kinds == <<"q", "a", "m">>
Sel(type) == IF type = "all" THEN {"q", "a", "m"} ELSE {type}

(* the flat sequence of item kinds of the selected type(s) *)
RECURSIVE Rep(_, _)
Rep(k, n) == IF n = 0 THEN <<>> ELSE <<k>> \o Rep(k, n - 1)
BlockItems(b, type) == (IF "q" \in Sel(type) THEN Rep("q", b.q) ELSE <<>>)
                    \o (IF "a" \in Sel(type) THEN Rep("a", b.a) ELSE <<>>)
                    \o (IF "m" \in Sel(type) THEN Rep("m", b.m) ELSE <<>>)
RECURSIVE Flat(_, _, _)
Flat(file, type, j) == IF j > Len(file) THEN <<>> ELSE BlockItems(file[j], type) \o Flat(file, type, j + 1)

(* opt: [type, ranged, lo, hi]  ->  [heads: <<kind, number>>*, short] *)
RECURSIVE Pick(_, _, _)
Pick(fl, opt, i) == IF i > Len(fl) THEN <<>>
                    ELSE (IF ~opt.ranged \/ (opt.lo <= i - 1 /\ i - 1 <= opt.hi) THEN <<<<fl[i], i - 1>>>> ELSE <<>>)
                         \o Pick(fl, opt, i + 1)
ItemsAbs(file, opt) == LET fl == Flat(file, opt.type, 1)
                       IN [heads |-> Pick(fl, opt, 1), short |-> opt.ranged /\ opt.hi >= Len(fl)]

(* the tool: state [i, heads]; one step per item, block by block, kind by kind *)
RECURSIVE ImplKind(_, _, _, _)
ImplKind(st, k, n, opt) == IF n = 0 THEN st
                           ELSE ImplKind(IF opt.ranged /\ (st.i < opt.lo \/ st.i > opt.hi)
                                         THEN [st EXCEPT !.i = @ + 1]
                                         ELSE [i |-> st.i + 1, heads |-> Append(st.heads, <<k, st.i>>)], k, n - 1, opt)
ImplBlock(st, b, opt) ==
    LET s1 == IF "q" \in Sel(opt.type) THEN ImplKind(st, "q", b.q, opt) ELSE st
        s2 == IF "a" \in Sel(opt.type) THEN ImplKind(s1, "a", b.a, opt) ELSE s1
    IN IF "m" \in Sel(opt.type) THEN ImplKind(s2, "m", b.m, opt) ELSE s2
RECURSIVE ImplFile(_, _, _, _)
ImplFile(st, file, j, opt) == IF j > Len(file) THEN st ELSE ImplFile(ImplBlock(st, file[j], opt), file, j + 1, opt)
ItemsImpl(file, opt, tbug) ==
    LET st == ImplFile([i |-> 0, heads |-> <<>>], file, 1, opt)
        n  == IF tbug = "unranged_counter" /\ opt.ranged THEN Len(st.heads) ELSE st.i    \* (a counter that only counts what was shown)
    IN [heads |-> st.heads, short |-> IF tbug = "short_remark_exact" THEN n < opt.hi ELSE opt.ranged /\ n <= opt.hi]

(* cdns-blocks: opt [one, n] -> the numbers of the blocks shown *)
BlocksAbs(nb, opt) == IF opt.one THEN (IF opt.n < nb THEN <<opt.n>> ELSE <<>>) ELSE [j \in 1..nb |-> j - 1]
RECURSIVE BlocksImpl(_, _, _)
BlocksImpl(nb, opt, i) == IF i >= nb THEN <<>>
                          ELSE (IF opt.one /\ opt.n # i THEN <<>> ELSE <<i>>) \o BlocksImpl(nb, opt, i + 1)
=============================================================================
