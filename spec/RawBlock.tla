------------------------------ MODULE RawBlock ------------------------------
(***************************************************************************)
(* Blocks an application builds directly with the raw CdnsBlock::add_* API *)
(* and hands to write_block(block) (C02: "blocks the application builds    *)
(* directly").  A raw block is described at the level of RFC 8618: block   *)
(* tables whose entries carry indices, and items carrying indices.         *)
(* RawTree builds the CBOR tree RFC 8618 prescribes for that description   *)
(* (time offsets as absolute ticks against an earliest-time of zero), so   *)
(* that CdnsFormat!DenBlock gives what a reader must get from the block.   *)
(***************************************************************************)
EXTENDS CdnsFormat, Records

KeyNode(k) == IF k >= 0 THEN NUint(FromInt(k)) ELSE NNint(FromInt((0 - k) - 1))
Conv(kind, v) == CASE kind = "u" -> NUint(v)
                   [] kind = "i" -> (IF v.neg THEN NNint(v.a) ELSE NUint(v.a))
                   [] kind = "b" -> NBstr(v)
                   [] OTHER -> NTstr(v)
RECURSIVE KidsOf(_, _, _)
(* specs: sequence of <<member name, map key, kind>> *)
KidsOf(rec, specs, i) ==
    IF i > Len(specs) THEN <<>>
    ELSE (IF specs[i][1] \in DOMAIN rec THEN <<KeyNode(specs[i][2]), Conv(specs[i][3], rec[specs[i][1]])>> ELSE <<>>)
         \o KidsOf(rec, specs, i + 1)
MapOfRec(rec, specs) == NMap(KidsOf(rec, specs, 1))

SigSpecs == << <<"server_address_index", 0, "u">>, <<"server_port", 1, "u">>, <<"qr_transport_flags", 2, "u">>, <<"qr_type", 3, "u">>,
               <<"qr_sig_flags", 4, "u">>, <<"query_opcode", 5, "u">>, <<"qr_dns_flags", 6, "u">>, <<"query_rcode", 7, "u">>,
               <<"query_classtype_index", 8, "u">>, <<"query_qdcount", 9, "u">>, <<"query_ancount", 10, "u">>,
               <<"query_nscount", 11, "u">>, <<"query_arcount", 12, "u">>, <<"query_edns_version", 13, "u">>,
               <<"query_udp_size", 14, "u">>, <<"query_opt_rdata_index", 15, "u">>, <<"response_rcode", 16, "u">> >>
QSpecs   == << <<"name_index", 0, "u">>, <<"classtype_index", 1, "u">> >>
RRSpecs  == << <<"name_index", 0, "u">>, <<"classtype_index", 1, "u">>, <<"ttl", 2, "u">>, <<"rdata_index", 3, "u">> >>
MMDSpecs == << <<"server_address_index", 0, "u">>, <<"server_port", 1, "u">>, <<"mm_transport_flags", 2, "u">>, <<"mm_payload", 3, "b">> >>
CTSpecs  == << <<"type", 0, "u">>, <<"class", 1, "u">> >>
RPDSpecs == << <<"bailiwick_index", 0, "u">>, <<"processing_flags", 1, "u">> >>
QRESpecs == << <<"question_index", 0, "u">>, <<"answer_index", 1, "u">>, <<"authority_index", 2, "u">>, <<"additional_index", 3, "u">> >>
QRSpecs  == << <<"client_address_index", 1, "u">>, <<"client_port", 2, "u">>, <<"transaction_id", 3, "u">>,
               <<"qr_signature_index", 4, "u">>, <<"client_hoplimit", 5, "u">>, <<"response_delay", 6, "i">>,
               <<"query_name_index", 7, "u">>, <<"query_size", 8, "u">>, <<"response_size", 9, "u">> >>
QRTail   == << <<"asn", -1, "t">>, <<"country_code", -2, "t">>, <<"round_trip_time", -3, "i">> >>
AECSpecs == << <<"ae_type", 0, "u">>, <<"ae_code", 1, "u">>, <<"ae_address_index", 2, "u">>, <<"ae_transport_flags", 3, "u">> >>
MMSpecs  == << <<"client_address_index", 1, "u">>, <<"client_port", 2, "u">>, <<"message_data_index", 3, "u">> >>
StatSpecs == << <<"processed_messages", 0, "u">>, <<"qr_data_items", 1, "u">>, <<"unmatched_queries", 2, "u">>,
                <<"unmatched_responses", 3, "u">>, <<"discarded_opcode", 4, "u">>, <<"malformed_items", 5, "u">> >>

Arr(s, F(_)) == NArr([i \in 1..Len(s) |-> F(s[i])])
ListOf(d, f) == IF f \in DOMAIN d THEN d[f] ELSE <<>>

TimeKid(r, tps) == IF "time_offset" \in DOMAIN r THEN <<KeyNode(0), NUint(TsTicks(r.time_offset, tps))>> ELSE <<>>
Sub1(r, f, key, specs) == IF f \in DOMAIN r THEN <<KeyNode(key), MapOfRec(r[f], specs)>> ELSE <<>>

RawQR(r, tps) == NMap(TimeKid(r, tps) \o KidsOf(r, QRSpecs, 1) \o Sub1(r, "rpd", 10, RPDSpecs) \o Sub1(r, "qe", 11, QRESpecs)
                      \o Sub1(r, "re", 12, QRESpecs) \o KidsOf(r, QRTail, 1))
RawMM(r, tps) == NMap(TimeKid(r, tps) \o KidsOf(r, MMSpecs, 1))
RawAEC(r) == NMap(KidsOf(r, AECSpecs, 1) \o <<KeyNode(4), NUint(<<1>>)>>)

RawTables(t) ==
    LET Bs(x) == NBstr(x)
        Ct(x) == MapOfRec(x, CTSpecs)
        Sg(x) == MapOfRec(x, SigSpecs)
        Il(x) == LET U(y) == NUint(y) IN Arr(x, U)
        Qq(x) == MapOfRec(x, QSpecs)
        Rr(x) == MapOfRec(x, RRSpecs)
        Md(x) == MapOfRec(x, MMDSpecs)
        T(f, key, F(_)) == IF f \in DOMAIN t THEN <<KeyNode(key), Arr(t[f], F)>> ELSE <<>>
    IN NMap(T("ip", 0, Bs) \o T("ct", 1, Ct) \o T("name", 2, Bs) \o T("sig", 3, Sg) \o T("qlist", 4, Il)
            \o T("qrr", 5, Qq) \o T("rrlist", 6, Il) \o T("rr", 7, Rr) \o T("mmd", 8, Md))

(* op: the logged "wbx" operation: bpi, tables, qrs, aecs, mms, stats *)
RawTree(op, tps) ==
    LET Q(r) == RawQR(r, tps)
        M(r) == RawMM(r, tps)
    IN NMap(<<KeyNode(0), NMap(<<KeyNode(0), NArr(<<NUint(<<>>), NUint(<<>>)>>)>>
                                \o (IF "noidx" \in DOMAIN op /\ op.noidx THEN <<>> ELSE <<KeyNode(1), NUint(FromInt(op.bpi))>>))>>
            \o (IF "stats" \in DOMAIN op THEN <<KeyNode(1), MapOfRec(op.stats, StatSpecs)>> ELSE <<>>)
            \o <<KeyNode(2), RawTables(op.tables)>>
            \o <<KeyNode(3), Arr(ListOf(op, "qrs"), Q)>>
            \o <<KeyNode(4), Arr(ListOf(op, "aecs"), RawAEC)>>
            \o <<KeyNode(5), Arr(ListOf(op, "mms"), M)>>)

(* the block in the form the exporter model keeps (Exporter!EmptyBlock shape + raw marker) *)
RawModelBlock(op, bps) ==
    LET tps == bps[op.bpi + 1].tps
        tree == RawTree(op, tps)
        d == DenBlock(tree, bps)
    IN [bpi |-> op.bpi, bp |-> bps[op.bpi + 1], qrs |-> d.qrs, mms |-> d.mms,
        aecs |-> [i \in 1..Len(d.aecs) |-> [key |-> AECKey(d.aecs[i]), n |-> 1]],
        stats |-> IF "stats" \in DOMAIN op /\ (Len(d.qrs) + Len(d.aecs) + Len(d.mms)) > 0 THEN <<op.stats>> ELSE <<>>,
        et |-> <<>>, raw |-> TRUE]
(* the description must itself be closed (indices within its own tables): the documented caller duty *)
RawClosed(op, bps) == BlockErrs(RawTree(op, bps[op.bpi + 1].tps), Len(bps)) = {}
=============================================================================
