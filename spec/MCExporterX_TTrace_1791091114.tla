---- MODULE MCExporterX_TTrace_1791091114 ----
EXTENDS MCExporterX, Sequences, TLCExt, Toolbox, Naturals, TLC

_expression ==
    LET MCExporterX_TEExpression == INSTANCE MCExporterX_TEExpression
    IN MCExporterX_TEExpression!expression
----

_trace ==
    LET MCExporterX_TETrace == INSTANCE MCExporterX_TETrace
    IN MCExporterX_TETrace!trace
----

_inv ==
    ~(
        TLCGet("level") = Len(_TETrace)
        /\
        hist = (<<[op |-> "xnew", i |-> 1], [op |-> "xclear"], [op |-> "xqr", r |-> [client_port |-> <<1>>, ts |-> [s |-> <<5>>, t |-> <<7>>]]], [op |-> "xwb"]>>)
        /\
        ex = ([xb |-> [qrs |-> <<[client_port |-> <<1>>, ts |-> <<19, 143>>]>>, bpi |-> 0, mms |-> <<>>, aecs |-> <<>>, bp |-> [max |-> <<2>>, qrh |-> <<3, 255, 253>>, odh |-> <<2>>, tps |-> <<3, 232>>, sigh |-> <<1, 255, 255>>, rrh |-> <<3>>, opcodes |-> <<>>, rr_types |-> <<>>], stats |-> <<>>, et |-> <<19, 143>>], closed |-> <<>>, cur |-> <<[qrs |-> <<[client_port |-> <<1>>, ts |-> <<19, 143>>]>>, bpi |-> 0, mms |-> <<>>, aecs |-> <<>>, bp |-> [max |-> <<2>>, qrh |-> <<3, 255, 253>>, odh |-> <<2>>, tps |-> <<3, 232>>, sigh |-> <<1, 255, 255>>, rrh |-> <<3>>, opcodes |-> <<>>, rr_types |-> <<>>], stats |-> <<>>, et |-> <<19, 143>>]>>, blk |-> [qrs |-> <<>>, bpi |-> 0, mms |-> <<>>, aecs |-> <<>>, bp |-> [max |-> <<2>>, qrh |-> <<3, 255, 255>>, odh |-> <<3>>, tps |-> <<3, 232>>, sigh |-> <<1, 255, 255>>, rrh |-> <<3>>, opcodes |-> <<>>, rr_types |-> <<>>], stats |-> <<>>, et |-> <<>>], bps |-> <<[max |-> <<2>>, qrh |-> <<3, 255, 255>>, odh |-> <<3>>, tps |-> <<3, 232>>, sigh |-> <<1, 255, 255>>, rrh |-> <<3>>, opcodes |-> <<>>, rr_types |-> <<>>], [max |-> <<2>>, qrh |-> <<3, 255, 253>>, odh |-> <<2>>, tps |-> <<3, 232>>, sigh |-> <<1, 255, 255>>, rrh |-> <<3>>, opcodes |-> <<>>, rr_types |-> <<>>]>>, pre |-> [major |-> <<1>>, minor |-> <<>>, private |-> <<1>>], active |-> 0, bw |-> 1, hdr |-> 2, hb |-> <<[max |-> <<2>>, qrh |-> <<3, 255, 255>>, odh |-> <<3>>, tps |-> <<3, 232>>, sigh |-> <<1, 255, 255>>, rrh |-> <<3>>, opcodes |-> <<>>, rr_types |-> <<>>], [max |-> <<2>>, qrh |-> <<3, 255, 253>>, odh |-> <<2>>, tps |-> <<3, 232>>, sigh |-> <<1, 255, 255>>, rrh |-> <<3>>, opcodes |-> <<>>, rr_types |-> <<>>]>>, rep |-> 0])
        /\
        bps0 = (<<[max |-> <<2>>, qrh |-> <<3, 255, 255>>, odh |-> <<3>>, tps |-> <<3, 232>>, sigh |-> <<1, 255, 255>>, rrh |-> <<3>>, opcodes |-> <<>>, rr_types |-> <<>>], [max |-> <<2>>, qrh |-> <<3, 255, 253>>, odh |-> <<2>>, tps |-> <<3, 232>>, sigh |-> <<1, 255, 255>>, rrh |-> <<3>>, opcodes |-> <<>>, rr_types |-> <<>>]>>)
        /\
        nQR = (1)
    )
----

_init ==
    /\ bps0 = _TETrace[1].bps0
    /\ ex = _TETrace[1].ex
    /\ hist = _TETrace[1].hist
    /\ nQR = _TETrace[1].nQR
----

_next ==
    /\ \E i,j \in DOMAIN _TETrace:
        /\ \/ /\ j = i + 1
              /\ i = TLCGet("level")
        /\ bps0  = _TETrace[i].bps0
        /\ bps0' = _TETrace[j].bps0
        /\ ex  = _TETrace[i].ex
        /\ ex' = _TETrace[j].ex
        /\ hist  = _TETrace[i].hist
        /\ hist' = _TETrace[j].hist
        /\ nQR  = _TETrace[i].nQR
        /\ nQR' = _TETrace[j].nQR

\* Uncomment the ASSUME below to write the states of the error trace
\* to the given file in Json format. Note that you can pass any tuple
\* to `JsonSerialize`. For example, a sub-sequence of _TETrace.
    \* ASSUME
    \*     LET J == INSTANCE Json
    \*         IN J!JsonSerialize("MCExporterX_TTrace_1791091114.json", _TETrace)

=============================================================================

 Note that you can extract this module `MCExporterX_TEExpression`
  to a dedicated file to reuse `expression` (the module in the 
  dedicated `MCExporterX_TEExpression.tla` file takes precedence 
  over the module `MCExporterX_TEExpression` below).

---- MODULE MCExporterX_TEExpression ----
EXTENDS MCExporterX, Sequences, TLCExt, Toolbox, Naturals, TLC

expression == 
    [
        \* To hide variables of the `MCExporterX` spec from the error trace,
        \* remove the variables below.  The trace will be written in the order
        \* of the fields of this record.
        bps0 |-> bps0
        ,ex |-> ex
        ,hist |-> hist
        ,nQR |-> nQR
        
        \* Put additional constant-, state-, and action-level expressions here:
        \* ,_stateNumber |-> _TEPosition
        \* ,_bps0Unchanged |-> bps0 = bps0'
        
        \* Format the `bps0` variable as Json value.
        \* ,_bps0Json |->
        \*     LET J == INSTANCE Json
        \*     IN J!ToJson(bps0)
        
        \* Lastly, you may build expressions over arbitrary sets of states by
        \* leveraging the _TETrace operator.  For example, this is how to
        \* count the number of times a spec variable changed up to the current
        \* state in the trace.
        \* ,_bps0ModCount |->
        \*     LET F[s \in DOMAIN _TETrace] ==
        \*         IF s = 1 THEN 0
        \*         ELSE IF _TETrace[s].bps0 # _TETrace[s-1].bps0
        \*             THEN 1 + F[s-1] ELSE F[s-1]
        \*     IN F[_TEPosition - 1]
    ]

=============================================================================



Parsing and semantic processing can take forever if the trace below is long.
 In this case, it is advised to uncomment the module below to deserialize the
 trace from a generated binary file.

\*
\*---- MODULE MCExporterX_TETrace ----
\*EXTENDS MCExporterX, IOUtils, TLC
\*
\*trace == IODeserialize("MCExporterX_TTrace_1791091114.bin", TRUE)
\*
\*=============================================================================
\*

---- MODULE MCExporterX_TETrace ----
EXTENDS MCExporterX, TLC

trace == 
    <<
    ([hist |-> <<>>,ex |-> [xb |-> [qrs |-> <<>>, bpi |-> 0, mms |-> <<>>, aecs |-> <<>>, bp |-> [max |-> <<2>>, qrh |-> <<3, 255, 255>>, odh |-> <<3>>, tps |-> <<3, 232>>, sigh |-> <<1, 255, 255>>, rrh |-> <<3>>, opcodes |-> <<>>, rr_types |-> <<>>], stats |-> <<>>, et |-> <<>>], closed |-> <<>>, cur |-> <<>>, blk |-> [qrs |-> <<>>, bpi |-> 0, mms |-> <<>>, aecs |-> <<>>, bp |-> [max |-> <<2>>, qrh |-> <<3, 255, 255>>, odh |-> <<3>>, tps |-> <<3, 232>>, sigh |-> <<1, 255, 255>>, rrh |-> <<3>>, opcodes |-> <<>>, rr_types |-> <<>>], stats |-> <<>>, et |-> <<>>], bps |-> <<[max |-> <<2>>, qrh |-> <<3, 255, 255>>, odh |-> <<3>>, tps |-> <<3, 232>>, sigh |-> <<1, 255, 255>>, rrh |-> <<3>>, opcodes |-> <<>>, rr_types |-> <<>>], [max |-> <<2>>, qrh |-> <<3, 255, 253>>, odh |-> <<2>>, tps |-> <<3, 232>>, sigh |-> <<1, 255, 255>>, rrh |-> <<3>>, opcodes |-> <<>>, rr_types |-> <<>>]>>, pre |-> [major |-> <<1>>, minor |-> <<>>, private |-> <<1>>], active |-> 0, bw |-> 0, hdr |-> 0, hb |-> <<>>, rep |-> 0],bps0 |-> <<[max |-> <<2>>, qrh |-> <<3, 255, 255>>, odh |-> <<3>>, tps |-> <<3, 232>>, sigh |-> <<1, 255, 255>>, rrh |-> <<3>>, opcodes |-> <<>>, rr_types |-> <<>>], [max |-> <<2>>, qrh |-> <<3, 255, 253>>, odh |-> <<2>>, tps |-> <<3, 232>>, sigh |-> <<1, 255, 255>>, rrh |-> <<3>>, opcodes |-> <<>>, rr_types |-> <<>>]>>,nQR |-> 0]),
    ([hist |-> <<[op |-> "xnew", i |-> 1]>>,ex |-> [xb |-> [qrs |-> <<>>, bpi |-> 1, mms |-> <<>>, aecs |-> <<>>, bp |-> [max |-> <<2>>, qrh |-> <<3, 255, 253>>, odh |-> <<2>>, tps |-> <<3, 232>>, sigh |-> <<1, 255, 255>>, rrh |-> <<3>>, opcodes |-> <<>>, rr_types |-> <<>>], stats |-> <<>>, et |-> <<>>], closed |-> <<>>, cur |-> <<>>, blk |-> [qrs |-> <<>>, bpi |-> 0, mms |-> <<>>, aecs |-> <<>>, bp |-> [max |-> <<2>>, qrh |-> <<3, 255, 255>>, odh |-> <<3>>, tps |-> <<3, 232>>, sigh |-> <<1, 255, 255>>, rrh |-> <<3>>, opcodes |-> <<>>, rr_types |-> <<>>], stats |-> <<>>, et |-> <<>>], bps |-> <<[max |-> <<2>>, qrh |-> <<3, 255, 255>>, odh |-> <<3>>, tps |-> <<3, 232>>, sigh |-> <<1, 255, 255>>, rrh |-> <<3>>, opcodes |-> <<>>, rr_types |-> <<>>], [max |-> <<2>>, qrh |-> <<3, 255, 253>>, odh |-> <<2>>, tps |-> <<3, 232>>, sigh |-> <<1, 255, 255>>, rrh |-> <<3>>, opcodes |-> <<>>, rr_types |-> <<>>]>>, pre |-> [major |-> <<1>>, minor |-> <<>>, private |-> <<1>>], active |-> 0, bw |-> 0, hdr |-> 0, hb |-> <<>>, rep |-> 0],bps0 |-> <<[max |-> <<2>>, qrh |-> <<3, 255, 255>>, odh |-> <<3>>, tps |-> <<3, 232>>, sigh |-> <<1, 255, 255>>, rrh |-> <<3>>, opcodes |-> <<>>, rr_types |-> <<>>], [max |-> <<2>>, qrh |-> <<3, 255, 253>>, odh |-> <<2>>, tps |-> <<3, 232>>, sigh |-> <<1, 255, 255>>, rrh |-> <<3>>, opcodes |-> <<>>, rr_types |-> <<>>]>>,nQR |-> 0]),
    ([hist |-> <<[op |-> "xnew", i |-> 1], [op |-> "xclear"]>>,ex |-> [xb |-> [qrs |-> <<>>, bpi |-> 0, mms |-> <<>>, aecs |-> <<>>, bp |-> [max |-> <<2>>, qrh |-> <<3, 255, 253>>, odh |-> <<2>>, tps |-> <<3, 232>>, sigh |-> <<1, 255, 255>>, rrh |-> <<3>>, opcodes |-> <<>>, rr_types |-> <<>>], stats |-> <<>>, et |-> <<>>], closed |-> <<>>, cur |-> <<>>, blk |-> [qrs |-> <<>>, bpi |-> 0, mms |-> <<>>, aecs |-> <<>>, bp |-> [max |-> <<2>>, qrh |-> <<3, 255, 255>>, odh |-> <<3>>, tps |-> <<3, 232>>, sigh |-> <<1, 255, 255>>, rrh |-> <<3>>, opcodes |-> <<>>, rr_types |-> <<>>], stats |-> <<>>, et |-> <<>>], bps |-> <<[max |-> <<2>>, qrh |-> <<3, 255, 255>>, odh |-> <<3>>, tps |-> <<3, 232>>, sigh |-> <<1, 255, 255>>, rrh |-> <<3>>, opcodes |-> <<>>, rr_types |-> <<>>], [max |-> <<2>>, qrh |-> <<3, 255, 253>>, odh |-> <<2>>, tps |-> <<3, 232>>, sigh |-> <<1, 255, 255>>, rrh |-> <<3>>, opcodes |-> <<>>, rr_types |-> <<>>]>>, pre |-> [major |-> <<1>>, minor |-> <<>>, private |-> <<1>>], active |-> 0, bw |-> 0, hdr |-> 0, hb |-> <<>>, rep |-> 0],bps0 |-> <<[max |-> <<2>>, qrh |-> <<3, 255, 255>>, odh |-> <<3>>, tps |-> <<3, 232>>, sigh |-> <<1, 255, 255>>, rrh |-> <<3>>, opcodes |-> <<>>, rr_types |-> <<>>], [max |-> <<2>>, qrh |-> <<3, 255, 253>>, odh |-> <<2>>, tps |-> <<3, 232>>, sigh |-> <<1, 255, 255>>, rrh |-> <<3>>, opcodes |-> <<>>, rr_types |-> <<>>]>>,nQR |-> 0]),
    ([hist |-> <<[op |-> "xnew", i |-> 1], [op |-> "xclear"], [op |-> "xqr", r |-> [client_port |-> <<1>>, ts |-> [s |-> <<5>>, t |-> <<7>>]]]>>,ex |-> [xb |-> [qrs |-> <<[client_port |-> <<1>>, ts |-> <<19, 143>>]>>, bpi |-> 0, mms |-> <<>>, aecs |-> <<>>, bp |-> [max |-> <<2>>, qrh |-> <<3, 255, 253>>, odh |-> <<2>>, tps |-> <<3, 232>>, sigh |-> <<1, 255, 255>>, rrh |-> <<3>>, opcodes |-> <<>>, rr_types |-> <<>>], stats |-> <<>>, et |-> <<19, 143>>], closed |-> <<>>, cur |-> <<>>, blk |-> [qrs |-> <<>>, bpi |-> 0, mms |-> <<>>, aecs |-> <<>>, bp |-> [max |-> <<2>>, qrh |-> <<3, 255, 255>>, odh |-> <<3>>, tps |-> <<3, 232>>, sigh |-> <<1, 255, 255>>, rrh |-> <<3>>, opcodes |-> <<>>, rr_types |-> <<>>], stats |-> <<>>, et |-> <<>>], bps |-> <<[max |-> <<2>>, qrh |-> <<3, 255, 255>>, odh |-> <<3>>, tps |-> <<3, 232>>, sigh |-> <<1, 255, 255>>, rrh |-> <<3>>, opcodes |-> <<>>, rr_types |-> <<>>], [max |-> <<2>>, qrh |-> <<3, 255, 253>>, odh |-> <<2>>, tps |-> <<3, 232>>, sigh |-> <<1, 255, 255>>, rrh |-> <<3>>, opcodes |-> <<>>, rr_types |-> <<>>]>>, pre |-> [major |-> <<1>>, minor |-> <<>>, private |-> <<1>>], active |-> 0, bw |-> 0, hdr |-> 0, hb |-> <<>>, rep |-> 0],bps0 |-> <<[max |-> <<2>>, qrh |-> <<3, 255, 255>>, odh |-> <<3>>, tps |-> <<3, 232>>, sigh |-> <<1, 255, 255>>, rrh |-> <<3>>, opcodes |-> <<>>, rr_types |-> <<>>], [max |-> <<2>>, qrh |-> <<3, 255, 253>>, odh |-> <<2>>, tps |-> <<3, 232>>, sigh |-> <<1, 255, 255>>, rrh |-> <<3>>, opcodes |-> <<>>, rr_types |-> <<>>]>>,nQR |-> 0]),
    ([hist |-> <<[op |-> "xnew", i |-> 1], [op |-> "xclear"], [op |-> "xqr", r |-> [client_port |-> <<1>>, ts |-> [s |-> <<5>>, t |-> <<7>>]]], [op |-> "xwb"]>>,ex |-> [xb |-> [qrs |-> <<[client_port |-> <<1>>, ts |-> <<19, 143>>]>>, bpi |-> 0, mms |-> <<>>, aecs |-> <<>>, bp |-> [max |-> <<2>>, qrh |-> <<3, 255, 253>>, odh |-> <<2>>, tps |-> <<3, 232>>, sigh |-> <<1, 255, 255>>, rrh |-> <<3>>, opcodes |-> <<>>, rr_types |-> <<>>], stats |-> <<>>, et |-> <<19, 143>>], closed |-> <<>>, cur |-> <<[qrs |-> <<[client_port |-> <<1>>, ts |-> <<19, 143>>]>>, bpi |-> 0, mms |-> <<>>, aecs |-> <<>>, bp |-> [max |-> <<2>>, qrh |-> <<3, 255, 253>>, odh |-> <<2>>, tps |-> <<3, 232>>, sigh |-> <<1, 255, 255>>, rrh |-> <<3>>, opcodes |-> <<>>, rr_types |-> <<>>], stats |-> <<>>, et |-> <<19, 143>>]>>, blk |-> [qrs |-> <<>>, bpi |-> 0, mms |-> <<>>, aecs |-> <<>>, bp |-> [max |-> <<2>>, qrh |-> <<3, 255, 255>>, odh |-> <<3>>, tps |-> <<3, 232>>, sigh |-> <<1, 255, 255>>, rrh |-> <<3>>, opcodes |-> <<>>, rr_types |-> <<>>], stats |-> <<>>, et |-> <<>>], bps |-> <<[max |-> <<2>>, qrh |-> <<3, 255, 255>>, odh |-> <<3>>, tps |-> <<3, 232>>, sigh |-> <<1, 255, 255>>, rrh |-> <<3>>, opcodes |-> <<>>, rr_types |-> <<>>], [max |-> <<2>>, qrh |-> <<3, 255, 253>>, odh |-> <<2>>, tps |-> <<3, 232>>, sigh |-> <<1, 255, 255>>, rrh |-> <<3>>, opcodes |-> <<>>, rr_types |-> <<>>]>>, pre |-> [major |-> <<1>>, minor |-> <<>>, private |-> <<1>>], active |-> 0, bw |-> 1, hdr |-> 2, hb |-> <<[max |-> <<2>>, qrh |-> <<3, 255, 255>>, odh |-> <<3>>, tps |-> <<3, 232>>, sigh |-> <<1, 255, 255>>, rrh |-> <<3>>, opcodes |-> <<>>, rr_types |-> <<>>], [max |-> <<2>>, qrh |-> <<3, 255, 253>>, odh |-> <<2>>, tps |-> <<3, 232>>, sigh |-> <<1, 255, 255>>, rrh |-> <<3>>, opcodes |-> <<>>, rr_types |-> <<>>]>>, rep |-> 0],bps0 |-> <<[max |-> <<2>>, qrh |-> <<3, 255, 255>>, odh |-> <<3>>, tps |-> <<3, 232>>, sigh |-> <<1, 255, 255>>, rrh |-> <<3>>, opcodes |-> <<>>, rr_types |-> <<>>], [max |-> <<2>>, qrh |-> <<3, 255, 253>>, odh |-> <<2>>, tps |-> <<3, 232>>, sigh |-> <<1, 255, 255>>, rrh |-> <<3>>, opcodes |-> <<>>, rr_types |-> <<>>]>>,nQR |-> 1])
    >>
----


=============================================================================

---- CONFIG MCExporterX_TTrace_1791091114 ----
CONSTANTS
    MaxOps = 4
    Sizes = { 2 }
    Emit = FALSE
    XBug = "xclear_drops_index"

INVARIANT
    _inv

CHECK_DEADLOCK
    \* CHECK_DEADLOCK off because of PROPERTY or INVARIANT above.
    FALSE

INIT
    _init

NEXT
    _next

CONSTANT
    _TETrace <- _trace

ALIAS
    _expression
=============================================================================
\* Generated on Sun Oct 04 05:18:38 UTC 2026