------------------------------ MODULE Exporter ------------------------------
(***************************************************************************)
(* The exporter of c-dns (CdnsExporter + the CdnsBlock it fills) as an     *)
(* abstract state machine over generic records (C01, C10, C12, C13).       *)
(*                                                                         *)
(* State `ex` (one record):                                                *)
(*   pre     major / minor / optional private version                      *)
(*   bps     block-parameter sets of the file preamble (grows by AddBP)    *)
(*   active  index used for the NEXT block                                 *)
(*   blk     the block being filled: parameter index bpi, stored records   *)
(*           qrs / mms (hint-filtered, instants as ticks), address events  *)
(*           aecs (key -> count), stats (<<>> or <<s>>)                    *)
(*   bw      blocks written to the current output                          *)
(*   hdr     parameter sets in the current output's header (0 = none yet)  *)
(*   hb      the sets as they were when that header was written            *)
(*   cur     blocks written to the current output, in order                *)
(*   closed  outputs closed so far: [hdr, blocks, why]                     *)
(*   rep     sum of the byte counts returned since the output was opened   *)
(* The functions StepX return the new state and what the call reports;     *)
(* they are used by the model-checking spec (MCExporter), by the history   *)
(* generator (GenExporter) and by trace validation (TraceExporter).        *)
(***************************************************************************)
EXTENDS Records, Sequences

CONSTANT XBug      \* "none", or a named deviation of the state machine (model self-tests)

NoStats == <<>>
EmptyBlock(i, bp) == [bpi |-> i, bp |-> bp, qrs |-> <<>>, mms |-> <<>>, aecs |-> <<>>, stats |-> NoStats, et |-> <<>>]
    \* bp: the block's OWN COPY of the parameter set it was armed with (CdnsBlock::m_block_parameters); a later
    \* in-place edit of the preamble's set (get_active_block_parameters_ref) reaches a block only when it is re-armed
    \* et: earliest-time of the block in ticks (C17): set by the first timed record offered while the
    \* block holds no query/response or malformed message, lowered by any earlier timed record
    \* aecs: sequence of [key, n] in first-seen order (a bag; order is not part of the meaning)

ExInit(pre, bps) == [pre |-> pre, bps |-> bps, active |-> 0,
                     blk |-> EmptyBlock(0, IF Len(bps) > 0 THEN bps[1] ELSE <<>>),
                     xb |-> EmptyBlock(0, IF Len(bps) > 0 THEN bps[1] ELSE <<>>), bw |-> 0, hdr |-> 0, hb |-> <<>>,
                     cur |-> <<>>, closed |-> <<>>, rep |-> 0]

BP(ex)    == ex.blk.bp
Hints(ex) == HintsOf(BP(ex))
ItemCount(b) == Len(b.qrs) + Len(b.aecs) + Len(b.mms)

(* CdnsBlock::full(): one array reached max_block_items (0 behaves like 1: always "full") *)
ReachedMax(n, max) == IF ~FitsInt(max) THEN FALSE
                      ELSE IF XBug = "flush_late" THEN n > ToInt(max) ELSE n >= ToInt(max)
Full(b, bp) == ReachedMax(Len(b.qrs), bp.max) \/ ReachedMax(Len(b.aecs), bp.max) \/ ReachedMax(Len(b.mms), bp.max)

(* write_block(): write the buffered block if it holds items, start the next block with the active set *)
Flush(ex) ==
    LET wrote == ItemCount(ex.blk) > 0 IN
    [s |-> [ex EXCEPT !.cur = IF wrote THEN Append(@, ex.blk) ELSE @,
                      !.bw  = IF wrote THEN @ + 1 ELSE @,
                      !.hdr = IF wrote /\ ex.bw = 0 THEN (IF XBug = "stale_header" THEN 2 ELSE Len(ex.bps)) ELSE @,
                      !.hb  = IF wrote /\ ex.bw = 0 THEN ex.bps ELSE @,
                      !.blk = EmptyBlock(ex.active, ex.bps[ex.active + 1])],
     wrote |-> wrote]

WithStats(b, st) == IF st = NoStats THEN b ELSE [b EXCEPT !.stats = st]
FlushIfFull(ex1) == IF Full(ex1.blk, BP(ex1)) THEN Flush(ex1) ELSE [s |-> ex1, wrote |-> FALSE]

(* buffer_qr(rec, stats)  -- st is NoStats or <<stats>> *)
Earliest(b, rec, tps) ==
    IF "ts" \in DOMAIN rec /\ ((Len(b.qrs) = 0 /\ Len(b.mms) = 0) \/ Lt(TsTicks(rec.ts, tps), b.et))
    THEN (IF XBug = "earliest_first_only" /\ ~(Len(b.qrs) = 0 /\ Len(b.mms) = 0) THEN b.et ELSE TsTicks(rec.ts, tps))
    ELSE b.et

(* CdnsBlock::add_question_response_record / add_address_event_count / add_malformed_message (generic records) *)
(* on a block b armed with its own parameters b.bp                                                              *)
BlkQR(b, rec, st) ==
    LET h  == HintsOf(b.bp)
        b0 == [b EXCEPT !.et = Earliest(b, rec, b.bp.tps)]
        b1 == IF StorableQR(rec, h) THEN [b0 EXCEPT !.qrs = Append(@, FilterQR(rec, h, b.bp.tps))] ELSE b0
    IN WithStats(b1, st)

AddAEC(aecs, key) ==
    IF \E i \in 1..Len(aecs) : aecs[i].key = key
    THEN [i \in 1..Len(aecs) |-> IF aecs[i].key = key THEN [aecs[i] EXCEPT !.n = @ + 1] ELSE aecs[i]]
    ELSE Append(aecs, [key |-> key, n |-> 1])

(* ignored altogether when the address-event / malformed-message hint is off *)
(* the count member of a generic address event is an OUTPUT of reading; what a caller leaves in it is not part of the key *)
AecKeyIn(rec) == [f \in (DOMAIN rec \ {"ae_count_in"}) |-> rec[f]]
BlkAEC(b, rec, st) == IF ~AECEnabled(HintsOf(b.bp)) THEN b ELSE WithStats([b EXCEPT !.aecs = AddAEC(@, AecKeyIn(rec))], st)
BlkMM(b, rec, st) ==
    IF ~MMEnabled(HintsOf(b.bp)) THEN b
    ELSE LET b0 == [b EXCEPT !.et = Earliest(b, rec, b.bp.tps)]
             b1 == IF DOMAIN rec # {} THEN [b0 EXCEPT !.mms = Append(@, FilterMM(rec, b.bp.tps))] ELSE b0
         IN WithStats(b1, st)
(* the value the add_* calls return: is the block full now?  (false at once when the hint drops the record) *)
BlkFullAfter(b, b1, kind) ==
    IF kind = "aec" /\ ~AECEnabled(HintsOf(b.bp)) THEN FALSE
    ELSE IF kind = "mm" /\ ~MMEnabled(HintsOf(b.bp)) THEN FALSE
    ELSE Full(b1, b1.bp)

(* buffer_qr / buffer_aec / buffer_mm (rec, stats) -- st is NoStats or <<stats>> *)
StepQR(ex, rec, st) == FlushIfFull([ex EXCEPT !.blk = BlkQR(ex.blk, rec, st)])
StepAEC(ex, rec, st) ==
    IF ~AECEnabled(Hints(ex)) THEN [s |-> ex, wrote |-> FALSE]
    ELSE FlushIfFull([ex EXCEPT !.blk = BlkAEC(ex.blk, rec, st)])
StepMM(ex, rec, st) ==
    IF ~MMEnabled(Hints(ex)) THEN [s |-> ex, wrote |-> FALSE]
    ELSE FlushIfFull([ex EXCEPT !.blk = BlkMM(ex.blk, rec, st)])

(* ---- a second block the application keeps itself (CdnsBlock used directly) and hands to write_block(block) ---- *)
XNew(ex, i)  == [ex EXCEPT !.xb = EmptyBlock(i, ex.bps[i + 1])]
XSet(ex, i)  == IF ItemCount(ex.xb) > 0 THEN [s |-> ex, ok |-> FALSE]
                ELSE [s |-> [ex EXCEPT !.xb = [@ EXCEPT !.bpi = i, !.bp = ex.bps[i + 1]]], ok |-> TRUE]
XClear(ex)   == [ex EXCEPT !.xb = EmptyBlock(IF XBug = "xclear_drops_index" THEN 0 ELSE ex.xb.bpi, ex.xb.bp)]   \* (deviation: clear() forgets the stated set)
XAdd(ex, kind, rec, st) ==
    LET b1 == CASE kind = "qr" -> BlkQR(ex.xb, rec, st) [] kind = "aec" -> BlkAEC(ex.xb, rec, st) [] OTHER -> BlkMM(ex.xb, rec, st)
    IN [s |-> [ex EXCEPT !.xb = b1], full |-> BlkFullAfter(ex.xb, b1, kind)]
XWrite(ex) ==        \* write_block(block): the block is written if it holds items; it is NOT cleared
    IF ItemCount(ex.xb) = 0 THEN [s |-> ex, wrote |-> FALSE]
    ELSE [s |-> [ex EXCEPT !.cur = Append(@, ex.xb), !.bw = @ + 1,
                           !.hdr = IF ex.bw = 0 THEN Len(ex.bps) ELSE @, !.hb = IF ex.bw = 0 THEN ex.bps ELSE @],
          wrote |-> TRUE]

StepWB(ex) == Flush(ex)

CloseOutput(ex, why) ==
    [ex EXCEPT !.closed = Append(@, [hdr |-> ex.hdr, blocks |-> ex.cur, why |-> why, pre |-> ex.pre,
                                     bps |-> SubSeq(ex.hb, 1, ex.hdr), rep |-> ex.rep]),
               !.cur = <<>>, !.bw = 0, !.hdr = 0, !.hb = <<>>, !.rep = 0]

(* rotate_output(out, export): optional write_block, close, open the next output *)
StepRot(ex, export) ==
    LET f == IF export THEN Flush(ex)
             ELSE IF XBug = "rot_drops_block" THEN [s |-> [ex EXCEPT !.blk = EmptyBlock(ex.active, ex.bps[ex.active + 1])], wrote |-> FALSE]
             ELSE [s |-> ex, wrote |-> FALSE]
    IN [s |-> CloseOutput(f.s, "rot"), wrote |-> f.wrote \/ f.s.bw > 0]

StepAddBP(ex, bp) == [s |-> [ex EXCEPT !.bps = Append(@, bp)], idx |-> Len(ex.bps)]
(* get_active_block_parameters_ref() = bp : the active set of the preamble is replaced in place *)
StepEditBP(ex, bp) == [ex EXCEPT !.bps[ex.active + 1] = bp]
StepSetBP(ex, i)  == IF i < Len(ex.bps) THEN [s |-> [ex EXCEPT !.active = i], ok |-> TRUE] ELSE [s |-> ex, ok |-> FALSE]
StepDestroy(ex)   == CloseOutput(ex, "destroy")

(* the documented caller duty (C13 precondition): a set that is not in the header of the *)
(* output that already holds blocks must not become the index of a block of that output  *)
SetBPAllowed(ex, i) == ex.bw = 0 \/ i < ex.hdr \/ i >= Len(ex.bps)

(* ------------- what a closed output must denote (C01 / C13) ------------ *)
AecSet(b) == {[f \in (DOMAIN b.aecs[i].key \cup {"count"}) |->
                  IF f = "count" THEN FromInt(b.aecs[i].n) ELSE b.aecs[i].key[f]] : i \in 1..Len(b.aecs)}

(* ------------------------- model-level properties ---------------------- *)
MaxOf(bp) == IF ~FitsInt(bp.max) THEN 1000000 ELSE IF ToInt(bp.max) = 0 THEN 1 ELSE ToInt(bp.max)
BlockSizeOK(b, bps) ==
    LET m == MaxOf(b.bp) IN
    /\ ItemCount(b) > 0
    /\ Len(b.qrs) <= m /\ Len(b.aecs) <= m /\ Len(b.mms) <= m
C12_BlockSizes(ex) ==
    /\ \A i \in 1..Len(ex.cur) : BlockSizeOK(ex.cur[i], ex.bps)
    /\ \A o \in 1..Len(ex.closed) : \A i \in 1..Len(ex.closed[o].blocks) : BlockSizeOK(ex.closed[o].blocks[i], ex.bps)
    /\ ~Full(ex.blk, BP(ex)) \/ ItemCount(ex.blk) = 0
(* every block of an output refers to a parameter set present in that output's header *)
C13_SelfContained(ex) ==
    /\ \A o \in 1..Len(ex.closed) :
          /\ (Len(ex.closed[o].blocks) = 0) = (ex.closed[o].hdr = 0)
          /\ \A i \in 1..Len(ex.closed[o].blocks) : ex.closed[o].blocks[i].bpi < ex.closed[o].hdr
    /\ \A i \in 1..Len(ex.cur) : ex.cur[i].bpi < ex.hdr
    /\ ex.bw = Len(ex.cur)

(* C17: the block's earliest-time is not later than any stored instant *)
EarliestOK(b) == /\ \A i \in 1..Len(b.qrs) : "ts" \in DOMAIN b.qrs[i] => Le(b.et, b.qrs[i].ts)
                 /\ \A i \in 1..Len(b.mms) : "ts" \in DOMAIN b.mms[i] => Le(b.et, b.mms[i].ts)
C17_Earliest(ex) ==
    /\ EarliestOK(ex.blk)
    /\ \A i \in 1..Len(ex.cur) : EarliestOK(ex.cur[i])
    /\ \A o \in 1..Len(ex.closed) : \A i \in 1..Len(ex.closed[o].blocks) : EarliestOK(ex.closed[o].blocks[i])

RECURSIVE FlatQR(_, _), FlatMM(_, _)
FlatQR(blocks, i) == IF i > Len(blocks) THEN <<>> ELSE blocks[i].qrs \o FlatQR(blocks, i + 1)
FlatMM(blocks, i) == IF i > Len(blocks) THEN <<>> ELSE blocks[i].mms \o FlatMM(blocks, i + 1)
RECURSIVE AllQR(_, _), AllMM(_, _)
AllQR(closed, o) == IF o > Len(closed) THEN <<>> ELSE FlatQR(closed[o].blocks, 1) \o AllQR(closed, o + 1)
AllMM(closed, o) == IF o > Len(closed) THEN <<>> ELSE FlatMM(closed[o].blocks, 1) \o AllMM(closed, o + 1)
(* all query/responses (malformed messages) the exporter holds anywhere, in output order *)
StreamQR(ex) == AllQR(ex.closed, 1) \o FlatQR(ex.cur, 1) \o ex.blk.qrs
StreamMM(ex) == AllMM(ex.closed, 1) \o FlatMM(ex.cur, 1) \o ex.blk.mms
AecTotal(ex) ==
    LET AllBlocks == {ex.blk} \cup {ex.cur[i] : i \in 1..Len(ex.cur)}
                     \cup UNION {{ex.closed[o].blocks[i] : i \in 1..Len(ex.closed[o].blocks)} : o \in 1..Len(ex.closed)}
    IN AllBlocks
=============================================================================
