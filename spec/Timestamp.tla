------------------------------ MODULE Timestamp ------------------------------
(***************************************************************************)
(* Timestamps of c-dns (src/timestamp.cpp; C17).                           *)
(* Abs : mathematical integers.  An instant (secs, ticks) at rate tps is   *)
(*       secs*tps + ticks; the offset of t from ref is the exact signed    *)
(*       difference; adding an offset is refused at rate 0 or when the     *)
(*       result would precede the epoch, and then leaves the value alone.  *)
(* Impl: the same computations in W-bit two's-complement words (the code   *)
(*       uses 64-bit words; the model is scaled to WBits so that TLC can   *)
(*       enumerate every word including the minimum).  TsBug = "negmin" is *)
(*       the pinned test `-1 * offset > ticks`, whose negation overflows   *)
(*       for the minimum word.  TsBug = "addoverflow" is the pinned        *)
(*       `ticks += offset` without a test: undefined (signed overflow, ub) *)
(*       when the sum exceeds the largest word -- reachable from the       *)
(*       reader with an earliest-time just below 2^63 ticks (C03).  The    *)
(*       repaired code refuses such an offset.                             *)
(***************************************************************************)
EXTENDS Integers, TLC

CONSTANTS WBits, TsBug

RECURSIVE P2(_)
P2(k) == IF k = 0 THEN 1 ELSE 2 * P2(k - 1)
MinW == -P2(WBits - 1)
MaxW == P2(WBits - 1) - 1
Word == MinW..MaxW
Wrap(x) == ((x - MinW) % P2(WBits)) + MinW           \* two's-complement wrap-around

(* ------------------------------- Abs ----------------------------------- *)
Inst(ts, tps) == ts.s * tps + ts.t
AbsOffset(t, ref, tps) == Inst(t, tps) - Inst(ref, tps)
AbsAddRefused(ref, off, tps) == tps = 0 \/ Inst(ref, tps) + off < 0
AbsAdd(ref, off, tps) == LET x == Inst(ref, tps) + off IN [s |-> x \div tps, t |-> x % tps]
Normalised(ts, tps) == ts.t < tps

(* ------------------------------- Impl ---------------------------------- *)
ImplOffset(t, ref, tps) == Wrap(Wrap(t.s * tps + t.t) - Wrap(ref.s * tps + ref.t))
ImplAdd(ref, off, tps) ==
    IF tps = 0 THEN [refused |-> TRUE, ts |-> ref, ub |-> FALSE]
    ELSE LET ticks == Wrap(ref.s * tps + ref.t)
             refuse == IF TsBug = "negmin" THEN Wrap(-1 * off) > ticks     \* -MinW wraps to MinW
                       ELSE off < -ticks
             over   == off > 0 /\ ticks > MaxW - off                      \* ticks + off is not a word
         IN IF refuse THEN [refused |-> TRUE, ts |-> ref, ub |-> FALSE]
            ELSE IF over /\ TsBug # "addoverflow" THEN [refused |-> TRUE, ts |-> ref, ub |-> FALSE]
            ELSE LET x == Wrap(ticks + off) IN
                 \* unsigned reinterpretation of a negative word: a huge value, never the right answer
                 IF x < 0 THEN [refused |-> FALSE, ts |-> [s |-> -1, t |-> -1], ub |-> over]
                 ELSE [refused |-> FALSE, ts |-> [s |-> x \div tps, t |-> x % tps], ub |-> over]
=============================================================================
