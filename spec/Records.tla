------------------------------ MODULE Records ------------------------------
(***************************************************************************)
(* Generic records (what an application hands to buffer_qr / buffer_aec /  *)
(* buffer_mm) and what the storage hints of the block parameters in force  *)
(* leave of them (RFC 8618 section 7.3.1.1.1 storage-hints; C04).          *)
(* A record is a function from member names to values; absent optional     *)
(* members are absent from its domain.                                     *)
(***************************************************************************)
EXTENDS Bytes, FiniteSets, TLC

(* hint bit of each directly stored query/response member *)
QRBit(f) ==
    CASE f = "ts" -> 0 [] f = "client_ip" -> 1 [] f = "client_port" -> 2 [] f = "transaction_id" -> 3
      [] f = "client_hoplimit" -> 5 [] f = "response_delay" -> 6 [] f = "query_name" -> 7
      [] f = "query_size" -> 8 [] f = "response_size" -> 9
      [] f \in {"bailiwick", "processing_flags"} -> 10
      [] f \in {"query_questions", "response_questions"} -> 11
      [] f = "query_answers" -> 12 [] f = "query_authority" -> 13 [] f = "query_additional" -> 14
      [] f = "response_answers" -> 15 [] f = "response_authority" -> 16 [] f = "response_additional" -> 17
      [] OTHER -> -1
(* members stored in the query/response signature: need bit 4 of the qr hints and their own bit *)
SigBit(f) ==
    CASE f = "server_ip" -> 0 [] f = "server_port" -> 1 [] f = "qr_transport_flags" -> 2 [] f = "qr_type" -> 3
      [] f = "qr_sig_flags" -> 4 [] f = "query_opcode" -> 5 [] f = "qr_dns_flags" -> 6 [] f = "query_rcode" -> 7
      [] f = "query_classtype" -> 8 [] f = "query_qdcount" -> 9 [] f = "query_ancount" -> 10
      [] f = "query_nscount" -> 11 [] f = "query_arcount" -> 12 [] f = "query_edns_version" -> 13
      [] f = "query_udp_size" -> 14 [] f = "query_opt_rdata" -> 15 [] f = "response_rcode" -> 16
      [] OTHER -> -1
Unhinted == {"asn", "country_code", "round_trip_time"}
QuestionLists == {"query_questions", "response_questions"}
RRLists == {"query_answers", "query_authority", "query_additional",
            "response_answers", "response_authority", "response_additional"}

(* hints: [qrh, sigh, rrh, odh] as small integers; every assigned bit lies below 2^24, so the low three bytes *)
(* decide (a hint may carry any unassigned bit of its declared width, which has no effect on storage)           *)
Low3(s) == LET t == Strip(s) IN ToInt(IF Len(t) <= 3 THEN t ELSE SubSeq(t, Len(t) - 2, Len(t)))
HintsOf(bp) == [qrh |-> Low3(bp.qrh), sigh |-> Low3(bp.sigh), rrh |-> Low3(bp.rrh), odh |-> Low3(bp.odh)]

KeepQR(f, rec, h) ==
    IF f \in Unhinted THEN TRUE
    ELSE IF SigBit(f) >= 0 THEN Bit(h.qrh, 4) /\ Bit(h.sigh, SigBit(f))
    ELSE IF QRBit(f) >= 0 THEN Bit(h.qrh, QRBit(f)) /\ (f \in (QuestionLists \cup RRLists) => Len(rec[f]) > 0)
    ELSE FALSE

FilterRR(r, h) == [x \in {y \in DOMAIN r : (y = "ttl" => Bit(h.rrh, 0)) /\ (y = "rdata" => Bit(h.rrh, 1))} |-> r[x]]
FilterQ(r)     == [x \in {"name", "ct"} |-> r[x]]

(* instants are compared as ticks since the epoch at the block's rate *)
TsTicks(ts, tps) == Add(Mul(ts.s, tps), ts.t)

FilterQR(rec, h, tps) ==
    [f \in {g \in DOMAIN rec : KeepQR(g, rec, h)} |->
        IF f = "ts" THEN TsTicks(rec[f], tps)
        ELSE IF f \in QuestionLists THEN [i \in 1..Len(rec[f]) |-> FilterQ(rec[f][i])]
        ELSE IF f \in RRLists THEN [i \in 1..Len(rec[f]) |-> FilterRR(rec[f][i], h)]
        ELSE rec[f]]
StorableQR(rec, h) == \E f \in DOMAIN rec : KeepQR(f, rec, h)

MMEnabled(h)  == Bit(h.odh, 0)
AECEnabled(h) == Bit(h.odh, 1)
FilterMM(rec, tps) == [f \in DOMAIN rec |-> IF f = "ts" THEN TsTicks(rec[f], tps) ELSE rec[f]]
StorableMM(rec, h) == MMEnabled(h) /\ DOMAIN rec # {}

(* what a reader returns, brought to the same form (ts as ticks; lists as given) *)
NormRead(rec, tps) == [f \in DOMAIN rec |-> IF f = "ts" THEN TsTicks(rec[f], tps) ELSE rec[f]]
TsNormalised(rec, tps) == "ts" \in DOMAIN rec => Lt(rec.ts.t, tps)

(* address events: key -> count *)
AECKey(r) == [f \in (DOMAIN r \ {"count"}) |-> r[f]]
=============================================================================
