---------------------------- MODULE TraceDecoder ----------------------------
(***************************************************************************)
(* Trace validation of the real CdnsDecoder against Decoder!AbsExpect.     *)
(* Each execution: a stream of `pad` one-byte zero items followed by       *)
(* `tail`; the padding reads are summarised in a "P" event, every          *)
(* operation on the tail is an "O" event with its outcome.  The property-  *)
(* level specification is independent of the window, so only the tail is   *)
(* interpreted here; where the tail lies relative to the real 65535-byte   *)
(* window is what the driver varies.                                       *)
(*   expected "end", observed something else            -> C05             *)
(*   expected a value, observed another value/outcome   -> C07             *)
(***************************************************************************)
EXTENDS Decoder, Json, IOUtils

Tr == ndJsonDeserialize(IOEnv.TRACE)
N  == Len(Tr)

VARIABLES l, S, pad, p, ended, lost, viol, execs
tvars == <<l, S, pad, p, ended, lost, viol, execs>>

Note(v) == IF Len(viol) < 40 THEN Append(viol, v) ELSE viol

TraceInit == /\ l = 1 /\ S = <<>> /\ pad = 0 /\ p = 0 /\ ended = FALSE /\ lost = FALSE
             /\ viol = <<>> /\ execs = 0

TReset ==
    /\ l <= N /\ Tr[l].e = "R"
    /\ S' = (IF Tr[l].kind = "unopened" THEN <<>> ELSE Tr[l].tail)
    /\ pad' = (IF Tr[l].kind = "unopened" THEN 0 ELSE Tr[l].pad)
    /\ p' = 0 /\ ended' = FALSE /\ lost' = FALSE
    /\ execs' = execs + 1 /\ l' = l + 1
    /\ UNCHANGED viol

(* a peek inside the padding: type 0, nothing consumed *)
TPeekPad ==
    /\ l <= N /\ Tr[l].e = "PK"
    /\ l' = l + 1
    /\ UNCHANGED <<S, pad, p, ended, execs>>
    /\ IF lost \/ (Tr[l].out = "val" /\ Tr[l].v = 0) THEN UNCHANGED <<viol, lost>>
       ELSE /\ viol' = Note([l |-> l, prop |-> "C05,C07", what |-> "peek_type on a non-empty stream did not report an unsigned item",
                             out |-> Tr[l].out])
            /\ lost' = TRUE

(* the padding: exactly `pad` items, all read, then the tail follows *)
TPad ==
    /\ l <= N /\ Tr[l].e = "P"
    /\ l' = l + 1
    /\ UNCHANGED <<S, pad, p, ended, execs>>
    /\ IF lost \/ (Tr[l].k = pad /\ Tr[l].cnt = pad /\ Tr[l].out = "ok") THEN UNCHANGED <<viol, lost>>
       ELSE /\ viol' = Note([l |-> l, prop |-> "C05,C07",
                             what |-> "reading the items before the tail failed or stopped early",
                             padding |-> pad, read |-> Tr[l].cnt, out |-> Tr[l].out])
            /\ lost' = TRUE

TOp ==
    /\ l <= N /\ Tr[l].e = "O"
    /\ l' = l + 1
    /\ UNCHANGED <<S, pad, execs>>
    /\ IF lost THEN UNCHANGED <<p, ended, lost, viol>>
       ELSE
       LET ev  == Tr[l]
           exp == IF ended THEN EndOut ELSE AbsExpect(S, p, ev.op)
           out == [k |-> ev.out, v |-> IF "v" \in DOMAIN ev THEN ev.v ELSE 0]
       IN IF Conforms(exp, out)
          THEN /\ p' = IF exp.k = "val" THEN exp.p ELSE p
               /\ ended' = (ended \/ ev.out = "end")
               /\ lost' = (exp.k = "any" \/ ev.out = "err")
               /\ UNCHANGED viol
          \* a VALUE where the input is exhausted can only come from stale or never-filled buffer bytes: C03 as well
          ELSE /\ viol' = Note([l |-> l, prop |-> IF exp.k = "end" THEN (IF ev.out = "val" THEN "C05,C03" ELSE "C05") ELSE "C07",
                                what |-> IF exp.k = "end"
                                         THEN "end of input not reported: operation " \o ev.op \o " returned " \o ev.out
                                         ELSE "operation " \o ev.op \o " on a well-formed item: wrong value or outcome " \o ev.out,
                                op |-> ev.op, pos |-> p, padding |-> pad, tail |-> S])
               /\ lost' = TRUE
               /\ UNCHANGED <<p, ended>>

TCrash ==
    /\ l <= N /\ Tr[l].e = "CRASH"
    /\ l' = l + 1
    /\ viol' = Note([l |-> l, prop |-> "C03,C05,C07", what |-> "implementation crashed: " \o Tr[l].what,
                     padding |-> pad, tail |-> S])
    /\ lost' = TRUE
    /\ UNCHANGED <<S, pad, p, ended, execs>>

TEnd ==
    /\ l <= N /\ Tr[l].e = "END"
    /\ ndJsonSerialize(IOEnv.OUT, <<[execs |-> execs, events |-> N, viol |-> viol, drift |-> <<>>]>>)
    /\ l' = l + 1
    /\ UNCHANGED <<S, pad, p, ended, lost, viol, execs>>

TraceNext == TReset \/ TPeekPad \/ TPad \/ TOp \/ TCrash \/ TEnd
TraceSpec == TraceInit /\ [][TraceNext]_tvars
TraceConsumed == TLCGet("stats").diameter - 1 = N
=============================================================================
