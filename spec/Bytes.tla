------------------------------- MODULE Bytes -------------------------------
(***************************************************************************)
(* Byte sequences and unbounded naturals for the c-dns specification.      *)
(*                                                                         *)
(* TLC integers are 32-bit, so every quantity of the C-DNS format that can *)
(* exceed 2^31-1 (CBOR arguments, timestamps, counters, offsets) is kept   *)
(* as a big-endian sequence of bytes with leading zero bytes stripped      *)
(* ("Nat256": <<>> is 0).  This is also exactly how RFC 8949 defines the   *)
(* argument of a head, so no conversion is involved when a file is parsed. *)
(***************************************************************************)
EXTENDS Naturals, Integers, Sequences

Byte == 0..255

IsBytes(s) == /\ DOMAIN s = 1..Len(s)
              /\ \A i \in 1..Len(s) : s[i] \in Byte

(* n copies of byte b *)
Fill(b, n) == [i \in 1..n |-> b]

RECURSIVE StripFrom(_, _)
StripFrom(s, i) == IF i > Len(s) THEN <<>>
                   ELSE IF s[i] # 0 THEN SubSeq(s, i, Len(s))
                   ELSE StripFrom(s, i + 1)
(* remove leading zero bytes: canonical Nat256 *)
Strip(s) == StripFrom(s, 1)

(* left-pad with zeros to n bytes (n >= Len(s)) *)
Pad(s, n) == Fill(0, n - Len(s)) \o s

(* small Nat256 -> TLC integer; only applied when Len(s) <= 3 (< 2^24) *)
RECURSIVE ToIntAcc(_, _, _)
ToIntAcc(s, i, acc) == IF i > Len(s) THEN acc ELSE ToIntAcc(s, i + 1, acc * 256 + s[i])
ToInt(s) == ToIntAcc(s, 1, 0)
FitsInt(s) == Len(Strip(s)) <= 3

(* TLC integer (0 <= n < 2^31) -> Nat256 *)
RECURSIVE FromInt(_)
FromInt(n) == IF n = 0 THEN <<>> ELSE FromInt(n \div 256) \o <<n % 256>>

(* ---------------- arithmetic on Nat256 (schoolbook, base 256) --------- *)
(* work on little-endian digit sequences internally *)
Rev(s) == [i \in 1..Len(s) |-> s[Len(s) + 1 - i]]
Digit(s, i) == IF i <= Len(s) THEN s[i] ELSE 0
Max(a, b) == IF a >= b THEN a ELSE b

RECURSIVE AddLE(_, _, _, _)
AddLE(a, b, i, carry) ==
    IF i > Max(Len(a), Len(b))
    THEN IF carry = 0 THEN <<>> ELSE <<carry>>
    ELSE LET t == Digit(a, i) + Digit(b, i) + carry
         IN <<t % 256>> \o AddLE(a, b, i + 1, t \div 256)
Add(x, y) == Strip(Rev(AddLE(Rev(x), Rev(y), 1, 0)))

(* multiply little-endian a by small integer m (0 <= m < 2^23) *)
RECURSIVE MulSmallLE(_, _, _, _)
MulSmallLE(a, m, i, carry) ==
    IF i > Len(a)
    THEN IF carry = 0 THEN <<>> ELSE <<carry % 256>> \o MulSmallLE(a, m, i, carry \div 256)
    ELSE LET t == a[i] * m + carry
         IN <<t % 256>> \o MulSmallLE(a, m, i + 1, t \div 256)

(* x * y for Nat256 x, y: sum over bytes of y *)
RECURSIVE MulAcc(_, _, _, _)
MulAcc(x, y, i, acc) ==
    \* acc holds x * (y[1..i-1]) ; shift by one byte and add x*y[i]
    IF i > Len(y) THEN acc
    ELSE MulAcc(x, y, i + 1,
                Add(acc \o <<0>>, Strip(Rev(MulSmallLE(Rev(x), y[i], 1, 0)))))
Mul(x, y) == Strip(MulAcc(Strip(x), Strip(y), 1, <<>>))

(* comparison of canonical Nat256: -1, 0, 1 *)
RECURSIVE CmpFrom(_, _, _)
CmpFrom(a, b, i) == IF i > Len(a) THEN 0
                    ELSE IF a[i] < b[i] THEN -1
                    ELSE IF a[i] > b[i] THEN 1
                    ELSE CmpFrom(a, b, i + 1)
Cmp(x, y) == LET a == Strip(x)  b == Strip(y)
             IN IF Len(a) < Len(b) THEN -1
                ELSE IF Len(a) > Len(b) THEN 1
                ELSE CmpFrom(a, b, 1)
Lt(x, y) == Cmp(x, y) = -1
Le(x, y) == Cmp(x, y) <= 0

(* bitwise complement of an 8-byte two's-complement value: the CBOR         *)
(* argument of the negative integer it denotes (-1 - n  <=>  ~n)            *)
Compl(s) == [i \in 1..Len(s) |-> 255 - s[i]]

(* bit k (0 = least significant) of a small integer *)
RECURSIVE Pow2(_)
Pow2(k) == IF k = 0 THEN 1 ELSE 2 * Pow2(k - 1)
Bit(n, k) == (n \div Pow2(k)) % 2 = 1

IsPrefixOf(p, s) == /\ Len(p) <= Len(s)
                    /\ \A i \in 1..Len(p) : p[i] = s[i]
=============================================================================
