---------------------------- MODULE MCBlockTable ----------------------------
(***************************************************************************)
(* All histories up to MaxOps over three table slots and a pool of values: *)
(* add, addv (add_value: append without de-duplication, as the reader      *)
(* does), clear, copy (construction and assignment onto a live table),     *)
(* destroy.  After every step the Impl tables must agree with the Abs      *)
(* tables kept side by side (C11: indices returned, no duplicates,         *)
(* stability; C19: a copy behaves like a fresh table with the same         *)
(* content, whatever happens to its source) and ub must be unreachable.    *)
(***************************************************************************)
EXTENDS BlockTable, Json, IOUtils

CONSTANTS MaxOps, Vals, Emit

CONSTANT WithAddValue
VARIABLES heap, abs, hist, lastIdx, lastAbs, ub, raw      \* raw[t]: the table received a value through add_value
vars == <<heap, abs, hist, lastIdx, lastAbs, ub, raw>>

Slots == {1, 2, 3}

MCInit == /\ heap = [t \in Slots |-> IF t = 1 THEN NewTable ELSE [NewTable EXCEPT !.alive = FALSE]]
          /\ abs = [t \in Slots |-> <<>>]
          /\ hist = <<>> /\ lastIdx = -1 /\ lastAbs = -1 /\ ub = FALSE /\ raw = [t \in Slots |-> FALSE]

DoAdd(t, v) ==
    /\ heap[t].alive
    /\ LET r == ImplAdd(heap, t, v)
           a == AbsAdd(abs[t], v)
       IN /\ heap' = r.heap /\ ub' = (ub \/ r.ub)
          /\ abs' = [abs EXCEPT ![t] = a.items]
          /\ lastIdx' = r.idx /\ lastAbs' = a.idx
    /\ hist' = Append(hist, [op |-> "add", t |-> t, v |-> v])
    /\ UNCHANGED raw

DoAddValue(t, v) ==
    /\ WithAddValue /\ heap[t].alive
    /\ LET r == ImplAddValue(heap, t, v)
           a == AbsAddValue(abs[t], v)
       IN /\ heap' = r.heap /\ ub' = (ub \/ r.ub)
          /\ abs' = [abs EXCEPT ![t] = a.items]
          /\ lastIdx' = r.idx /\ lastAbs' = a.idx
    /\ raw' = [raw EXCEPT ![t] = TRUE]
    /\ hist' = Append(hist, [op |-> "addv", t |-> t, v |-> v])

DoClear(t) ==
    /\ heap[t].alive
    /\ heap' = ImplClear(heap, t) /\ abs' = [abs EXCEPT ![t] = <<>>]
    /\ hist' = Append(hist, [op |-> "clear", t |-> t])
    /\ raw' = [raw EXCEPT ![t] = FALSE]
    /\ UNCHANGED <<lastIdx, lastAbs, ub>>

DoCopy(s, d) ==
    /\ s # d /\ heap[s].alive
    /\ heap' = ImplCopy(heap, s, d) /\ abs' = [abs EXCEPT ![d] = abs[s]]
    /\ hist' = Append(hist, [op |-> "copy", src |-> s, dst |-> d])
    /\ raw' = [raw EXCEPT ![d] = raw[s]]
    /\ UNCHANGED <<lastIdx, lastAbs, ub>>

DoDestroy(t) ==
    /\ heap[t].alive /\ \E u \in Slots \ {t} : heap[u].alive
    /\ heap' = ImplDestroy(heap, t) /\ abs' = [abs EXCEPT ![t] = <<>>]
    /\ hist' = Append(hist, [op |-> "destroy", t |-> t])
    /\ raw' = [raw EXCEPT ![t] = FALSE]
    /\ UNCHANGED <<lastIdx, lastAbs, ub>>

MCNext == /\ Len(hist) < MaxOps
          /\ \/ \E t \in Slots : \E v \in Vals : DoAdd(t, v)
             \/ \E t \in Slots : \E v \in Vals : DoAddValue(t, v)
             \/ \E t \in Slots : DoClear(t)
             \/ \E s \in Slots : \E d \in Slots : DoCopy(s, d)
             \/ \E t \in Slots : DoDestroy(t)
MCSpec == MCInit /\ [][MCNext]_vars

C19_NoUB       == ~ub
C11_AddReturns == ub \/ lastIdx = lastAbs
C11_Content    == ub \/ \A t \in Slots : heap[t].alive => heap[t].items = abs[t]
C11_NoDup      == \A t \in Slots : raw[t] \/ NoDup(abs[t])          \* tables filled by add alone hold no value twice
(* every lookup structure agrees with the content: each stored value is found at its last position *)
C19_IndexOK    == ub \/ \A t \in Slots : heap[t].alive =>
                           \A i \in 1..Len(abs[t]) : ImplFind(heap, t, abs[t][i]).idx = PosOf(abs[t], abs[t][i])
(* indices stay valid and keep denoting the same value until the table is cleared / overwritten *)
C11_Stable     == [][\A t \in Slots : (heap[t].alive /\ heap'[t].alive /\ heap'[t].gen = heap[t].gen)
                          => \A i \in 1..Len(abs[t]) : Len(abs'[t]) >= i /\ abs'[t][i] = abs[t][i]]_vars

EmitDone == (Emit /\ Len(hist) = MaxOps) => PrintT(<<"HIST", ToJson([ops |-> hist])>>)
=============================================================================
