--------------------------- MODULE TraceTimestamp ---------------------------
(***************************************************************************)
(* Trace validation of the real CDNS::Timestamp against exact arithmetic   *)
(* on unbounded naturals (module Bytes: Nat256, so 64-bit values never     *)
(* meet TLC's 32-bit integers).  Signed results are [neg, a] = a, or       *)
(* -1 - a when neg; relations are verified by addition, never by           *)
(* subtraction or division:                                                *)
(*   offset r of t from ref :  Inst(ref) + r = Inst(t)                     *)
(*   ref + off = res        :  Inst(res) = Inst(ref) + off, res.t < tps    *)
(*   refusal                :  tps = 0 or Inst(ref) + off < 0; unchanged   *)
(*   Inst(ref) + off >= 2^63:  only defined behaviour is demanded          *)
(***************************************************************************)
EXTENDS Bytes, Json, IOUtils, TLC

Tr == ndJsonDeserialize(IOEnv.TRACE)
N  == Len(Tr)

VARIABLES l, viol
tvars == <<l, viol>>
Note(v) == IF Len(viol) < 40 THEN Append(viol, v) ELSE viol

Inst(ts, tps) == Add(Mul(ts.s, tps), ts.t)
One == <<1>>
(* x + signed(r) = y ? *)
PlusIs(x, r, y) == IF r.neg THEN Add(y, Add(r.a, One)) = Strip(x) ELSE Add(x, r.a) = Strip(y)
(* x + signed(r) < 0 ? *)
BelowZero(x, r) == r.neg /\ Lt(x, Add(r.a, One))

OffOK(ev) == IF ev.tps = <<>> THEN ev.out = "refused"
             ELSE ev.out = "ok" /\ PlusIs(Inst(ev.ref, ev.tps), ev.r, Inst(ev.t, ev.tps))
(* x + signed(r) >= 2^63: the result is no instant of the representable range; the statement then only asks *)
(* for defined behaviour (no CRASH event from UBSan) and that a refusal leaves the value alone             *)
Max63 == <<127, 255, 255, 255, 255, 255, 255, 255>>
Beyond(x, r) == ~r.neg /\ Lt(Max63, Add(x, r.a))
AddOK(ev) == IF ev.tps # <<>> /\ Beyond(Inst(ev.ref, ev.tps), ev.off)
             THEN ev.out = "refused" => ev.res = ev.ref
             ELSE IF ev.tps = <<>> \/ BelowZero(Inst(ev.ref, ev.tps), ev.off)
             THEN ev.out = "refused" /\ ev.res = ev.ref
             ELSE /\ ev.out = "ok"
                  /\ PlusIs(Inst(ev.ref, ev.tps), ev.off, Inst(ev.res, ev.tps))
                  /\ Lt(ev.res.t, ev.tps)
InvOK(ev) == /\ ev.out = "ok"
             /\ Inst(ev.res, ev.tps) = Inst(ev.t, ev.tps) /\ Lt(ev.res.t, ev.tps)
CmpOK(ev) == /\ ev.lt = Lt(Inst(ev.a, ev.tps), Inst(ev.b, ev.tps))
             /\ ev.le = Le(Inst(ev.a, ev.tps), Inst(ev.b, ev.tps))

EvOK(ev) == CASE ev.e = "OFF" -> OffOK(ev) [] ev.e = "ADD" -> AddOK(ev) [] ev.e = "INV" -> InvOK(ev)
              [] ev.e = "CMP" -> CmpOK(ev) [] OTHER -> TRUE

TraceInit == l = 1 /\ viol = <<>>
TStep == /\ l <= N /\ Tr[l].e \notin {"END", "CRASH"}
         /\ l' = l + 1
         /\ viol' = IF EvOK(Tr[l]) THEN viol
                    ELSE Note([l |-> l, prop |-> "C17", what |-> "timestamp operation " \o Tr[l].e \o " differs from exact arithmetic", event |-> Tr[l]])
TCrash == /\ l <= N /\ Tr[l].e = "CRASH" /\ l' = l + 1
          /\ viol' = Note([l |-> l, prop |-> "C17,C03", what |-> "undefined arithmetic or crash in a timestamp operation: " \o Tr[l].what,
                           event |-> IF "during" \in DOMAIN Tr[l] THEN Tr[l].during ELSE Tr[l]])
TEnd == /\ l <= N /\ Tr[l].e = "END"
        /\ ndJsonSerialize(IOEnv.OUT, <<[execs |-> N - 1, events |-> N, viol |-> viol, drift |-> <<>>]>>)
        /\ l' = l + 1 /\ UNCHANGED viol
TraceNext == TStep \/ TCrash \/ TEnd
TraceSpec == TraceInit /\ [][TraceNext]_tvars
TraceConsumed == TLCGet("stats").diameter - 1 = N
=============================================================================
