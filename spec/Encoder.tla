------------------------------ MODULE Encoder ------------------------------
(***************************************************************************)
(* The CBOR encoder of c-dns (src/cdns_encoder.{h,cpp}) at two levels.     *)
(*                                                                         *)
(* Abs  (property level, C06/C10): every public write appends exactly      *)
(*      EncBytes(op, arg) -- the RFC 8949 preferred encoding from module   *)
(*      Cbor -- to the ghost history `hist`, returns its length, and the   *)
(*      bytes delivered to the output (`sink`) are always a prefix of      *)
(*      `hist`, the rest being staged (`buf`).  When and how much is       *)
(*      flushed is left open.                                              *)
(* Impl (code level): staging buffer of B bytes, the per-operation flush   *)
(*      thresholds 1/2/3/5/9, write_int refusing when the head does not    *)
(*      fit, the split loop of write_string, flush on rotate/destroy.      *)
(*                                                                         *)
(* Bug # "none" switches on a named deviation of Impl (self-test: TLC must *)
(* find the invariant violation, so no invariant is vacuous).              *)
(***************************************************************************)
EXTENDS Cbor, TLC

CONSTANTS B, Bug

VARIABLES buf,     \* bytes staged in the encoder's buffer
          sink,    \* bytes delivered to the current output so far
          hist,    \* ghost: bytes appended by all calls since the output was opened
          ret,     \* value returned by the last call
          want     \* ghost: Len(EncBytes) of the last call

evars == <<buf, sink, hist, ret, want>>

IntOps   == {"u8", "u16", "u32", "u64", "i8", "i16", "i32", "i64"}
SizeOps  == {"arr", "map"}
FixedOps == {"iarr", "imap", "brk", "bool"}
StrOps   == {"bstr", "bstrp", "tstr", "tstrp"}
AllOps   == IntOps \cup SizeOps \cup FixedOps \cup StrOps     \* 18 operations

Signed(op) == op \in {"i8", "i16", "i32", "i64"}

(* Reference encoding of one call.  Integer arguments are 8-byte big-endian *)
(* two's-complement images of the C++ argument; string arguments are byte   *)
(* sequences; bool is 0/1.                                                   *)
HeadOf(op, a) ==
    CASE op = "arr"  -> CHead(MT_ARR, a)
      [] op = "map"  -> CHead(MT_MAP, a)
      [] op = "iarr" -> IndefHead(MT_ARR)
      [] op = "imap" -> IndefHead(MT_MAP)
      [] op = "brk"  -> <<BreakByte>>
      [] op = "bool" -> IF a = 1 THEN <<245>> ELSE <<244>>
      [] op \in {"bstr", "bstrp"} -> CHead(MT_BSTR, FromInt(Len(a)))
      [] op \in {"tstr", "tstrp"} -> CHead(MT_TSTR, FromInt(Len(a)))
      [] Signed(op) -> IF a[1] >= 128 THEN CHead(MT_NINT, Compl(a)) ELSE CHead(MT_UINT, a)
      [] OTHER -> CHead(MT_UINT, a)
PayloadOf(op, a) == IF op \in StrOps THEN a ELSE <<>>
EncBytes(op, a) == HeadOf(op, a) \o PayloadOf(op, a)

(* ------------------------------ Impl level ---------------------------- *)
Thr(op) ==
    LET base == CASE op \in {"arr", "map", "u64", "i64"} \cup StrOps -> 9
                  [] op \in {"u32", "i32"} -> 5
                  [] op \in {"u16", "i16"} -> 3
                  [] op \in {"u8", "i8"}   -> 2
                  [] OTHER -> 1
    IN  \* seeded deviations
        IF Bug = "thr64_8" /\ op \in {"u64", "i64"} THEN 8
        ELSE IF Bug = "thr16_2" /\ op \in {"u16", "i16"} THEN 2
        ELSE IF Bug = "thrarr_8" /\ op \in {"arr", "map"} THEN 8
        ELSE base

Avail(b) == B - Len(b)

(* st = [buf, sink]; flush_buffer(): deliver staged bytes if any *)
DoFlush(st) == IF Len(st.buf) > 0 THEN [buf |-> <<>>, sink |-> st.sink \o st.buf] ELSE st

(* write_int + update_buffer: refuses (returns 0, writes nothing) if the head does not fit *)
PutHead(st, h) == IF Avail(st.buf) >= Len(h)
                  THEN [st |-> [st EXCEPT !.buf = @ \o h], n |-> Len(h)]
                  ELSE [st |-> st, n |-> 0]

(* write_string: while (avail < left) { copy avail; flush }  copy left *)
RECURSIVE PutStr(_, _, _)
PutStr(st, s, from) ==
    LET left == Len(s) - from + 1
        av   == Avail(st.buf)
    IN IF av < left
       THEN PutStr(DoFlush([st EXCEPT !.buf = @ \o SubSeq(s, from, from + av - 1)]), s, from + av)
       ELSE [st EXCEPT !.buf = @ \o SubSeq(s, from, Len(s))]

ImplCall(st0, op, a) ==
    LET st1 == IF Avail(st0.buf) < Thr(op) THEN DoFlush(st0) ELSE st0
        hd  == IF Bug = "neg_minus" /\ Signed(op) /\ a[1] >= 128
               THEN CHead(MT_NINT, Add(Compl(a), <<1>>))       \* -value instead of ~value
               ELSE HeadOf(op, a)
        r   == PutHead(st1, hd)
        st2 == IF op \in StrOps THEN PutStr(r.st, a, 1) ELSE r.st
    IN [st |-> st2, ret |-> r.n + Len(PayloadOf(op, a))]

Init == /\ buf = <<>> /\ sink = <<>> /\ hist = <<>> /\ ret = 0 /\ want = 0

ImplWrite(op, a) ==
    LET r == ImplCall([buf |-> buf, sink |-> sink], op, a) IN
    /\ buf' = r.st.buf
    /\ sink' = r.st.sink
    /\ ret' = r.ret
    /\ want' = Len(EncBytes(op, a))
    /\ hist' = hist \o EncBytes(op, a)

(* A call whose pre-flush is rejected by the output (the writer throws: disk full, EAGAIN on a non-blocking descriptor,  *)
(* a short write): the call ends with that exception before anything of its own was appended, and what was staged     *)
(* stays staged - the bytes of calls that returned normally are not lost, a later flush delivers them.                 *)
(* Deviation "drop_on_fault": the staging buffer is rewound before the chunk is handed to the output.                  *)
ImplWriteFault(op, a) ==
    /\ Avail(buf) < Thr(op) /\ Len(buf) > 0
    /\ buf' = IF Bug = "drop_on_fault" THEN <<>> ELSE buf
    /\ UNCHANGED <<sink, hist, ret, want>>

(* rotate_output / destructor: flush everything *)
ImplFlush ==
    LET st == DoFlush([buf |-> buf, sink |-> sink]) IN
    /\ buf' = st.buf /\ sink' = st.sink
    /\ UNCHANGED <<hist, ret, want>>

(* ------------------------------ Abs level ----------------------------- *)
(* The property-level step: what C06 promises about one call, given what   *)
(* the output received during the call (`delivered`) and the return value. *)
AbsCallOK(pending, op, a, delivered, r) ==
    /\ r = Len(EncBytes(op, a))
    /\ IsPrefixOf(delivered, pending \o EncBytes(op, a))
AbsPendingAfter(pending, op, a, delivered) ==
    LET all == pending \o EncBytes(op, a)
    IN SubSeq(all, Len(delivered) + 1, Len(all))

(* ------------------------------ invariants ---------------------------- *)
C06_NoLoss   == sink \o buf = hist          \* nothing dropped, duplicated or reordered
C06_RetExact == ret = want                  \* return value = bytes appended
C06_Fits     == Len(buf) <= B
C10_Call     == C06_RetExact
=============================================================================
