------------------------------ MODULE MCWriter ------------------------------
EXTENDS Writer
W == [op |-> "write"]
R == [op |-> "rotate"]
D == [op |-> "destroy"]
Scn1 == <<W, W, R, W, R, R, W, W, D>>       \* rotations, an empty output, destruction with data
Scn2 == <<W, R, D>>                         \* destruction without data
Scn3 == <<R, R, W, W, W, R, W, D>>
=============================================================================
