------------------------------ MODULE MCWriter ------------------------------
EXTENDS Writer
W == [op |-> "write"]
R == [op |-> "rotate"]
D == [op |-> "destroy"]
Scn1 == <<W, W, R, W, R, R, W, W, D>>       \* rotations, an empty output, destruction with data
Scn2 == <<W, R, D>>                         \* destruction without data
Scn3 == <<R, R, W, W, W, R, W, D>>
Rt(n) == [op |-> "rotate", to |-> n]
Scn4 == <<W, W, Rt(1), W, Rt(2), W, Rt(1), Rt(1), W, D>>     \* rotation onto the name in use and back onto an earlier one
=============================================================================
