----------------------------- MODULE Instances ------------------------------
(***************************************************************************)
(* Instance isolation WITHOUT threads (C20 "the library keeps no shared    *)
(* mutable state", C01/C07/C08 for what the instances are used for).       *)
(*                                                                         *)
(* N instances (exporters, readers, decoders, blocks) are operated on ONE  *)
(* thread; their calls are interleaved in any order, and a call may FAIL   *)
(* (exception: truncated input, rejected write).  The result of a call is  *)
(* a function of the instance's OWN history of successful calls:           *)
(*     Res(i, k) - what call number k of instance i yields when alone.     *)
(* In the design there is no state outside the instances, so the model has *)
(* none.  IBug names deviations, all of them one global variable g that    *)
(* survives calls and instances:                                           *)
(*   "memo"       - the last argument / result is remembered globally      *)
(*                  ("the value added last", a one-entry cache) and        *)
(*                  consulted by the next call of ANY instance,            *)
(*   "leak_on_exc"- a call that fails leaves work state behind (a          *)
(*                  thread_local scratch stack that is only emptied by a   *)
(*                  normal return); the next call of any instance goes on  *)
(*                  from it,                                               *)
(*   "hint"       - an instance created later is shaped by what earlier    *)
(*                  instances did (a process-wide capacity hint).          *)
(* Bound to the code by exp_driver run2 / rd_driver dump2 (two instances   *)
(* operated alternately, each validated as if alone), TraceReader event A  *)
(* (a read right after a failed read), C20's solo-versus-batch digests.    *)
(***************************************************************************)
EXTENDS Naturals, Sequences, TLC

CONSTANTS NInst, Calls, IBug

Inst == 1..NInst
VARIABLES n,       \* n[i]: successful calls of instance i so far
          out,     \* out[i]: the results instance i has produced
          g,       \* the global variable of the deviations (None = nothing)
          born     \* born[i]: g at the time instance i was created (first call)
vars == <<n, out, g, born>>

None == <<0, 0>>                                         \* g holds nothing
Res(i, k) == <<i, k>>                                  \* the result of call k of instance i when alone
Alone(i) == [k \in 1..Calls |-> Res(i, k)]

Init == /\ n = [i \in Inst |-> 0] /\ out = [i \in Inst |-> <<>>] /\ g = None /\ born = [i \in Inst |-> None]

(* a successful call *)
Call(i) ==
    /\ n[i] < Calls
    /\ LET k == n[i] + 1
           r == CASE IBug = "memo" /\ g # None /\ g[2] = k -> Res(g[1], k)            \* the memo "hits" on another instance's entry
                  [] IBug = "leak_on_exc" /\ g # None -> <<i, 0>>                     \* goes on from the left-over work state
                  [] IBug = "hint" /\ n[i] = 0 /\ g # None -> <<i, k + 100>>         \* shaped by earlier instances
                  [] OTHER -> Res(i, k)
       IN /\ out' = [out EXCEPT ![i] = Append(@, r)]
          /\ n' = [n EXCEPT ![i] = k]
          /\ g' = CASE IBug = "memo" -> <<i, k>>
                    [] IBug = "leak_on_exc" -> None                                 \* a normal return empties the scratch state
                    [] IBug = "hint" -> <<i, k>>
                    [] OTHER -> g
          /\ born' = IF n[i] = 0 THEN [born EXCEPT ![i] = g] ELSE born

(* a call that fails: nothing is produced, the instance's own history is unchanged *)
Fail(i) ==
    /\ n[i] < Calls
    /\ g' = IF IBug = "leak_on_exc" THEN <<i, n[i] + 1>> ELSE g
    /\ UNCHANGED <<n, out, born>>

Next == \E i \in Inst : Call(i) \/ Fail(i)
Spec == Init /\ [][Next]_vars

(* whatever the interleaving and whichever calls failed: every instance has produced a prefix of what it produces alone *)
Isolation == \A i \in Inst : out[i] = SubSeq(Alone(i), 1, Len(out[i]))
=============================================================================
