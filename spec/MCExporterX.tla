----------------------------- MODULE MCExporterX ----------------------------
(***************************************************************************)
(* The exporter together with a block the application keeps itself         *)
(* (CdnsBlock used directly, handed to write_block(block)): every history  *)
(* up to MaxOps calls over                                                 *)
(*   - the exporter's own calls: buffer a query/response, write_block,     *)
(*     rotate with / without export, switch the active parameter set;      *)
(*   - the kept block's calls: new block armed with set i, re-arm with set *)
(*     i (refused while it holds items), add a query/response, an address  *)
(*     event, a malformed message, write_block(block) (which does NOT      *)
(*     clear it: writing it twice stores its records twice), clear.        *)
(* Invariants: every output is self-contained (C13), what the outputs and  *)
(* the two blocks hold is exactly what was stored, in order, where a       *)
(* write of the kept block contributes its content at that moment (C12,    *)
(* C13, C01), each block written from the kept block states the set whose  *)
(* hints were applied to its records (C04), closed outputs are frozen.     *)
(* With Emit = TRUE every complete history is written out for replay on    *)
(* the real exporter.                                                      *)
(***************************************************************************)
EXTENDS Exporter, Json, IOUtils

CONSTANTS MaxOps, Sizes, Emit

VARIABLES ex, hist,
          nQR,       \* query/responses that must be found in the outputs + the exporter's own block
          bps0
vars == <<ex, hist, nQR, bps0>>

AllQ == <<3, 255, 255>>
AllS == <<1, 255, 255>>
MkBP(max, qrh, odh) == [tps |-> <<3, 232>>, max |-> FromInt(max), qrh |-> qrh, sigh |-> AllS, rrh |-> <<3>>, odh |-> odh,
                        opcodes |-> <<>>, rr_types |-> <<>>]
BP0(m) == MkBP(m, AllQ, <<3>>)                 \* everything stored
BP1(m) == MkBP(m, <<3, 255, 253>>, <<2>>)      \* no client address, no malformed messages

QrA == [client_port |-> <<1>>, ts |-> [s |-> <<5>>, t |-> <<7>>]]
QrB == [client_ip |-> <<10, 0, 0, 1>>]                 \* unstorable under set 1
QrC == [client_port |-> <<2>>, client_ip |-> <<10, 0, 0, 2>>]
Aec1 == [ae_type |-> <<>>, ip_address |-> <<1, 1, 1, 1>>]
Mm1 == [client_port |-> <<9>>, mm_payload |-> <<1, 2>>]

Ops == {[op |-> "qr", r |-> QrA], [op |-> "qr", r |-> QrC], [op |-> "wb"],
        [op |-> "rot", export |-> TRUE], [op |-> "rot", export |-> FALSE],
        [op |-> "setbp", i |-> 0], [op |-> "setbp", i |-> 1],
        [op |-> "xnew", i |-> 0], [op |-> "xnew", i |-> 1], [op |-> "xset", i |-> 0], [op |-> "xset", i |-> 1],
        [op |-> "xqr", r |-> QrA], [op |-> "xqr", r |-> QrB], [op |-> "xqr", r |-> QrC],
        [op |-> "xaec", r |-> Aec1], [op |-> "xmm", r |-> Mm1], [op |-> "xwb"], [op |-> "xclear"]}

Pre == [major |-> <<1>>, minor |-> <<>>, private |-> <<1>>]

MCInit == /\ \E m0 \in Sizes : \E m1 \in Sizes : ex = ExInit(Pre, <<BP0(m0), BP1(m1)>>) /\ bps0 = <<BP0(m0), BP1(m1)>>
          /\ hist = <<>> /\ nQR = 0

Apply(o) ==
    CASE o.op = "qr"  -> StepQR(ex, o.r, NoStats).s
      [] o.op = "wb"  -> StepWB(ex).s
      [] o.op = "rot" -> StepRot(ex, o.export).s
      [] o.op = "setbp" -> StepSetBP(ex, o.i).s
      [] o.op = "xnew" -> XNew(ex, o.i)
      [] o.op = "xset" -> XSet(ex, o.i).s
      [] o.op = "xqr" -> XAdd(ex, "qr", o.r, NoStats).s
      [] o.op = "xaec" -> XAdd(ex, "aec", o.r, NoStats).s
      [] o.op = "xmm" -> XAdd(ex, "mm", o.r, NoStats).s
      [] o.op = "xwb" -> XWrite(ex).s
      [] OTHER -> XClear(ex)

(* expected number of stored query/responses: every storable one buffered into the exporter, plus the content of *)
(* the kept block at each of its writes (a write does not clear it)                                             *)
MCNext ==
    /\ Len(hist) < MaxOps
    /\ \E o \in Ops :
        /\ o.op = "setbp" => SetBPAllowed(ex, o.i)
        /\ ex' = Apply(o)
        /\ hist' = Append(hist, o) /\ UNCHANGED bps0
        /\ nQR' = CASE o.op = "qr" /\ StorableQR(o.r, Hints(ex)) -> nQR + 1
                    [] o.op = "xwb" /\ ItemCount(ex.xb) > 0 -> nQR + Len(ex.xb.qrs)
                    [] OTHER -> nQR

MCSpec == MCInit /\ [][MCNext]_vars

(* -- invariants -- *)
C13_Contained == C13_SelfContained(ex)
C13_Frozen    == [][\A o \in 1..Len(ex.closed) : ex'.closed[o] = ex.closed[o]]_vars

AllBlocks == LET RECURSIVE Cl(_)
                 Cl(o) == IF o > Len(ex.closed) THEN <<>> ELSE ex.closed[o].blocks \o Cl(o + 1)
             IN Cl(1) \o ex.cur
(* every written block states a set whose hints admit everything it holds (C04) *)
BlockHonoursHints(b) ==
    LET h == HintsOf(bps0[b.bpi + 1]) IN
    /\ \A i \in 1..Len(b.qrs) : \A f \in DOMAIN b.qrs[i] : KeepQR(f, b.qrs[i], h)
    /\ (Len(b.mms) > 0 => MMEnabled(h))
    /\ (Len(b.aecs) > 0 => AECEnabled(h))
C04_Stated == \A i \in 1..Len(AllBlocks) : /\ BlockHonoursHints(AllBlocks[i])
                                             /\ AllBlocks[i].bp = bps0[AllBlocks[i].bpi + 1]     \* states the set it was filled under
RECURSIVE CountQR(_, _)
CountQR(blocks, i) == IF i > Len(blocks) THEN 0 ELSE Len(blocks[i].qrs) + CountQR(blocks, i + 1)
C12_ConserveX == CountQR(AllBlocks, 1) + Len(ex.blk.qrs) = nQR
(* the kept block is never written empty *)
C12_NoEmptyBlocks == \A i \in 1..Len(AllBlocks) : ItemCount(AllBlocks[i]) > 0

(* -- emission of complete histories for replay on the implementation -- *)
HasX == \E i \in 1..Len(hist) : hist[i].op = "xwb"
Scenario == [comp |-> "none", out |-> "file",
             preamble |-> [major |-> Pre.major, minor |-> Pre.minor, private |-> Pre.private, bps |-> bps0],
             ops |-> hist]
EmitDone == (Emit /\ Len(hist) = MaxOps /\ HasX) => PrintT(<<"HIST", ToJson(Scenario)>>)
=============================================================================
