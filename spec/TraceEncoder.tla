---------------------------- MODULE TraceEncoder ----------------------------
(***************************************************************************)
(* Trace validation of the real CdnsEncoder against module Encoder.        *)
(*                                                                         *)
(* The driver (harness/enc_driver.cpp) records one event per public call:  *)
(* operation, argument, return value, the bytes that reached the output    *)
(* during the call and the free space of the staging buffer.  Every event  *)
(* is replayed through the specification:                                  *)
(*   Abs  : AbsCallOK -- return value = Len(EncBytes), delivered bytes are *)
(*          a prefix of (pending \o EncBytes); at rotate/destroy the       *)
(*          closed output holds exactly everything appended.  A failure    *)
(*          here is a violation of C06 (and of C10 for the return value).  *)
(*   Impl : ImplCall predicts the exact flush behaviour and buffer level;  *)
(*          a mismatch with Abs satisfied is only model drift.             *)
(* The spec is total: a mismatch is recorded in `viol` and the rest of     *)
(* that execution is skipped, the following executions are still checked.  *)
(***************************************************************************)
EXTENDS Encoder, Json, IOUtils

Tr == ndJsonDeserialize(IOEnv.TRACE)
N  == Len(Tr)

VARIABLES l,        \* next trace line
          kind,     \* output kind of the current execution
          seen,     \* bytes of the current output already observed as delivered
          dirty,    \* an Abs mismatch was recorded for this execution
          drifted,  \* an Impl mismatch was recorded for this execution
          viol, drift, execs

tvars == <<evars, l, kind, seen, dirty, drifted, viol, drift, execs>>

Seg(s) == IF "l" \in DOMAIN s THEN s.l ELSE Fill(s.b, s.n)
RECURSIVE ExpandFrom(_, _)
ExpandFrom(segs, i) == IF i > Len(segs) THEN <<>> ELSE Seg(segs[i]) \o ExpandFrom(segs, i + 1)
Expand(segs) == ExpandFrom(segs, 1)

ArgOf(ev) == IF ev.op \in StrOps THEN Expand(ev.a) ELSE ev.a

Note(v) == IF Len(viol) < 40 THEN Append(viol, v) ELSE viol

TraceInit ==
    /\ Init
    /\ l = 1 /\ kind = "fd" /\ seen = 0 /\ dirty = FALSE /\ drifted = FALSE
    /\ viol = <<>> /\ drift = <<>> /\ execs = 0

(* "R": a fresh encoder on a fresh output *)
TReset ==
    /\ l <= N /\ Tr[l].e = "R"
    /\ buf' = <<>> /\ sink' = <<>> /\ hist' = <<>> /\ ret' = 0 /\ want' = 0
    /\ kind' = Tr[l].kind /\ seen' = 0 /\ dirty' = FALSE
    /\ drifted' = (Tr[l].B # B)        \* Impl prediction only for the modelled buffer size
    /\ execs' = execs + 1
    /\ l' = l + 1
    /\ UNCHANGED <<viol, drift>>

(* "W": one public write.  hist = bytes appended but not yet seen at the output *)
TWrite ==
    /\ l <= N /\ Tr[l].e = "W"
    /\ l' = l + 1
    /\ UNCHANGED <<kind, execs, sink>>
    /\ IF dirty THEN UNCHANGED <<buf, hist, ret, want, seen, dirty, drifted, viol, drift>>
       ELSE
       LET ev   == Tr[l]
           op   == ev.op
           a    == ArgOf(ev)
           enc  == EncBytes(op, a)
           hasD == "d" \in DOMAIN ev
           d    == IF hasD THEN Expand(ev.d) ELSE <<>>
       IN
       /\ ret' = ev.r /\ want' = Len(enc)
       /\ IF ~AbsCallOK(hist, op, a, d, ev.r)
          THEN /\ viol' = Note([l |-> l, prop |-> IF ev.r # Len(enc) THEN "C06,C10" ELSE "C06",
                                what |-> "encoder call " \o op \o ": return value or delivered bytes differ from the RFC 8949 preferred encoding",
                                op |-> op, ret |-> ev.r, want |-> Len(enc), pending |-> Len(hist)])
               /\ dirty' = TRUE
               /\ UNCHANGED <<buf, hist, seen, drifted, drift>>
          ELSE /\ hist' = AbsPendingAfter(hist, op, a, d)
               /\ seen' = seen + Len(d)
               /\ UNCHANGED <<viol, dirty>>
               /\ IF hasD /\ ~drifted /\ (op \in StrOps => Len(a) <= 20000)    \* the code-level prediction is skipped for huge strings
                  THEN LET r == ImplCall([buf |-> buf, sink |-> <<>>], op, a) IN
                       IF r.st.sink = d /\ Avail(r.st.buf) = ev.av /\ r.ret = ev.r
                       THEN buf' = r.st.buf /\ UNCHANGED <<drifted, drift>>
                       ELSE /\ drifted' = TRUE
                            /\ drift' = IF Len(drift) < 10
                                        THEN Append(drift, [l |-> l, op |-> op, av |-> ev.av,
                                                            want_av |-> Avail(r.st.buf),
                                                            delivered |-> Len(d), want_delivered |-> Len(r.st.sink)])
                                        ELSE drift
                            /\ UNCHANGED buf
                  ELSE IF hasD /\ ~drifted THEN drifted' = TRUE /\ UNCHANGED <<buf, drift>>
                  ELSE UNCHANGED <<buf, drifted, drift>>

(* "X": a public write that ended with an exception because the output rejected data (injected fault).  The call    *)
(* appended nothing of its own; whatever reached the output during it is a prefix of what was pending, the rest     *)
(* stays pending (Encoder!ImplWriteFault).                                                                          *)
TFault ==
    /\ l <= N /\ Tr[l].e = "X"
    /\ l' = l + 1
    /\ UNCHANGED <<kind, execs, sink, buf, ret, want, drift>>
    /\ drifted' = TRUE                          \* the code-level prediction of the staging level is not continued
    /\ IF dirty THEN UNCHANGED <<hist, seen, dirty, viol>>
       ELSE LET d == IF "d" \in DOMAIN Tr[l] THEN Expand(Tr[l].d) ELSE <<>> IN
            IF IsPrefixOf(d, hist)
            THEN /\ hist' = SubSeq(hist, Len(d) + 1, Len(hist)) /\ seen' = seen + Len(d)
                 /\ UNCHANGED <<dirty, viol>>
            ELSE /\ viol' = Note([l |-> l, prop |-> "C06,C16", what |-> "during a call that failed with an output error the output received bytes that are not the pending encodings",
                                  op |-> Tr[l].op])
                 /\ dirty' = TRUE /\ UNCHANGED <<hist, seen>>

(* "T" rotate_output / "D" destructor: the closed output holds everything appended *)
ClosedOK(all) == /\ Len(all) = seen + Len(hist)
                 /\ \A i \in 1..Len(hist) : all[seen + i] = hist[i]

TClose ==
    /\ l <= N /\ Tr[l].e \in {"T", "D"}
    /\ l' = l + 1
    /\ UNCHANGED <<kind, execs, sink, ret, want, drifted, drift>>
    /\ IF dirty THEN UNCHANGED <<buf, hist, seen, dirty, viol>>
       ELSE LET all == Expand(Tr[l].all) IN
            /\ buf' = <<>> /\ hist' = <<>> /\ seen' = 0
            /\ IF ClosedOK(all) THEN UNCHANGED <<viol, dirty>>
               ELSE /\ viol' = Note([l |-> l, prop |-> "C06",
                                     what |-> "closed output differs from the concatenation of the encodings",
                                     kind |-> kind, got |-> Len(all), want |-> seen + Len(hist)])
                    /\ dirty' = (Tr[l].e = "T")

(* the implementation crashed: always a violation (of C03-style safety and of C06) *)
TCrash ==
    /\ l <= N /\ Tr[l].e = "CRASH"
    /\ l' = l + 1
    /\ viol' = Note([l |-> l, prop |-> "C06", what |-> "implementation crashed: " \o Tr[l].what])
    /\ dirty' = TRUE
    /\ UNCHANGED <<evars, kind, seen, drifted, drift, execs>>

TEnd ==
    /\ l <= N /\ Tr[l].e = "END"
    /\ ndJsonSerialize(IOEnv.OUT, <<[execs |-> execs, events |-> N, viol |-> viol, drift |-> drift]>>)
    /\ l' = l + 1
    /\ UNCHANGED <<evars, kind, seen, dirty, drifted, viol, drift, execs>>

TraceNext == TReset \/ TWrite \/ TFault \/ TClose \/ TCrash \/ TEnd
TraceSpec == TraceInit /\ [][TraceNext]_tvars

TraceConsumed == TLCGet("stats").diameter - 1 = N
=============================================================================
