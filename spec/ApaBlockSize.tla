---------------------------- MODULE ApaBlockSize ----------------------------
(***************************************************************************)
(* The flush rule of the exporter (Exporter.tla: FlushIfFull, Full,        *)
(* Flush) reduced to its counters, for EVERY max_block_items -- also the   *)
(* values at and beyond 2^32 that TLC's small Sizes cannot reach -- as an  *)
(* inductive invariant discharged by Apalache (Z3):                        *)
(*     Init => IndInv                 (length 0, INIT Init)                *)
(*     IndInv /\ Next => IndInv'      (length 1, INIT IndInit)             *)
(* State: numbers of query/responses, distinct address events and          *)
(* malformed messages in the buffered block, the block written last, the   *)
(* number of blocks written.  A buffer call adds at most one item to one   *)
(* array and then writes the block when some array has reached the limit   *)
(* (limit 0: the code attempts a write after every call).                  *)
(* C12 at this level: no array of a written block exceeds the limit (or    *)
(* one item when the limit is 0), a block is never written empty, and      *)
(* between calls the buffered block is below the limit.                    *)
(* Deviation (must fail): "late" -- the block is written only when an      *)
(* array EXCEEDS the limit.                                                *)
(***************************************************************************)
EXTENDS Integers

CONSTANT
    \* @type: Str;
    FBug

VARIABLES
    \* @type: Int;
    max,
    \* @type: Int;
    nq,
    \* @type: Int;
    na,
    \* @type: Int;
    nm,
    \* @type: Int;
    lq,
    \* @type: Int;
    la,
    \* @type: Int;
    lm,
    \* @type: Int;
    bw

Lim == IF max = 0 THEN 1 ELSE max
Full(q, a, m) == IF FBug = "late" THEN q > max \/ a > max \/ m > max
                 ELSE q >= max \/ a >= max \/ m >= max

Init == /\ max \in Nat /\ nq = 0 /\ na = 0 /\ nm = 0 /\ lq = 0 /\ la = 0 /\ lm = 0 /\ bw = 0

(* the buffered block becomes (q, a, m); it is written at once when full *)
Settle(q, a, m) ==
    IF Full(q, a, m) /\ q + a + m > 0
    THEN /\ lq' = q /\ la' = a /\ lm' = m /\ bw' = bw + 1
         /\ nq' = 0 /\ na' = 0 /\ nm' = 0
    ELSE /\ nq' = q /\ na' = a /\ nm' = m /\ UNCHANGED <<lq, la, lm, bw>>

AddQR    == Settle(nq + 1, na, nm)            \* a storable query/response
Dropped  == Settle(nq, na, nm)                \* a record the hints drop entirely: the flush test still runs
AddAEC   == Settle(nq, na + 1, nm)            \* an address event with a new key
CountAEC == na > 0 /\ Settle(nq, na, nm)      \* an address event with a key the block already holds
AddMM    == Settle(nq, na, nm + 1)
WriteBlock == IF nq + na + nm > 0
              THEN /\ lq' = nq /\ la' = na /\ lm' = nm /\ bw' = bw + 1 /\ nq' = 0 /\ na' = 0 /\ nm' = 0
              ELSE UNCHANGED <<nq, na, nm, lq, la, lm, bw>>

Next == /\ UNCHANGED max
        /\ (AddQR \/ Dropped \/ AddAEC \/ CountAEC \/ AddMM \/ WriteBlock)

IndInv ==
    /\ max >= 0 /\ nq >= 0 /\ na >= 0 /\ nm >= 0 /\ bw >= 0
    /\ (max > 0 => nq < max /\ na < max /\ nm < max)            \* between calls the buffered block is below the limit
    /\ (max = 0 => nq = 0 /\ na = 0 /\ nm = 0)
    /\ lq >= 0 /\ la >= 0 /\ lm >= 0
    /\ lq <= Lim /\ la <= Lim /\ lm <= Lim                       \* no array of a written block exceeds the limit
    /\ (bw > 0 => lq + la + lm > 0)                              \* a block is never written empty
    /\ (bw = 0 => lq = 0 /\ la = 0 /\ lm = 0)

(* IndInv as an initial-state predicate: every variable ranges over the naturals, constrained by IndInv *)
IndInit == /\ max \in Nat /\ nq \in Nat /\ na \in Nat /\ nm \in Nat /\ lq \in Nat /\ la \in Nat /\ lm \in Nat /\ bw \in Nat
           /\ IndInv

(* vacuity guard: violated iff IndInv admits a non-trivial state with a limit beyond 2^32 *)
Vac == ~(max > 4294967296 /\ nq > 4294967296 /\ na > 0 /\ bw > 2)
=============================================================================
