----------------------------- MODULE GenDecoder -----------------------------
(***************************************************************************)
(* TLC writes the serialised items of CborGen (each followed by a sentinel *)
(* item) as scenarios for harness/dec_driver.cpp: (G) behaviours generated *)
(* from the specification and replayed on the real decoder.                *)
(***************************************************************************)
EXTENDS CborGen, Json, IOUtils, SequencesExt, TLC

Scen(n) == [tail |-> Ser(n) \o <<23>>, op |-> MatchingOp(n)]
Scenarios == SetToSeq({Scen(n) : n \in AllItems \cup LongStrs(300) \cup LongStrs(70000)})

ASSUME ndJsonSerialize(IOEnv.OUT, Scenarios)
ASSUME PrintT(<<"scenarios", Len(Scenarios)>>)
=============================================================================
