---------------------------- MODULE MCBlockValue ----------------------------
(***************************************************************************)
(* All histories up to MaxOps over three block slots: items are added,     *)
(* blocks are copied in every manner, sources are modified, cleared and    *)
(* destroyed, and the copies are read.  The contract of the read API is    *)
(* respected: a block is only read while it is `armed`, i.e. it was        *)
(* obtained from another block and not modified since.  Every read must    *)
(* give what a fresh block with the same content gives (C19) and ub must   *)
(* be unreachable.                                                         *)
(***************************************************************************)
EXTENDS BlockValue, Json, IOUtils

CONSTANTS MaxOps, Vals, ModelKinds, ModelHows, Emit

VARIABLES heap, cur, armed, hist, readOK, ub
vars == <<heap, cur, armed, hist, readOK, ub>>

Slots == {1, 2, 3}

MCInit == /\ heap = [t \in Slots |-> NewBlock(t = 1)]
          /\ cur = [t \in Slots |-> NoCursor]
          /\ armed = [t \in Slots |-> FALSE]
          /\ hist = <<>> /\ readOK = TRUE /\ ub = FALSE

DoItem(t, k, v) ==
    /\ heap[t].alive
    /\ heap' = ImplAddItem(heap, t, k, v)
    /\ armed' = [armed EXCEPT ![t] = FALSE]
    /\ hist' = Append(hist, [op |-> "item", t |-> t, k |-> k, v |-> v])
    /\ UNCHANGED <<cur, readOK, ub>>

DoClear(t) ==
    /\ heap[t].alive
    /\ heap' = ImplClear(heap, t) /\ armed' = [armed EXCEPT ![t] = FALSE]
    /\ hist' = Append(hist, [op |-> "clear", t |-> t])
    /\ UNCHANGED <<cur, readOK, ub>>

DoDestroy(t) ==
    /\ heap[t].alive /\ \E u \in Slots \ {t} : heap[u].alive
    /\ heap' = ImplDestroy(heap, t) /\ armed' = [armed EXCEPT ![t] = FALSE]
    /\ hist' = Append(hist, [op |-> "destroy", t |-> t])
    /\ UNCHANGED <<cur, readOK, ub>>

DoCopy(s, d, how) ==
    /\ s # d /\ heap[s].alive
    /\ Ctor(how) <=> ~heap[d].alive
    /\ how \in {"rctor", "rassign"} => Len(heap[s].val.q) > 0
    /\ heap' = ImplCopy(heap, s, d, how)
    /\ cur' = [cur EXCEPT ![d] = NoCursor]
    /\ armed' = [armed EXCEPT ![d] = TRUE]
    /\ hist' = Append(hist, [op |-> "copy", src |-> s, dst |-> d, how |-> how])
    /\ UNCHANGED <<readOK, ub>>

DoRead(t, k) ==
    /\ heap[t].alive /\ armed[t]
    /\ LET r == ImplRead(heap, t, k) IN
       /\ heap' = r.heap /\ ub' = (ub \/ r.ub)
       /\ readOK' = (readOK /\ (r.ub \/ AbsReadOK(heap[t].val, cur[t], k, r.end, r.v, r.c)))
       /\ cur' = [cur EXCEPT ![t] = AbsReadNext(@, k, r.end, r.v)]
    /\ hist' = Append(hist, [op |-> "read", t |-> t, k |-> k])
    /\ UNCHANGED armed

MCNext == /\ Len(hist) < MaxOps
          /\ \/ \E t \in Slots : \E k \in ModelKinds : \E v \in Vals : DoItem(t, k, v)
             \/ \E t \in Slots : DoClear(t)
             \/ \E s \in Slots : \E d \in Slots : \E how \in ModelHows : DoCopy(s, d, how)
             \/ \E t \in Slots : DoDestroy(t)
             \/ \E t \in Slots : \E k \in ModelKinds : DoRead(t, k)
MCSpec == MCInit /\ [][MCNext]_vars

C19_NoUB    == ~ub
C19_ReadsOK == readOK
(* the impl index cursors agree with the abstract ones on every armed block *)
C19_Cursors == ub \/ \A t \in Slots : (heap[t].alive /\ armed[t]) =>
                         /\ heap[t].cq = cur[t].rq /\ heap[t].cm = cur[t].rm

HasCopyThenRead == \E i, j \in 1..Len(hist) : i < j /\ hist[i].op = "copy" /\ hist[j].op = "read" /\ hist[j].t = hist[i].dst
EmitDone == (Emit /\ Len(hist) = MaxOps /\ HasCopyThenRead) => PrintT(<<"HIST", ToJson([ops |-> hist])>>)
=============================================================================
