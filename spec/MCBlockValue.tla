---------------------------- MODULE MCBlockValue ----------------------------
(***************************************************************************)
(* All histories up to MaxOps over three block slots: items are added,     *)
(* blocks are copied in every manner, sources are modified, cleared and    *)
(* destroyed, and the copies are read.  The contract of the read API is    *)
(* respected: a block is only read while it is `armed`, i.e. it was        *)
(* obtained from another block and not modified since.  Every read must    *)
(* give what a fresh block with the same content gives (C19) and ub must   *)
(* be unreachable.                                                         *)
(***************************************************************************)
EXTENDS BlockValue, Json, IOUtils

CONSTANTS MaxOps, Vals, ModelKinds, ModelHows, ModelParams, Emit

VARIABLES heap, cur, armed, hist, readOK, ub, ap
vars == <<heap, cur, armed, hist, readOK, ub, ap>>      \* ap: the parameters a fresh block with that content would have

Slots == {1, 2, 3}

MCInit == /\ heap = [t \in Slots |-> NewBlock(t = 1)]
          /\ cur = [t \in Slots |-> NoCursor]
          /\ armed = [t \in Slots |-> FALSE]
          /\ hist = <<>> /\ readOK = TRUE /\ ub = FALSE
          /\ ap = [t \in Slots |-> 0]

DoItem(t, k, v) ==
    /\ heap[t].alive
    /\ heap' = ImplAddItem(heap, t, k, v)
    /\ armed' = [armed EXCEPT ![t] = FALSE]
    /\ hist' = Append(hist, [op |-> "item", t |-> t, k |-> k, v |-> v])
    /\ UNCHANGED <<cur, readOK, ub, ap>>

(* set_block_parameters() on an empty block *)
DoSetP(t, p) ==
    /\ heap[t].alive /\ Counts(heap[t].val) = <<0, 0, 0>> /\ p # heap[t].val.p
    /\ heap' = ImplSetP(heap, t, p) /\ ap' = [ap EXCEPT ![t] = p]
    /\ armed' = [armed EXCEPT ![t] = FALSE]
    /\ hist' = Append(hist, [op |-> "setp", t |-> t, p |-> p])
    /\ UNCHANGED <<cur, readOK, ub>>

DoClear(t) ==
    /\ heap[t].alive
    /\ heap' = ImplClear(heap, t) /\ armed' = [armed EXCEPT ![t] = FALSE]
    /\ hist' = Append(hist, [op |-> "clear", t |-> t])
    /\ UNCHANGED <<cur, readOK, ub, ap>>

DoDestroy(t) ==
    /\ heap[t].alive /\ \E u \in Slots \ {t} : heap[u].alive
    /\ heap' = ImplDestroy(heap, t) /\ armed' = [armed EXCEPT ![t] = FALSE]
    /\ hist' = Append(hist, [op |-> "destroy", t |-> t])
    /\ ap' = [ap EXCEPT ![t] = 0]
    /\ UNCHANGED <<cur, readOK, ub>>

DoCopy(s, d, how) ==
    /\ s # d /\ heap[s].alive
    /\ Ctor(how) <=> ~heap[d].alive
    /\ how \in {"rctor", "rassign"} => Len(heap[s].val.q) > 0
    /\ heap' = ImplCopy(heap, s, d, how)
    /\ cur' = [cur EXCEPT ![d] = NoCursor]
    /\ armed' = [armed EXCEPT ![d] = TRUE]
    /\ hist' = Append(hist, [op |-> "copy", src |-> s, dst |-> d, how |-> how])
    /\ ap' = [ap EXCEPT ![d] = ap[s]]
    /\ UNCHANGED <<readOK, ub>>

DoRead(t, k) ==
    /\ heap[t].alive /\ armed[t]
    /\ LET r == ImplRead(heap, t, k) IN
       /\ heap' = r.heap /\ ub' = (ub \/ r.ub)
       /\ readOK' = (readOK /\ (r.ub \/ AbsReadOK(heap[t].val, cur[t], k, r.end, r.v, r.c)))
       /\ cur' = [cur EXCEPT ![t] = AbsReadNext(@, k, r.end, r.v)]
    /\ hist' = Append(hist, [op |-> "read", t |-> t, k |-> k])
    /\ UNCHANGED <<armed, ap>>

MCNext == /\ Len(hist) < MaxOps
          /\ \/ \E t \in Slots : \E k \in ModelKinds : \E v \in Vals : DoItem(t, k, v)
             \/ \E t \in Slots : DoClear(t)
             \/ \E t \in Slots : \E p \in ModelParams : DoSetP(t, p)
             \/ \E s \in Slots : \E d \in Slots : \E how \in ModelHows : DoCopy(s, d, how)
             \/ \E t \in Slots : DoDestroy(t)
             \/ \E t \in Slots : \E k \in ModelKinds : DoRead(t, k)
MCSpec == MCInit /\ [][MCNext]_vars

C19_NoUB    == ~ub
C19_ReadsOK == readOK
(* the impl index cursors agree with the abstract ones on every armed block *)
C19_Cursors == ub \/ \A t \in Slots : (heap[t].alive /\ armed[t]) =>
                         /\ heap[t].cq = cur[t].rq /\ heap[t].cm = cur[t].rm

(* a block obtained from another one has the parameters (hence fullness, hints, tick rate) of a fresh block with that content *)
C19_Params == \A t \in Slots : heap[t].alive => /\ heap[t].val.p = ap[t]
                                                 /\ AbsFull(heap[t].val) = AbsFull([heap[t].val EXCEPT !.p = ap[t]])

HasCopyThenRead == \E i, j \in 1..Len(hist) : i < j /\ hist[i].op = "copy" /\ hist[j].op = "read" /\ hist[j].t = hist[i].dst
EmitDone == (Emit /\ Len(hist) = MaxOps /\ HasCopyThenRead) => PrintT(<<"HIST", ToJson([ops |-> hist])>>)
=============================================================================
