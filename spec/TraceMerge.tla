----------------------------- MODULE TraceMerge -----------------------------
(***************************************************************************)
(* Trace validation of the real cdns-merge and cdns-itemcount tools (C18). *)
(* "M": one run of cdns-merge on a tuple of input files.  TLC parses every *)
(* readable input and the merged output with the independent RFC 8949 /    *)
(* RFC 8618 reading (Cbor, CdnsFormat), builds the abstract inputs of      *)
(* Merge!MergeAbs from them and compares: version, valid output, every     *)
(* non-empty readable block of every accepted input in order, records and  *)
(* statistics unchanged, each block with parameters EQUAL to those it had  *)
(* in its source, nothing else.  For a truncated input the readable blocks *)
(* are those whose end offset (computed from the parse of the full file)   *)
(* lies within the cut.                                                    *)
(* "I": one run of cdns-itemcount: stdout lines must be the counts of the  *)
(* independent reading, in the layout of the option combination.           *)
(***************************************************************************)
EXTENDS Merge, CdnsFormat, Json, IOUtils
Tools == INSTANCE Tools

Tr == ndJsonDeserialize(IOEnv.TRACE)
N  == Len(Tr)

VARIABLES l, viol, execs, drift
tvars == <<l, viol, execs, drift>>
Note(v) == IF Len(viol) < 60 THEN Append(viol, v) ELSE viol
Notes(vs) == LET RECURSIVE A(_, _)
                 A(acc, i) == IF i > Len(vs) \/ Len(acc) >= 60 THEN acc ELSE A(Append(acc, vs[i]), i + 1)
             IN A(viol, 1)

Seg(s) == IF "l" \in DOMAIN s THEN s.l ELSE Fill(s.b, s.n)
RECURSIVE ExpandFrom(_, _)
ExpandFrom(segs, i) == IF i > Len(segs) THEN <<>> ELSE Seg(segs[i]) \o ExpandFrom(segs, i + 1)
Expand(segs) == ExpandFrom(segs, 1)

HeadLen(n) == IF n.w = -1 THEN 1 ELSE 1 + n.w
HeaderEnd(f) == 1 + Len(Ser(f.kids[1])) + Len(Ser(f.kids[2])) + HeadLen(f.kids[3])
RECURSIVE BlockEnd(_, _)
BlockEnd(f, j) == IF j = 0 THEN HeaderEnd(f) ELSE BlockEnd(f, j - 1) + Len(Ser(f.kids[3].kids[j]))

(* content of a block apart from its parameter index *)
Content(d) == [f \in (DOMAIN d \ {"bpi", "aecs"}) \cup {"aecset"} |->
                  IF f = "aecset" THEN {d.aecs[i] : i \in 1..Len(d.aecs)} ELSE d[f]]
IsEmptyBlock(d) == Len(d.qrs) = 0 /\ Len(d.aecs) = 0 /\ Len(d.mms) = 0
VerOf(pre) == [f \in (DOMAIN pre \ {"bps"}) |-> pre[f]]

(* abstract input (Merge.tla) from a logged input *)
AbsInput(inp, k) ==
    IF inp.kind = "unopenable" THEN [name |-> k, st |-> "unopenable", ver |-> 0, bps |-> <<>>, blocks |-> <<>>, good |-> 0]
    ELSE LET bytes == Expand(inp.bytes)
             P == Parse(bytes)
         IN IF ~P.ok \/ FileErrs(P.n) # {} THEN [name |-> k, st |-> "bad-input", ver |-> 0, bps |-> <<>>, blocks |-> <<>>, good |-> 0]
            ELSE LET D == DenFile(P.n)
                     nb == Len(D.blocks)
                     good == IF inp.kind = "ok" THEN nb
                             ELSE Cardinality({j \in 1..nb : BlockEnd(P.n, j) <= inp.cut})
                     st == IF inp.kind = "ok" THEN "ok"
                           ELSE IF inp.cut < HeaderEnd(P.n) THEN "unopenable" ELSE "trunc"
                 IN [name |-> IF "same" \in DOMAIN inp THEN inp.same ELSE k, st |-> st, ver |-> VerOf(D.preamble),
                     bps |-> D.preamble.bps,
                     blocks |-> [j \in 1..nb |-> [bpi |-> D.blocks[j].bpi, id |-> Content(D.blocks[j]),
                                                  empty |-> IsEmptyBlock(D.blocks[j])]],
                     good |-> good]

MergeViol(ev, ln) ==
    LET ins == [k \in 1..Len(ev.inputs) |-> AbsInput(ev.inputs[k], k)]
        badIn == \E k \in 1..Len(ins) : ins[k].st = "bad-input"
        exp == MergeAbs(ins)
        out == Expand(ev.out)
    IN IF badIn THEN <<>>      \* a generated input that is not a valid file is the generator's fault, not the tool's
       ELSE IF ev.status # 0 THEN <<[l |-> ln, prop |-> "C18,C03", what |-> "cdns-merge did not exit normally", status |-> ev.status]>>
       ELSE IF Len(exp.blocks) = 0 THEN
            (IF Len(out) = 0 THEN <<>>
             ELSE <<[l |-> ln, prop |-> "C18", what |-> "merge of inputs without readable blocks produced data", size |-> Len(out)]>>)
       ELSE LET P == Parse(out) IN
            IF ~P.ok \/ FileErrs(P.n) # {}
            THEN <<[l |-> ln, prop |-> "C18,C02", what |-> "merged file is not a valid C-DNS file",
                    errs |-> IF P.ok THEN FileErrs(P.n) ELSE {"not well-formed CBOR"}]>>
            ELSE LET D == DenFile(P.n)
                     got == [j \in 1..Len(D.blocks) |-> [bp |-> D.preamble.bps[D.blocks[j].bpi + 1], id |-> Content(D.blocks[j])]]
                 IN (IF VerOf(D.preamble) = exp.ver THEN <<>>
                     ELSE <<[l |-> ln, prop |-> "C18", what |-> "merged file does not carry the version of the first readable input",
                             got |-> VerOf(D.preamble), want |-> exp.ver]>>)
                    \o (IF got = exp.blocks THEN <<>>
                        ELSE IF Len(got) # Len(exp.blocks)
                        THEN <<[l |-> ln, prop |-> "C18", what |-> "merged file holds a different number of blocks than the readable, version-compatible inputs",
                                got |-> Len(got), want |-> Len(exp.blocks), inputs |-> [k \in 1..Len(ins) |-> <<ins[k].st, ins[k].ver, ins[k].good>>]]>>
                        ELSE LET j == CHOOSE x \in 1..Len(got) : got[x] # exp.blocks[x] IN
                             <<[l |-> ln, prop |-> "C18",
                                what |-> IF got[j].id = exp.blocks[j].id
                                         THEN "a merged block refers to block parameters that differ from those it had in its source file"
                                         ELSE "a merged block's records or statistics differ from the source block",
                                block |-> j, got_bp |-> got[j].bp, want_bp |-> exp.blocks[j].bp]>>)

(* cdns-itemcount: expected stdout lines *)
CountsOf(D) == [j \in 1..Len(D.blocks) |-> <<Len(D.blocks[j].qrs), Len(D.blocks[j].aecs), Len(D.blocks[j].mms)>>]
RECURSIVE SumAt(_, _, _)
SumAt(cs, k, j) == IF j > Len(cs) THEN 0 ELSE cs[j][k] + SumAt(cs, k, j + 1)
Three(c, pretty) == IF pretty THEN <<"Query/Response: " \o ToString(c[1]), "Address Event Counts: " \o ToString(c[2]),
                                     "Malformed Messages: " \o ToString(c[3])>>
                    ELSE <<ToString(c[1]), ToString(c[2]), ToString(c[3])>>
RECURSIVE PerBlock(_, _, _)
PerBlock(cs, pretty, j) ==
    IF j > Len(cs) THEN <<>>
    ELSE (IF j > 1 THEN <<"">> ELSE <<>>) \o (IF pretty THEN <<"Block: " \o ToString(j - 1)>> ELSE <<>>)
         \o Three(cs[j], pretty) \o PerBlock(cs, pretty, j + 1)
ExpectedLines(D, perblock, pretty) ==
    LET cs == CountsOf(D) IN
    IF perblock THEN PerBlock(cs, pretty, 1)
    ELSE Three(<<SumAt(cs, 1, 1), SumAt(cs, 2, 1), SumAt(cs, 3, 1)>>, pretty)

CountViol(ev, ln) ==
    LET P == Parse(Expand(ev.bytes)) IN
    IF ~P.ok \/ FileErrs(P.n) # {} THEN <<>>
    ELSE LET D == DenFile(P.n)
             want == ExpectedLines(D, ev.perblock, ev.pretty)
         IN IF ev.status = 0 /\ ev.lines = want THEN <<>>
            ELSE <<[l |-> ln, prop |-> "C18", what |-> "cdns-itemcount output differs from the counts of an independent parse",
                    perblock |-> ev.perblock, pretty |-> ev.pretty, got |-> ev.lines, want |-> want, status |-> ev.status]>>

TraceInit == l = 1 /\ viol = <<>> /\ execs = 0 /\ drift = <<>>
TMerge == /\ l <= N /\ Tr[l].e = "M" /\ l' = l + 1 /\ execs' = execs + 1 /\ viol' = Notes(MergeViol(Tr[l], l)) /\ UNCHANGED drift
(* "T": one run of cdns-items / cdns-blocks (beyond the listed properties; Tools.tla): the headings on stdout must be those of
   the items / blocks the options select, numbered as Tools!ItemsAbs / BlocksAbs say, given the counts of the independent reading.
   A mismatch is reported as model drift, never as a violation of a listed property. *)
ToolDrift(ev, ln) ==
    LET P == Parse(Expand(ev.bytes)) IN
    IF ~P.ok \/ FileErrs(P.n) # {} THEN <<>>
    ELSE LET D == DenFile(P.n)
             file == [j \in 1..Len(D.blocks) |-> [q |-> Len(D.blocks[j].qrs), a |-> Len(D.blocks[j].aecs), m |-> Len(D.blocks[j].mms)]]
         IN IF ev.tool = "items"
            THEN LET want == Tools!ItemsAbs(file, ev.opt)
                     pinned == Tools!ItemsImpl(file, ev.opt, "short_remark_exact")
                 IN (IF ev.heads # want.heads
                     THEN <<[l |-> ln, what |-> "cdns-items shows other items / numbers than its options select (Tools!ItemsAbs)",
                             opt |-> ev.opt, file |-> file, got |-> ev.heads, want |-> want.heads]>> ELSE <<>>)
                    \o (IF ev.short # pinned.short
                        THEN <<[l |-> ln, what |-> "cdns-items: the 'not enough items' remark differs from the modelled (pinned) rule",
                                opt |-> ev.opt, file |-> file, got |-> ev.short, want |-> pinned.short]>> ELSE <<>>)
            ELSE LET want == Tools!BlocksAbs(Len(file), ev.opt)
                 IN IF ev.heads # want
                    THEN <<[l |-> ln, what |-> "cdns-blocks shows other blocks / numbers than its options select (Tools!BlocksAbs)",
                            opt |-> ev.opt, nb |-> Len(file), got |-> ev.heads, want |-> want]>> ELSE <<>>
TTool == /\ l <= N /\ Tr[l].e = "T" /\ l' = l + 1 /\ execs' = execs + 1
         /\ drift' = (IF Len(drift) < 20 THEN drift \o ToolDrift(Tr[l], l) ELSE drift) /\ UNCHANGED viol
TCount == /\ l <= N /\ Tr[l].e = "I" /\ l' = l + 1 /\ execs' = execs + 1 /\ viol' = Notes(CountViol(Tr[l], l)) /\ UNCHANGED drift
TEnd == /\ l <= N /\ Tr[l].e = "END"
        /\ ndJsonSerialize(IOEnv.OUT, <<[execs |-> execs, events |-> N, viol |-> viol, drift |-> drift]>>)
        /\ l' = l + 1 /\ UNCHANGED <<viol, execs, drift>>
TraceNext == TMerge \/ TCount \/ TTool \/ TEnd
TraceSpec == TraceInit /\ [][TraceNext]_tvars
TraceConsumed == TLCGet("stats").diameter - 1 = N
=============================================================================
