------------------------------ MODULE Rewrite -------------------------------
(***************************************************************************)
(* Semantics-preserving rewrites of CBOR trees (C08) and structure-aware   *)
(* mutations (C03), both as pure functions of (tree, seed) so that TLC     *)
(* produces a deterministic family of variants of a real file.             *)
(*                                                                         *)
(* Rw(n, s): at every node, depending on the seed mixed with the node's    *)
(*   position, switch definite <-> indefinite length (arrays, maps,        *)
(*   strings; strings are split into chunks), widen the head to a          *)
(*   non-preferred width, rotate the members of a map, and insert members  *)
(*   with unknown keys (>= 64 or <= -64) carrying tagged, floating-point,  *)
(*   nested and indefinite values.  RFC 8949/8618: the data denoted does   *)
(*   not change.                                                           *)
(* Mut(n, s): ONE structural mutation somewhere in the tree (length field  *)
(*   up to 2^64-1, out-of-range index, wrong major type, deep nesting,     *)
(*   boundary integer, truncated member).  The result is generally NOT a   *)
(*   valid file; it is what the read side must survive.                    *)
(***************************************************************************)
EXTENDS Cbor, TLC

Mix(s, k) == ((s * 31 + k * 17 + 7) * 13) % 65521
Pick(s, n) == s % n                          \* 0..n-1

WidenTo(a, s) ==    \* some width >= the preferred one
    LET p == PrefW(a)
        c == SelectSeq(<<0, 1, 2, 4, 8>>, LAMBDA w : w >= p)
    IN c[1 + Pick(s, Len(c))]

(* a few well-formed values for unknown members *)
Unknowns == << NTag(<<1>>, NUint(<<5>>)),
               [t |-> MT_SIMPLE, w |-> 4, a |-> <<63, 128, 0, 0>>],
               [t |-> MT_ARR, w |-> -1, a |-> <<2>>, kids |-> <<NUint(<<1>>), [t |-> MT_MAP, w |-> -1, a |-> <<1>>, kids |-> <<NUint(<<1>>), NSimple(22)>>]>>],
               [t |-> MT_BSTR, w |-> -1, a |-> <<3>>, s |-> <<1, 2, 3>>, ch |-> <<NBstr(<<1>>), NBstr(<<2, 3>>)>>],
               NTag(<<1, 0, 0>>, [t |-> MT_ARR, w |-> 0, a |-> <<1>>, kids |-> <<NTag(<<2>>, NTstr(<<97>>))>>]),
               [t |-> MT_SIMPLE, w |-> 8, a |-> <<64, 9, 33, 251, 84, 68, 45, 24>>],
               NNint(<<255, 255>>), NSimple(23), [t |-> MT_SIMPLE, w |-> 2, a |-> <<60, 0>>],
               [t |-> MT_MAP, w |-> 0, a |-> <<>>, kids |-> <<>>],
               \* simple values: one-byte (unassigned 0 and 19, null) and two-byte ones (32, 200, 255), also nested and tagged
               NSimple(0), NSimple(19), NSimple(22),
               [t |-> MT_SIMPLE, w |-> 1, a |-> <<32>>], [t |-> MT_SIMPLE, w |-> 1, a |-> <<200>>], [t |-> MT_SIMPLE, w |-> 1, a |-> <<255>>],
               [t |-> MT_ARR, w |-> 0, a |-> <<2>>, kids |-> <<[t |-> MT_SIMPLE, w |-> 1, a |-> <<100>>], NUint(<<1>>)>>],
               NTag(<<15, 160>>, [t |-> MT_MAP, w |-> 0, a |-> <<1>>, kids |-> <<NUint(<<1>>), [t |-> MT_SIMPLE, w |-> 1, a |-> <<99>>]>>]) >>
UnknownKey(s) == IF s % 2 = 0 THEN NUint(FromInt(64 + Pick(s, 900))) ELSE NNint(FromInt(63 + Pick(s, 900)))

RotatePairs(kids, r) ==      \* rotate the (key, value) pairs of a map by r pairs
    LET n == Len(kids) \div 2 IN
    IF n = 0 THEN kids
    ELSE [i \in 1..Len(kids) |-> kids[(((((i - 1) \div 2) + r) % n) * 2) + ((i - 1) % 2) + 1]]

ChunkStr(n, s) ==            \* definite string -> chunked string (0..2 cut points)
    LET L == Len(n.s)
        c1 == Pick(s, L + 1)
        parts == IF Pick(s, 3) = 0 THEN <<n.s>>
                 ELSE IF Pick(s, 3) = 1 THEN <<SubSeq(n.s, 1, c1), SubSeq(n.s, c1 + 1, L)>>
                 ELSE <<SubSeq(n.s, 1, c1), <<>>, SubSeq(n.s, c1 + 1, L)>>
    IN [t |-> n.t, w |-> -1, a |-> n.a, s |-> n.s,
        ch |-> [i \in 1..Len(parts) |-> [t |-> n.t, w |-> WidenTo(FromInt(Len(parts[i])), s + i),
                                         a |-> FromInt(Len(parts[i])), s |-> parts[i]]]]

RECURSIVE Rw(_, _)
Rw(n, s) ==
    CASE n.t \in {MT_UINT, MT_NINT} ->
            IF Pick(s, 3) = 0 THEN [n EXCEPT !.w = WidenTo(n.a, s)] ELSE n
      [] n.t \in {MT_BSTR, MT_TSTR} ->
            IF n.w = -1 THEN n
            ELSE IF Pick(s, 4) = 0 THEN ChunkStr(n, Mix(s, 3))
            ELSE IF Pick(s, 4) = 1 THEN [n EXCEPT !.w = WidenTo(n.a, s)]
            ELSE n
      [] n.t = MT_ARR ->
            LET kids == [i \in 1..Len(n.kids) |-> Rw(n.kids[i], Mix(s, i))] IN
            IF Pick(s, 3) = 0 THEN [n EXCEPT !.kids = kids, !.w = IF n.w = -1 THEN PrefW(n.a) ELSE -1]
            ELSE IF Pick(s, 3) = 1 /\ n.w # -1 THEN [n EXCEPT !.kids = kids, !.w = WidenTo(n.a, s)]
            ELSE [n EXCEPT !.kids = kids]
      [] n.t = MT_MAP ->
            LET kids0 == [i \in 1..Len(n.kids) |-> IF i % 2 = 1 THEN (IF Pick(Mix(s, i), 4) = 0 THEN [n.kids[i] EXCEPT !.w = WidenTo(n.kids[i].a, s + i)] ELSE n.kids[i])
                                                    ELSE Rw(n.kids[i], Mix(s, i))]
                kids1 == IF Pick(Mix(s, 1), 2) = 0 THEN RotatePairs(kids0, 1 + Pick(s, 5)) ELSE kids0
                ins   == Pick(Mix(s, 2), 3) = 0
                at    == 2 * Pick(Mix(s, 5), (Len(kids1) \div 2) + 1)       \* insert before pair at/2+1
                kids2 == IF ins THEN SubSeq(kids1, 1, at) \o <<UnknownKey(Mix(s, 9)), Unknowns[1 + Pick(Mix(s, 4), Len(Unknowns))]>>
                                     \o SubSeq(kids1, at + 1, Len(kids1))
                         ELSE kids1
                cnt   == FromInt(Len(kids2) \div 2)
                w     == IF Pick(Mix(s, 6), 3) = 0 THEN -1 ELSE IF Pick(Mix(s, 6), 3) = 1 THEN WidenTo(cnt, s) ELSE PrefW(cnt)
            IN [n EXCEPT !.kids = kids2, !.a = cnt, !.w = w]
      [] n.t = MT_TAG -> [n EXCEPT !.kids = <<Rw(n.kids[1], Mix(s, 1))>>]
      [] OTHER -> n

(* The blocks array of a file (third member of the file array) with a definite length - what other writers produce and  *)
(* the other branch of CdnsReader::read_block (Reader.tla) - in its preferred width (v = 0), widened (v = 1, 2), and the *)
(* file array itself with an indefinite length (v = 3); nothing else changes.                                            *)
DefBlocks(f, v) ==
    IF f.t # MT_ARR \/ Len(f.kids) # 3 \/ f.kids[3].t # MT_ARR THEN f
    ELSE LET b   == f.kids[3]
             cnt == FromInt(Len(b.kids))
             nb  == [b EXCEPT !.a = cnt, !.w = IF v % 4 = 0 THEN PrefW(cnt) ELSE IF v % 4 = 1 THEN WidenTo(cnt, 3) ELSE IF v % 4 = 2 THEN 8 ELSE PrefW(cnt)]
         IN [f EXCEPT !.kids[3] = nb, !.w = IF v % 4 = 3 THEN -1 ELSE f.w]

(* An "idle" block: a copy of a block of the file (another one than j, if there is one) without its items (query/responses, address events, malformed messages) *)
(* but with its preamble, statistics and tables, inserted before block j - what a collector writes for an interval in     *)
(* which nothing arrived.  A valid file; its other blocks denote what they denoted before.                               *)
IsKey(k, i) == k.t = MT_UINT /\ Strip(k.a) = FromInt(i)
RECURSIVE DropItems(_, _)
DropItems(kids, i) == IF i > Len(kids) THEN <<>>
                      ELSE (IF IsKey(kids[i], 3) \/ IsKey(kids[i], 4) \/ IsKey(kids[i], 5) THEN <<>> ELSE <<kids[i], kids[i + 1]>>)
                           \o DropItems(kids, i + 2)
StripItems(b) == IF b.t # MT_MAP THEN b
                 ELSE LET ks == DropItems(b.kids, 1) IN [b EXCEPT !.kids = ks, !.a = FromInt(Len(ks) \div 2), !.w = IF b.w = -1 THEN -1 ELSE PrefW(FromInt(Len(ks) \div 2))]
IdleBlock(f, v) ==
    IF f.t # MT_ARR \/ Len(f.kids) # 3 \/ f.kids[3].t # MT_ARR \/ Len(f.kids[3].kids) = 0 THEN f
    ELSE LET bs == f.kids[3].kids
             j  == 1 + (v % Len(bs))
             src == 1 + ((v + 1) % Len(bs))           \* the tables of ANOTHER block of the file (if there is one) in front of block j
             nk == SubSeq(bs, 1, j - 1) \o <<StripItems(bs[src])>> \o SubSeq(bs, j, Len(bs))
         IN [f EXCEPT !.kids[3].kids = nk,
                      !.kids[3].a = FromInt(Len(nk)),
                      !.kids[3].w = IF f.kids[3].w = -1 THEN -1 ELSE PrefW(FromInt(Len(nk)))]

(* ------------------------------ mutations ------------------------------ *)
RECURSIVE NodeCount(_)
NodeCount(n) == 1 + (IF n.t \in {MT_ARR, MT_MAP, MT_TAG}
                     THEN LET RECURSIVE S(_) S(i) == IF i > Len(n.kids) THEN 0 ELSE NodeCount(n.kids[i]) + S(i + 1) IN S(1)
                     ELSE 0)

RECURSIVE Deep(_, _)
Deep(k, indef) == IF k = 0 THEN NUint(<<1>>) ELSE [t |-> MT_ARR, w |-> IF indef THEN -1 ELSE 0, a |-> <<1>>, kids |-> <<Deep(k - 1, indef)>>]

HugeArgs == << <<255, 255, 255, 255, 255, 255, 255, 255>>, <<128, 0, 0, 0, 0, 0, 0, 0>>, <<1, 0, 0, 0, 0>>, <<255, 255, 255, 255>>,
               <<0, 128, 0, 0, 0, 0, 0>>, <<255, 255>>, <<1, 0, 0>>, <<127, 255, 255, 255, 255, 255, 255, 255>> >>

(* mutate the node itself *)
MutNode(n, s) ==
    LET huge == HugeArgs[1 + Pick(s, Len(HugeArgs))]
        k == Pick(Mix(s, 1), 7)
    IN CASE k = 0 -> \* length / value field replaced by a huge number (children and content unchanged)
                  [n EXCEPT !.a = huge, !.w = IF n.w = -1 THEN -1 ELSE 8]
         [] k = 1 -> \* another major type with the same argument
                  [t |-> MT_UINT, w |-> 8, a |-> huge]
         [] k = 2 -> Deep(40 + Pick(s, 60), Pick(s, 2) = 0)
         [] k = 3 -> IF n.t = MT_UINT THEN [n EXCEPT !.a = <<255, 255, 255, 255>>, !.w = 4] ELSE NNint(huge)
         [] k = 4 -> IF n.t \in {MT_BSTR, MT_TSTR} /\ n.w # -1 THEN [n EXCEPT !.a = FromInt(Len(n.s) + 1 + Pick(s, 300)), !.w = 2]   \* claims more bytes than follow
                     ELSE NBstr(<<9, 1, 65, 10, 66, 0, 0, 0, 0, 0, 0, 0, 0, 0, 0, 0, 0, 0, 0, 0>>)                         \* malformed name: labels 9 then 10
         [] k = 5 -> IF n.t \in {MT_ARR, MT_MAP} /\ n.w # -1 THEN [n EXCEPT !.a = Add(n.a, <<1>>)] ELSE NSimple(31 - 8)   \* one element too many announced
         [] OTHER -> NTag(huge, n)

(* length-only mutation: the announced length / count / value becomes huge, the content stays *)
LenOnly(n, s) == [n EXCEPT !.a = HugeArgs[1 + Pick(s, Len(HugeArgs))], !.w = IF n.w = -1 THEN -1 ELSE 8]

RECURSIVE MutAt(_, _, _)
(* mutate the node with pre-order index `target` (0-based); returns [n, left].  s < 0: length-only mutation *)
MutAt(n, target, s) ==
    IF target = 0 THEN [n |-> IF s < 0 THEN LenOnly(n, 0 - s) ELSE MutNode(n, s), left |-> -1]
    ELSE IF n.t \in {MT_ARR, MT_MAP, MT_TAG} THEN
        LET RECURSIVE Go(_, _, _)
            Go(i, left, acc) ==
                IF i > Len(n.kids) THEN [kids |-> acc, left |-> left]
                ELSE IF left < 0 THEN Go(i + 1, left, Append(acc, n.kids[i]))
                ELSE LET r == MutAt(n.kids[i], left, s) IN Go(i + 1, r.left, Append(acc, r.n))
            g == Go(1, target - 1, <<>>)
        IN [n |-> [n EXCEPT !.kids = g.kids], left |-> g.left]
    ELSE [n |-> n, left |-> target - 1]

Mut(n, s) == MutAt(n, Pick(Mix(s, 11), NodeCount(n)), s).n
(* the v-th node (cyclically) gets a huge length: sweeps every length field of a file *)
MutLen(n, v) == MutAt(n, v % NodeCount(n), 0 - (1 + v)).n

(* hostile parameters: every unsigned value of the file preamble (ticks per second, max-block-items, hints,      *)
(* prefixes, versions, ...) becomes huge at once -- these are the numbers the reading of the blocks trusts --    *)
(* and then, one at a time, every length field (arrays, maps, strings) of the file is made huge as well: an     *)
(* allocation bounded by "the smaller of two numbers from the input" is found this way                          *)
RECURSIVE HugeVals(_, _)
HugeVals(n, s) ==
    CASE n.t = MT_UINT -> [n EXCEPT !.a = HugeArgs[1 + Pick(s, 3)], !.w = 8]
      [] n.t = MT_MAP  -> [n EXCEPT !.kids = [i \in 1..Len(n.kids) |-> IF i % 2 = 1 THEN n.kids[i] ELSE HugeVals(n.kids[i], Mix(s, i))]]
      [] n.t \in {MT_ARR, MT_TAG} -> [n EXCEPT !.kids = [i \in 1..Len(n.kids) |-> HugeVals(n.kids[i], Mix(s, i))]]
      [] OTHER -> n
HostileParams(f, s) == IF f.t = MT_ARR /\ Len(f.kids) >= 2 THEN [f EXCEPT !.kids[2] = HugeVals(@, s)] ELSE f

RECURSIVE LenNodes(_, _)
(* pre-order indices of the nodes that carry a length (base = index of n); [idx, next] *)
LenNodes(n, base) ==
    LET self == IF n.t \in {MT_ARR, MT_MAP, MT_BSTR, MT_TSTR} /\ n.w # -1 THEN <<base>> ELSE <<>> IN
    IF n.t \in {MT_ARR, MT_MAP, MT_TAG} THEN
        LET RECURSIVE Go(_, _, _)
            Go(i, nxt, acc) == IF i > Len(n.kids) THEN [idx |-> acc, next |-> nxt]
                               ELSE LET r == LenNodes(n.kids[i], nxt) IN Go(i + 1, r.next, acc \o r.idx)
        IN Go(1, base + 1, self)
    ELSE [idx |-> self, next |-> base + 1]
MutLen2(n, v) ==
    LET h == HostileParams(n, v)
        idx == LenNodes(h, 0).idx
    IN IF idx = <<>> THEN h ELSE MutAt(h, idx[1 + (v % Len(idx))], 0 - (1 + v)).n

(* boundary instants: the earliest-time of every block becomes (secs, ticks) = Edges[..], chosen by the caller    *)
(* so that secs * rate + ticks lies just below 2^63 for a common rate -- adding the (unchanged, small) time        *)
(* offsets of the records then crosses the largest representable instant                                          *)
KeyIs(k, i) == k.t = MT_UINT /\ Strip(k.a) = FromInt(i)
MapAt(m, i, F(_)) ==      \* the value of key i of map m replaced by F(value)
    IF m.t # MT_MAP THEN m
    ELSE [m EXCEPT !.kids = [j \in 1..Len(m.kids) |-> IF j % 2 = 0 /\ KeyIs(m.kids[j - 1], i) THEN F(m.kids[j]) ELSE m.kids[j]]]
MutTime(f, v, Edges) ==
    IF Edges = <<>> \/ f.t # MT_ARR \/ Len(f.kids) < 3 \/ f.kids[3].t # MT_ARR THEN f
    ELSE LET e == Edges[1 + (v % Len(Edges))]
             SetTime(tm) == IF tm.t = MT_ARR /\ Len(tm.kids) = 2 THEN [tm EXCEPT !.kids = <<NUint(e.s), NUint(e.t)>>] ELSE tm
             InPre(pre) == MapAt(pre, 0, SetTime)
             InBlock(b) == MapAt(b, 0, InPre)
         IN [f EXCEPT !.kids[3].kids = [i \in 1..Len(f.kids[3].kids) |-> InBlock(f.kids[3].kids[i])]]

(* malformed domain names / addresses: every byte string of the file (names, RDATA, addresses, payloads) is *)
(* replaced by a seed-chosen ill-formed one; the file stays a valid C-DNS file, its content is hostile        *)
BadNames == << <<9, 1, 65, 10, 66, 0, 0, 0, 0, 0, 0, 0, 0, 0, 0, 0, 0, 0, 0, 0>>, <<63>>, <<1>>, <<255, 65>>, <<3, 119, 119, 119>>,
               <<0>>, <<>>, <<5, 1, 2>>, <<1, 65, 200>>, [i \in 1..300 |-> 1], [i \in 1..70 |-> 63], <<2, 65, 66, 0, 7>>,
               <<192, 12>>, <<1, 46, 0>>, [i \in 1..17 |-> 255], <<127, 0, 0>>, [i \in 1..15 |-> 7], [i \in 1..16 |-> 0] >>
RECURSIVE MutNames(_, _)
MutNames(n, s) ==
    CASE n.t = MT_BSTR /\ n.w # -1 ->
            LET b == BadNames[1 + Pick(s, Len(BadNames))] IN NBstr(b)
      [] n.t \in {MT_ARR, MT_MAP, MT_TAG} -> [n EXCEPT !.kids = [i \in 1..Len(n.kids) |-> MutNames(n.kids[i], Mix(s, i))]]
      [] OTHER -> n
=============================================================================
