------------------------------ MODULE CborGen ------------------------------
(***************************************************************************)
(* A bounded slice of the RFC 8949 grammar as sets of trees (module Cbor): *)
(* all major types, preferred and non-preferred head widths, definite and  *)
(* indefinite (chunked) strings, nested definite/indefinite containers,    *)
(* tags with content, floats and simple values.  Used                      *)
(*   - by MCDecoder (exhaustive model checking of DecoderImpl vs Abs),     *)
(*   - by GenDecoder (TLC writes the serialised items as scenarios that    *)
(*     the driver places at every alignment of the real 64 KiB window).    *)
(***************************************************************************)
EXTENDS Cbor

U8(n) == Pad(n, 8)

(* (value, width) pairs: preferred and non-preferred widths, width boundaries *)
IntShapes == {<<<<>>, 0>>, <<<<23>>, 0>>, <<<<24>>, 1>>, <<<<>>, 1>>, <<<<255>>, 1>>,
              <<<<1, 0>>, 2>>, <<<<5>>, 2>>, <<<<255, 255>>, 2>>,
              <<<<1, 0, 0>>, 4>>, <<<<1>>, 4>>, <<<<255, 255, 255, 255>>, 4>>,
              <<<<1, 0, 0, 0, 0>>, 8>>, <<<<7>>, 8>>, <<<<127, 255, 255, 255, 255, 255, 255, 255>>, 8>>}
BigUint == {<<<<128, 0, 0, 0, 0, 0, 0, 0>>, 8>>, <<<<255, 255, 255, 255, 255, 255, 255, 255>>, 8>>}

Uints == {[t |-> MT_UINT, w |-> x[2], a |-> x[1]] : x \in IntShapes \cup BigUint}
Nints == {[t |-> MT_NINT, w |-> x[2], a |-> x[1]] : x \in IntShapes}
Bools == {NSimple(20), NSimple(21)}

Str(mt, s, w) == [t |-> mt, w |-> w, a |-> FromInt(Len(s)), s |-> s]
Abc(n) == [i \in 1..n |-> 96 + (i % 26)]
StrTypes == {MT_BSTR, MT_TSTR}
DefStrs == UNION {{Str(mt, <<>>, 0), Str(mt, <<65>>, 0), Str(mt, Abc(3), 0), Str(mt, Abc(24), 1),
                   Str(mt, Abc(2), 1), Str(mt, Abc(2), 2), Str(mt, Abc(2), 4), Str(mt, Abc(2), 8),
                   Str(mt, <<255, 0, 255>>, 0)} : mt \in StrTypes}
LongStrs(n) == {Str(mt, Abc(n), 2) : mt \in StrTypes}

Chunked(mt, chunks) ==
    LET RECURSIVE Cat(_)
        Cat(i) == IF i > Len(chunks) THEN <<>> ELSE chunks[i].s \o Cat(i + 1)
    IN [t |-> mt, w |-> -1, a |-> FromInt(Len(Cat(1))), s |-> Cat(1), ch |-> chunks]
IndefStrs == UNION {{Chunked(mt, <<>>),
                     Chunked(mt, <<Str(mt, <<>>, 0)>>),
                     Chunked(mt, <<Str(mt, Abc(3), 0)>>),
                     Chunked(mt, <<Str(mt, Abc(2), 0), Str(mt, Abc(1), 1)>>),
                     Chunked(mt, <<Str(mt, <<1>>, 0), Str(mt, <<>>, 0), Str(mt, <<2, 3>>, 2)>>),
                     Chunked(mt, <<Str(mt, <<255>>, 0)>>)} : mt \in StrTypes}

Scalars == {NUint(<<>>), NUint(<<1, 0>>), NNint(<<3>>), NSimple(21), Str(MT_BSTR, <<9, 9>>, 0)}

ArrOf(kids, w) == [t |-> MT_ARR, w |-> w, a |-> FromInt(Len(kids)), kids |-> kids]
MapOf(kids, w) == [t |-> MT_MAP, w |-> w, a |-> FromInt(Len(kids) \div 2), kids |-> kids]

Floats == {[t |-> MT_SIMPLE, w |-> 2, a |-> <<60, 0>>], [t |-> MT_SIMPLE, w |-> 4, a |-> <<63, 128, 0, 0>>],
           [t |-> MT_SIMPLE, w |-> 8, a |-> <<63, 240, 0, 0, 0, 0, 0, 255>>]}
Simples == {NSimple(22), NSimple(23), NSimple(0), [t |-> MT_SIMPLE, w |-> 1, a |-> <<32>>],
            [t |-> MT_SIMPLE, w |-> 1, a |-> <<255>>]}

Level1 == {ArrOf(<<>>, 0), ArrOf(<<>>, -1), ArrOf(<<>>, 1), MapOf(<<>>, 0), MapOf(<<>>, -1)}
          \cup {ArrOf(<<x>>, w) : x \in Scalars, w \in {0, -1}}
          \cup {ArrOf(<<NUint(<<1>>), Str(MT_TSTR, Abc(2), 0), NNint(<<>>)>>, w) : w \in {0, 2, -1}}
          \cup {MapOf(<<NUint(<<1>>), x>>, w) : x \in Scalars, w \in {0, -1}}
          \cup {MapOf(<<NUint(<<>>), NUint(<<2>>), NNint(<<>>), Str(MT_TSTR, Abc(1), 0)>>, w) : w \in {0, 4, -1}}
          \cup {ArrOf(<<Chunked(MT_BSTR, <<Str(MT_BSTR, <<7>>, 0)>>)>>, w) : w \in {0, -1}}

Tags0 == {NTag(<<1>>, NUint(<<5>>)), NTag(<<1, 0, 0, 0, 0>>, Str(MT_BSTR, <<1, 2>>, 0)),
          NTag(<<24>>, NTag(<<2>>, NUint(<<>>))), NTag(<<0>>, Str(MT_TSTR, Abc(3), 0))}

Level2 == {ArrOf(<<x, NUint(<<9>>)>>, w) : x \in {ArrOf(<<>>, -1), ArrOf(<<NUint(<<1>>)>>, -1), MapOf(<<>>, -1),
                                                    MapOf(<<NUint(<<1>>), ArrOf(<<NSimple(20)>>, -1)>>, -1),
                                                    NTag(<<6>>, ArrOf(<<NUint(<<2>>)>>, -1)),
                                                    [t |-> MT_SIMPLE, w |-> 2, a |-> <<60, 0>>]},
                                         w \in {0, -1}}
          \cup {MapOf(<<NUint(<<3>>), x, NUint(<<4>>), NUint(<<4>>)>>, w) :
                    x \in {ArrOf(<<NUint(<<1>>), NUint(<<2>>)>>, -1), MapOf(<<NNint(<<>>), NSimple(22)>>, -1),
                           NTag(<<7>>, MapOf(<<>>, 0))},
                    w \in {0, -1}}
          \cup {NTag(<<9>>, ArrOf(<<NUint(<<1>>)>>, -1)), NTag(<<9>>, MapOf(<<NUint(<<1>>), NUint(<<1>>)>>, -1))}

RECURSIVE Nest(_, _)
Nest(n, indef) == IF n = 0 THEN NUint(<<1>>) ELSE ArrOf(<<Nest(n - 1, indef)>>, IF indef THEN -1 ELSE 0)
RECURSIVE NestTag(_), NestMap(_), NestMix(_)
NestTag(n) == IF n = 0 THEN NUint(<<2>>) ELSE NTag(<<n % 20>>, NestTag(n - 1))
NestMap(n) == IF n = 0 THEN NUint(<<3>>) ELSE MapOf(<<NUint(<<n % 20>>), NestMap(n - 1)>>, 0)
NestMix(n) == IF n = 0 THEN NSimple(21)
              ELSE IF n % 3 = 0 THEN ArrOf(<<NUint(<<1>>), NestMix(n - 1)>>, 0)
              ELSE IF n % 3 = 1 THEN NTag(<<5>>, NestMix(n - 1))
              ELSE MapOf(<<NUint(<<>>), NestMix(n - 1)>>, -1)
(* nesting well beyond what C-DNS itself produces (but within what a skip must cope with) *)
Deep == {Nest(6, TRUE), Nest(6, FALSE), Nest(17, FALSE), Nest(40, FALSE), Nest(33, TRUE), NestTag(18), NestTag(35),
         NestMap(20), NestMix(25), NestMix(50)}

AllItems == Uints \cup Nints \cup Bools \cup DefStrs \cup IndefStrs \cup Floats \cup Simples
            \cup Level1 \cup Tags0 \cup Level2 \cup Deep

(* the read operation that matches an item (besides skip, which matches all) *)
MatchingOp(n) ==
    CASE n.t = MT_UINT -> "uint"
      [] n.t = MT_NINT -> "nint"
      [] n.t = MT_BSTR -> "bstr"
      [] n.t = MT_TSTR -> "tstr"
      [] n.t = MT_ARR  -> "arr"
      [] n.t = MT_MAP  -> "map"
      [] n.t = MT_SIMPLE /\ n.w = 0 /\ n.a \in {<<20>>, <<21>>} -> "bool"
      [] OTHER -> "skip"
=============================================================================
