----------------------------- MODULE GenVariants ----------------------------
(* TLC reads real files (IN: one {"bytes":[..]} per line), parses them with   *)
(* Cbor!Parse and writes NVar rewritten (Mode = "rewrite") or mutated         *)
(* (Mode = "mutate") serialisations of each to OUT.                           *)
EXTENDS Rewrite, Json, IOUtils, Sequences

CONSTANTS NVar, Mode, Seed

(* Mode = "times": (secs, ticks) pairs {"s":[bytes],"t":[bytes]}, one per line of the file EDGES *)
Edges == ndJsonDeserialize(IOEnv.EDGES)

In == ndJsonDeserialize(IOEnv.IN)

RECURSIVE Compose(_, _, _)
Compose(n, s, k) == IF k = 0 THEN n ELSE Compose(Rw(n, Mix(s, k)), s, k - 1)     \* compositions of rewrites

VariantsOf(i) ==
    LET P == Parse(In[i].bytes) IN
    IF ~P.ok THEN <<>>
    ELSE [v \in 1..NVar |->
            [src |-> i, v |-> v,
             bytes |-> Ser(IF Mode = "rewrite" THEN Compose(P.n, Seed * 101 + i * 1009 + v, 1 + (v % 3))
                           ELSE IF Mode = "defblocks" THEN DefBlocks(P.n, v - 1)
                           ELSE IF Mode = "idle" THEN IdleBlock(P.n, v - 1)
                           ELSE IF Mode = "lengths" THEN MutLen(P.n, v - 1)
                           ELSE IF Mode = "lengths2" THEN MutLen2(P.n, v - 1)
                           ELSE IF Mode = "times" THEN MutTime(P.n, v - 1, Edges)
                           ELSE IF Mode = "names" THEN MutNames(P.n, Seed * 101 + i * 1009 + v * 7)
                           ELSE Mut(P.n, Seed * 101 + i * 1009 + v * 7))]]

RECURSIVE All(_)
All(i) == IF i > Len(In) THEN <<>> ELSE VariantsOf(i) \o All(i + 1)

ASSUME ndJsonSerialize(IOEnv.OUT, All(1))
ASSUME PrintT(<<"variants", Len(In), NVar>>)
=============================================================================
