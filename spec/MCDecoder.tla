----------------------------- MODULE MCDecoder -----------------------------
(***************************************************************************)
(* Bounded model check of DecoderImpl against the property level:          *)
(* for every item of CborGen!AllItems (plus every proper prefix of it =    *)
(* truncated input, plus an unreadable stream), placed behind 0..W+1       *)
(* padding bytes so that it meets the window boundary at every alignment,  *)
(* followed by a sentinel: run the padding reads, one operation on the     *)
(* item (its matching read, skip, peek or a mismatching one), read the     *)
(* sentinel, then two more operations at the exhausted stream.  Every      *)
(* outcome must conform to AbsExpect (C07 values / skip-exactly-one, C05   *)
(* end detection), the reservation ghost stays below RsvCap and the        *)
(* native recursion ghost stays 0 (C03).                                   *)
(***************************************************************************)
EXTENDS Decoder, CborGen

CONSTANTS Cut     \* TRUE: also all truncations of every item

VARIABLES S, kind, st, p, phase, ended, lastOp, bad
vars == <<S, kind, st, p, phase, ended, lastOp, bad>>

Sentinel == 23
Tails == {Ser(n) \o <<Sentinel>> : n \in AllItems}
         \cup (IF Cut THEN UNION {{SubSeq(Ser(n), 1, k) : k \in 0..(Len(Ser(n)) - 1)} : n \in AllItems} ELSE {})
         \cup {<<91, 0, 0, 128, 0, 0, 0, 0, 0, 1, 2, 3>>,      \* byte string claiming 2^47 bytes
               <<155, 0, 0, 0, 1, 0, 0, 0, 0, 1>>}              \* array claiming 2^32 items

MCInit ==
    /\ \E t \in Tails : \E pad \in 0..(W + 1) : S = Fill(0, pad) \o t
    /\ kind \in {"ok"}
    /\ st = DInit /\ p = 0 /\ phase = "pad" /\ ended = FALSE /\ lastOp = "none" /\ bad = "none"

MCInitUnreadable ==
    /\ S = <<>> /\ kind = "unopened"
    /\ st = DInit /\ p = 0 /\ phase = "item" /\ ended = FALSE /\ lastOp = "none" /\ bad = "none"

Step(op, nextPhase) ==
    LET exp == IF ended THEN EndOut ELSE AbsExpect(IF kind = "unopened" THEN <<>> ELSE S, p, op)
        out == ImplOp(S, kind, st, op)
    IN /\ st' = out.st
       /\ lastOp' = op
       /\ bad' = IF out.k = "fab" THEN "fabricated value from a stale window"
                 ELSE IF ~Conforms(exp, out) THEN "outcome differs from RFC 8949 / end-of-input rule"
                 ELSE "none"
       /\ p' = IF exp.k = "val" THEN exp.p ELSE p
       /\ ended' = (ended \/ out.k = "end")
       /\ phase' = IF out.k \in {"err", "fab"} \/ exp.k = "any" THEN "done" ELSE nextPhase
       /\ UNCHANGED <<S, kind>>

PadLeft == p < Len(S) /\ S[p + 1] = 0 /\ \E q \in (p + 2)..Len(S) : S[q] # 0

MCNext ==
    \/ /\ phase = "pad"
       /\ IF PadLeft THEN Step("uint", "pad")
          ELSE /\ phase' = "item" /\ UNCHANGED <<S, kind, st, p, ended, lastOp, bad>>
    \/ /\ phase = "item" /\ \E op \in ReadOps : Step(op, IF op = "peek" THEN "item2" ELSE "sentinel")
    \/ /\ phase = "item2" /\ \E op \in ReadOps \ {"peek"} : Step(op, "sentinel")
    \/ /\ phase = "sentinel" /\ Step("uint", "after1")
    \/ /\ phase = "after1" /\ \E op \in {"peek", "uint", "skip"} : Step(op, "after2")
    \/ /\ phase = "after2" /\ \E op \in {"peek", "bstr"} : Step(op, "done")

MCSpec  == MCInit /\ [][MCNext]_vars
MCSpecU == MCInitUnreadable /\ [][MCNext]_vars

C07_C05_Conforms == bad = "none"
C03_Reserve      == Cmp(st.rsv, FromInt(RsvCap)) <= 0
C03_Depth        == st.dep = 0
=============================================================================
