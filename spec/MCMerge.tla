------------------------------ MODULE MCMerge -------------------------------
(* every tuple of 1..3 inputs from a pool: ok with one/two parameter sets,   *)
(* version mismatch, unopenable, truncated, only empty blocks, the same file *)
(* twice: MergeImpl = MergeAbs                                               *)
EXTENDS Merge

VARIABLES ins, done
vars == <<ins, done>>

B(bpi, id) == [bpi |-> bpi, id |-> id, empty |-> FALSE]
E(bpi, id) == [bpi |-> bpi, id |-> id, empty |-> TRUE]
Pool == { [name |-> "a", st |-> "ok", ver |-> 1, bps |-> <<"pa0", "pa1">>, blocks |-> <<B(0, "a1"), B(1, "a2")>>, good |-> 2],
          [name |-> "b", st |-> "ok", ver |-> 1, bps |-> <<"pb0">>, blocks |-> <<B(0, "b1")>>, good |-> 1],
          [name |-> "m", st |-> "ok", ver |-> 2, bps |-> <<"pm0", "pm1">>, blocks |-> <<B(1, "m1"), B(0, "m2")>>, good |-> 2],
          [name |-> "u", st |-> "unopenable", ver |-> 0, bps |-> <<>>, blocks |-> <<>>, good |-> 0],
          [name |-> "t", st |-> "trunc", ver |-> 1, bps |-> <<"pt0", "pt1">>, blocks |-> <<B(1, "t1"), B(0, "t2"), B(1, "t3")>>, good |-> 1],
          [name |-> "e", st |-> "ok", ver |-> 1, bps |-> <<"pe0">>, blocks |-> <<E(0, "e1"), B(0, "e2")>>, good |-> 2] }

Tuples == {<<x>> : x \in Pool} \cup {<<x, y>> : x \in Pool, y \in Pool} \cup {<<x, y, z>> : x \in Pool, y \in Pool, z \in Pool}

MCInit == ins \in Tuples /\ done = FALSE
MCNext == done = FALSE /\ done' = TRUE /\ UNCHANGED ins
MCSpec == MCInit /\ [][MCNext]_vars

C18_Merge == MergeImpl(ins) = MergeAbs(ins)
=============================================================================
