------------------------------- MODULE Cbor --------------------------------
(***************************************************************************)
(* RFC 8949 (CBOR) as a TLA+ module: the reference encoder (CHead, the      *)
(* preferred/shortest serialisation), a STRICT parser of byte sequences    *)
(* into trees (Parse) and the inverse serialiser that honours the          *)
(* encoding shape recorded in a tree (Ser).                                *)
(*                                                                         *)
(* This module is written from the RFC only; it shares nothing with        *)
(* /repo/src/cdns_encoder.cpp or cdns_decoder.cpp.  TLC evaluates it on    *)
(* the real bytes the implementation produced (trace validation) and on    *)
(* the byte streams it generates for the implementation to read.           *)
(*                                                                         *)
(* A tree node is a record                                                 *)
(*   t     major type 0..7                                                 *)
(*   w     head width: 0 (argument in the initial byte), 1, 2, 4, 8, or    *)
(*         -1 for indefinite length                                        *)
(*   a     argument as Nat256 (see Bytes); for strings the byte length,    *)
(*         for arrays the item count, for maps the pair count              *)
(*   s     (strings) the content bytes, chunks concatenated                *)
(*   ch    (indefinite strings) the sequence of chunk nodes                *)
(*   kids  (arrays, maps, tags) the children; a map's children are         *)
(*         k1, v1, k2, v2, ...                                             *)
(***************************************************************************)
EXTENDS Bytes

MT_UINT == 0  MT_NINT == 1  MT_BSTR == 2  MT_TSTR == 3
MT_ARR == 4   MT_MAP == 5   MT_TAG == 6   MT_SIMPLE == 7

(* ------------------------------ encoder ------------------------------- *)
(* Head of major type mt with argument n (any byte sequence; leading zeros *)
(* are ignored): the shortest of the five forms that can carry it.         *)
CHead(mt, n) ==
    LET s == Strip(n) IN
    IF Len(s) = 0 THEN <<mt * 32>>
    ELSE IF Len(s) = 1 /\ s[1] <= 23 THEN <<mt * 32 + s[1]>>
    ELSE IF Len(s) = 1 THEN <<mt * 32 + 24>> \o s
    ELSE IF Len(s) = 2 THEN <<mt * 32 + 25>> \o s
    ELSE IF Len(s) <= 4 THEN <<mt * 32 + 26>> \o Pad(s, 4)
    ELSE <<mt * 32 + 27>> \o Pad(s, 8)

(* head with an explicitly chosen width (for non-preferred encodings) *)
HeadW(mt, n, w) ==
    LET s == Strip(n) IN
    IF w = 0 THEN <<mt * 32 + (IF Len(s) = 0 THEN 0 ELSE s[1])>>
    ELSE IF w = 1 THEN <<mt * 32 + 24>> \o Pad(s, 1)
    ELSE IF w = 2 THEN <<mt * 32 + 25>> \o Pad(s, 2)
    ELSE IF w = 4 THEN <<mt * 32 + 26>> \o Pad(s, 4)
    ELSE <<mt * 32 + 27>> \o Pad(s, 8)

(* widths in which argument n can be carried *)
FitsWidth(n, w) ==
    LET s == Strip(n) IN
    CASE w = 0 -> Len(s) = 0 \/ (Len(s) = 1 /\ s[1] <= 23)
      [] w = 1 -> Len(s) <= 1
      [] w = 2 -> Len(s) <= 2
      [] w = 4 -> Len(s) <= 4
      [] w = 8 -> Len(s) <= 8
      [] OTHER -> FALSE

Widths == {0, 1, 2, 4, 8}

(* the value RFC 8949 assigns to a head: inverse of HeadW *)
HeadArg(h) == IF Len(h) = 1 THEN (IF h[1] % 32 = 0 THEN <<>> ELSE <<h[1] % 32>>)
              ELSE Strip(SubSeq(h, 2, Len(h)))

BreakByte == 255
IndefHead(mt) == <<mt * 32 + 31>>

(* ------------------------------- parser ------------------------------- *)
(* a parse fails either because the input is malformed (Fail) or because it  *)
(* ends before the item is complete (Short: a proper prefix of an item)      *)
Fail  == [ok |-> FALSE, short |-> FALSE]
Short == [ok |-> FALSE, short |-> TRUE]

WidthOf(ai) == IF ai < 24 THEN 0
               ELSE IF ai = 24 THEN 1
               ELSE IF ai = 25 THEN 2
               ELSE IF ai = 26 THEN 4
               ELSE IF ai = 27 THEN 8
               ELSE -1

RECURSIVE PItem(_, _, _), PItems(_, _, _, _, _), PIndef(_, _, _, _, _), PChunks(_, _, _, _, _)

(* one data item of b starting at position p (1-based); d = depth budget   *)
(* result: [ok |-> TRUE, e |-> first position after the item, n |-> node]  *)
PItem(b, p, d) ==
    IF p > Len(b) THEN Short ELSE
    IF d = 0 THEN Fail ELSE
    LET ib == b[p]
        mt == ib \div 32
        ai == ib % 32
        w  == WidthOf(ai)
    IN
    IF ai \in 28..30 THEN Fail
    ELSE IF ai = 31 THEN
        CASE mt \in {MT_BSTR, MT_TSTR} -> PChunks(b, p + 1, mt, <<>>, <<>>)
          [] mt \in {MT_ARR, MT_MAP}   -> PIndef(b, p + 1, mt, <<>>, d - 1)
          [] OTHER -> Fail
    ELSE IF p + w > Len(b) THEN Short
    ELSE
    LET arg == IF w = 0 THEN (IF ai = 0 THEN <<>> ELSE <<ai>>)
               ELSE Strip(SubSeq(b, p + 1, p + w))
        q   == p + 1 + w
    IN
    CASE mt \in {MT_UINT, MT_NINT} ->
            [ok |-> TRUE, e |-> q, n |-> [t |-> mt, w |-> w, a |-> arg]]
      [] mt \in {MT_BSTR, MT_TSTR} ->
            IF ~FitsInt(arg) THEN Short
            ELSE LET L == ToInt(arg) IN
                 IF q + L - 1 > Len(b) THEN Short
                 ELSE [ok |-> TRUE, e |-> q + L,
                       n |-> [t |-> mt, w |-> w, a |-> arg, s |-> SubSeq(b, q, q + L - 1)]]
      [] mt = MT_ARR ->
            IF ~FitsInt(arg) THEN Short
            ELSE LET r == PItems(b, q, ToInt(arg), <<>>, d - 1) IN
                 IF ~r.ok THEN r
                 ELSE [ok |-> TRUE, e |-> r.e,
                       n |-> [t |-> mt, w |-> w, a |-> arg, kids |-> r.kids]]
      [] mt = MT_MAP ->
            IF ~FitsInt(arg) THEN Short
            ELSE LET r == PItems(b, q, 2 * ToInt(arg), <<>>, d - 1) IN
                 IF ~r.ok THEN r
                 ELSE [ok |-> TRUE, e |-> r.e,
                       n |-> [t |-> mt, w |-> w, a |-> arg, kids |-> r.kids]]
      [] mt = MT_TAG ->
            LET r == PItem(b, q, d - 1) IN
            IF ~r.ok THEN r
            ELSE [ok |-> TRUE, e |-> r.e,
                  n |-> [t |-> mt, w |-> w, a |-> arg, kids |-> <<r.n>>]]
      [] OTHER -> \* MT_SIMPLE: simple values and floats; raw argument bytes kept
            [ok |-> TRUE, e |-> q,
             n |-> [t |-> mt, w |-> w,
                    a |-> IF w = 0 THEN arg ELSE SubSeq(b, p + 1, p + w)]]

(* k items in a row *)
PItems(b, p, k, acc, d) ==
    IF k = 0 THEN [ok |-> TRUE, e |-> p, kids |-> acc]
    ELSE LET r == PItem(b, p, d) IN
         IF ~r.ok THEN r
         ELSE PItems(b, r.e, k - 1, Append(acc, r.n), d)

(* items of an indefinite-length array/map up to the break *)
PIndef(b, p, mt, acc, d) ==
    IF p > Len(b) THEN Short
    ELSE IF b[p] = BreakByte THEN
        IF mt = MT_MAP /\ Len(acc) % 2 = 1 THEN Fail
        ELSE [ok |-> TRUE, e |-> p + 1,
              n |-> [t |-> mt, w |-> -1,
                     a |-> FromInt(IF mt = MT_MAP THEN Len(acc) \div 2 ELSE Len(acc)),
                     kids |-> acc]]
    ELSE LET r == PItem(b, p, d) IN
         IF ~r.ok THEN r
         ELSE PIndef(b, r.e, mt, Append(acc, r.n), d)

(* chunks of an indefinite-length string: definite strings of the same type *)
PChunks(b, p, mt, chunks, content) ==
    IF p > Len(b) THEN Short
    ELSE IF b[p] = BreakByte THEN
        [ok |-> TRUE, e |-> p + 1,
         n |-> [t |-> mt, w |-> -1, a |-> FromInt(Len(content)),
                s |-> content, ch |-> chunks]]
    ELSE IF b[p] \div 32 # mt \/ b[p] % 32 = 31 THEN Fail
    ELSE LET r == PItem(b, p, 1) IN
         IF ~r.ok THEN r
         ELSE PChunks(b, r.e, mt, Append(chunks, r.n), content \o r.n.s)

MaxDepth == 64

(* strict parse of a whole byte sequence as exactly one data item *)
Parse(b) == LET r == PItem(b, 1, MaxDepth) IN
            IF ~r.ok THEN r ELSE IF r.e = Len(b) + 1 THEN r ELSE Fail

WellFormed(b) == Parse(b).ok

(* head only: [ok, e |-> position after the head, mt, ai, w, a] *)
PHead(b, p) ==
    IF p > Len(b) THEN Short ELSE
    LET ib == b[p]  mt == ib \div 32  ai == ib % 32  w == WidthOf(ai) IN
    IF ai \in 28..30 THEN Fail
    ELSE IF ai = 31 THEN [ok |-> TRUE, e |-> p + 1, mt |-> mt, ai |-> ai, w |-> -1, a |-> <<>>]
    ELSE IF p + w > Len(b) THEN Short
    ELSE [ok |-> TRUE, e |-> p + 1 + w, mt |-> mt, ai |-> ai, w |-> w,
          a |-> IF w = 0 THEN (IF ai = 0 THEN <<>> ELSE <<ai>>) ELSE Strip(SubSeq(b, p + 1, p + w))]

(* position after the item that starts at p, or 0 when there is none *)
ItemEnd(b, p) == LET r == PItem(b, p, MaxDepth) IN IF r.ok THEN r.e ELSE 0

(* ----------------------------- serialiser ----------------------------- *)
RECURSIVE Ser(_), SerSeq(_, _)
Ser(n) ==
    CASE n.t \in {MT_UINT, MT_NINT} -> HeadW(n.t, n.a, n.w)
      [] n.t \in {MT_BSTR, MT_TSTR} ->
            IF n.w = -1 THEN IndefHead(n.t) \o SerSeq(n.ch, 1) \o <<BreakByte>>
            ELSE HeadW(n.t, n.a, n.w) \o n.s
      [] n.t \in {MT_ARR, MT_MAP} ->
            IF n.w = -1 THEN IndefHead(n.t) \o SerSeq(n.kids, 1) \o <<BreakByte>>
            ELSE HeadW(n.t, n.a, n.w) \o SerSeq(n.kids, 1)
      [] n.t = MT_TAG -> HeadW(n.t, n.a, n.w) \o Ser(n.kids[1])
      [] OTHER -> IF n.w = 0 THEN HeadW(n.t, n.a, 0)
                  ELSE <<n.t * 32 + (CASE n.w = 1 -> 24 [] n.w = 2 -> 25
                                        [] n.w = 4 -> 26 [] OTHER -> 27)>> \o n.a
SerSeq(ns, i) == IF i > Len(ns) THEN <<>> ELSE Ser(ns[i]) \o SerSeq(ns, i + 1)

(* ------------------------- convenience builders ----------------------- *)
PrefW(a) == LET s == Strip(a) IN
            IF Len(s) = 0 \/ (Len(s) = 1 /\ s[1] <= 23) THEN 0
            ELSE IF Len(s) = 1 THEN 1 ELSE IF Len(s) = 2 THEN 2
            ELSE IF Len(s) <= 4 THEN 4 ELSE 8
NUint(a)  == [t |-> MT_UINT, w |-> PrefW(a), a |-> Strip(a)]
NNint(a)  == [t |-> MT_NINT, w |-> PrefW(a), a |-> Strip(a)]
NBstr(s)  == [t |-> MT_BSTR, w |-> PrefW(FromInt(Len(s))), a |-> FromInt(Len(s)), s |-> s]
NTstr(s)  == [t |-> MT_TSTR, w |-> PrefW(FromInt(Len(s))), a |-> FromInt(Len(s)), s |-> s]
NArr(ks)  == [t |-> MT_ARR, w |-> PrefW(FromInt(Len(ks))), a |-> FromInt(Len(ks)), kids |-> ks]
NMap(ks)  == [t |-> MT_MAP, w |-> PrefW(FromInt(Len(ks) \div 2)), a |-> FromInt(Len(ks) \div 2), kids |-> ks]
NSimple(v) == [t |-> MT_SIMPLE, w |-> 0, a |-> FromInt(v)]
NTag(a, k) == [t |-> MT_TAG, w |-> PrefW(a), a |-> Strip(a), kids |-> <<k>>]

(* shape-insensitive equality: same data model value (RFC 8949 sec. 2)      *)
RECURSIVE SameValue(_, _)
SameValue(x, y) ==
    /\ x.t = y.t
    /\ CASE x.t \in {MT_UINT, MT_NINT} -> x.a = y.a
         [] x.t \in {MT_BSTR, MT_TSTR} -> x.s = y.s
         [] x.t \in {MT_ARR, MT_MAP, MT_TAG} ->
               /\ (x.t = MT_TAG => x.a = y.a)
               /\ Len(x.kids) = Len(y.kids)
               /\ \A i \in 1..Len(x.kids) : SameValue(x.kids[i], y.kids[i])
         [] OTHER -> x.w = y.w /\ x.a = y.a
=============================================================================
