#!/usr/bin/env python3
"""setup_cmd: build the implementation (from /repo's working tree) and the drivers, offline.

Everything is cached under /verif/.build keyed by content hashes; each check rebuilds
what changed by itself, so this only warms the cache.
"""
import sys
from pathlib import Path

sys.path.insert(0, str(Path(__file__).resolve().parent))
import vlib  # noqa: E402

PLAN = [
    ("enc_driver", "plain", ()),
    ("enc_driver", "plain", ("CDNS_VERIF_ENC_BUFFER=12",)),
    ("dec_driver", "plain", ()),
    ("dec_driver", "plain", ("CDNS_VERIF_DEC_BUFFER=5",)),
    ("exp_driver", "plain", ()),
    ("tbl_driver", "asan", ()),
    ("ts_driver", "asan", ()),
    ("wr_driver", "plain", ()),
    ("thr_driver", "plain", ()),
    ("thr_driver", "tsan", ()),
    ("rd_driver", "asan", ()),
    ("dec_driver", "asan", ()),
]


def main():
    for name, flavor, defs in PLAN:
        if (vlib.HARNESS / f"{name}.cpp").exists():
            vlib.build_driver(name, flavor, defs)
    vlib.build_tools("plain")
    vlib.build_tools("asan")
    print("setup ok")
    return 0


if __name__ == "__main__":
    vlib.main_wrapper(main)
