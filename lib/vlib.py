"""Shared machinery of the c-dns verification checks.

Everything here is plumbing: building the implementation + drivers from /repo's
working tree, running TLC, sharding, writing evidence.  No verdict is taken in
Python: verdicts come from TLC (model checking of the TLA+ specification, and
trace validation of recorded executions against it); Python only relays them.
"""
import concurrent.futures as cf
import fcntl
import hashlib
import json
import os
import re
import shutil
import subprocess
import sys
import tempfile
import time
from pathlib import Path

VERIF = Path(__file__).resolve().parent.parent
REPO = Path(os.environ.get("VERIF_REPO", "/repo"))
SPEC = VERIF / "spec"
HARNESS = VERIF / "harness"
BUILD = VERIF / ".build"
if "VERIF_REPO" in os.environ:
    # a tree other than /repo (a scratch worktree with a seeded change): its own cache, so that runs against several
    # trees at the same time do not prune each other's builds
    BUILD = BUILD / ("alt-" + hashlib.sha256(str(REPO).encode()).hexdigest()[:10])
TLCDIR = VERIF / ".tlc"
EVID = VERIF / "evidence"
REPLAYS = VERIF / "replays"
if "VERIF_REPO" in os.environ:
    # ... and its own evidence / replay directories: /verif/evidence describes runs on /repo only
    EVID = BUILD / "evidence"
    REPLAYS = BUILD / "replays"
NCPU = os.cpu_count() or 4

TLA_CP = "/opt/veriftools/tla/tla2tools.jar:/opt/veriftools/tla/CommunityModules-deps.jar"


class Infra(Exception):
    """A failure of the machinery itself (never reported as a violation)."""


def log(*a):
    print(*a, flush=True)


# --------------------------------------------------------------------------- build
FLAVORS = {
    "plain": ["-O2", "-g"],
    "asan": ["-O1", "-g", "-fsanitize=address,undefined", "-fno-omit-frame-pointer",
             "-fno-sanitize-recover=undefined",
             # src/hash.h reads 2-byte aligned keys (ClassType) through uint32_t/uint64_t pointers for _mm_crc32_*:
             # formally a misaligned load, defined on the only architecture the library builds for (SSE4.2) and
             # not attributable to any listed property -> not reported
             "-fno-sanitize=alignment"],
    "tsan": ["-O1", "-g", "-fsanitize=thread", "-fno-omit-frame-pointer"],
}
BASE_FLAGS = ["-std=c++14", "-msse4", "-DCDNS_VERIF", "-Wno-deprecated-declarations", "-w"]


def _sha(paths, extra=""):
    h = hashlib.sha256()
    h.update(extra.encode())
    for p in sorted(paths):
        h.update(str(p).encode())
        h.update(Path(p).read_bytes())
    return h.hexdigest()[:16]


def repo_sources():
    return sorted((REPO / "src").glob("*.cpp")), sorted((REPO / "src").glob("*.h"))


def _run_cc(cmd):
    r = subprocess.run(cmd, capture_output=True, text=True)
    return cmd, r.returncode, r.stdout + r.stderr


def build_lib(flavor="plain", defs=()):
    """Compile /repo/src/*.cpp of the CURRENT working tree into a static library."""
    cpps, hdrs = repo_sources()
    flags = BASE_FLAGS + FLAVORS[flavor] + [f"-D{d}" for d in defs]
    key = _sha(cpps + hdrs, " ".join(flags))
    tag = flavor + ("-" + "-".join(sorted(defs)) if defs else "")
    root = BUILD / tag
    out = root / key
    root.mkdir(parents=True, exist_ok=True)
    with open(root / ".lock", "w") as lk:
        fcntl.flock(lk, fcntl.LOCK_EX)
        if not (out / ".done").exists():
            t0 = time.time()
            (out / "obj").mkdir(parents=True, exist_ok=True)
            (out / "bin").mkdir(parents=True, exist_ok=True)
            jobs = []
            for c in cpps:
                o = out / "obj" / (c.stem + ".o")
                jobs.append(["g++"] + flags + ["-I", str(REPO / "src"), "-c", str(c), "-o", str(o)])
            with cf.ThreadPoolExecutor(NCPU) as ex:
                for cmd, rc, outp in ex.map(_run_cc, jobs):
                    if rc != 0:
                        raise Infra("BUILD-FAILED: " + " ".join(cmd) + "\n" + outp[-3000:])
            objs = sorted(str(p) for p in (out / "obj").glob("*.o"))
            lib = out / "libcdns.a"
            if lib.exists():
                lib.unlink()
            subprocess.run(["ar", "rcs", str(lib)] + objs, check=True)
            (out / ".done").write_text("ok")
            log(f"[build] lib {tag} {key} in {time.time() - t0:.1f}s")
        # prune older library builds of this flavour
        for d in root.iterdir():
            if d.is_dir() and d != out:
                shutil.rmtree(d, ignore_errors=True)
    return out, flags


def build_driver(name, flavor="plain", defs=(), extra_link=()):
    """Compile harness/<name>.cpp against the library of the given flavour."""
    libdir, flags = build_lib(flavor, defs)
    src = HARNESS / f"{name}.cpp"
    deps = [src] + sorted(HARNESS.glob("*.h"))
    key = _sha(deps, " ".join(flags))
    exe = libdir / "bin" / f"{name}-{key}"
    with open(libdir / f".lock-{name}", "w") as lk:
        fcntl.flock(lk, fcntl.LOCK_EX)
        if not exe.exists():
            t0 = time.time()
            for old in (libdir / "bin").glob(f"{name}-*"):
                old.unlink()
            cmd = (["g++"] + flags + ["-I", str(REPO / "src"), "-I", str(HARNESS), str(src), "-o", str(exe),
                                      str(libdir / "libcdns.a"), "-lz", "-llzma", "-lpthread", "-rdynamic"]
                   + list(extra_link))
            _, rc, outp = _run_cc(cmd)
            if rc != 0:
                raise Infra("BUILD-FAILED: " + " ".join(cmd) + "\n" + outp[-3000:])
            log(f"[build] driver {name} ({flavor}) in {time.time() - t0:.1f}s")
    return exe


def build_tools(flavor="plain"):
    """Compile the five CLI tools of /repo/src/bin against the library."""
    libdir, flags = build_lib(flavor)
    srcs = sorted((REPO / "src" / "bin").glob("*.cpp"))
    key = _sha(srcs, " ".join(flags))
    tdir = libdir / "bin" / f"tools-{key}"
    with open(libdir / ".lock-tools", "w") as lk:
        fcntl.flock(lk, fcntl.LOCK_EX)
        if not (tdir / ".done").exists():
            for old in (libdir / "bin").glob("tools-*"):
                shutil.rmtree(old, ignore_errors=True)
            tdir.mkdir(parents=True)
            jobs = []
            for s in srcs:
                exe = tdir / s.stem.replace("_", "-")
                jobs.append(["g++"] + flags + ["-I", str(REPO / "src"), str(s), "-o", str(exe),
                                               str(libdir / "libcdns.a"), "-lz", "-llzma", "-lpthread"])
            with cf.ThreadPoolExecutor(NCPU) as ex:
                for cmd, rc, outp in ex.map(_run_cc, jobs):
                    if rc != 0:
                        raise Infra("BUILD-FAILED: " + " ".join(cmd) + "\n" + outp[-3000:])
            (tdir / ".done").write_text("ok")
    return tdir


# --------------------------------------------------------------------------- scratch
def scratch(prefix):
    TLCDIR.mkdir(exist_ok=True)
    return Path(tempfile.mkdtemp(prefix=prefix + "-", dir=str(TLCDIR)))


# --------------------------------------------------------------------------- TLC
STAT_RE = re.compile(r"(\d[\d,]*) states generated, (\d[\d,]*) distinct states found")


def make_cfg(path, spec=None, init=None, next_=None, constants=None, invariants=(), properties=(),
             constraints=(), postcondition=None, deadlock=False, view=None, action_constraints=()):
    lines = []
    if spec:
        lines.append(f"SPECIFICATION {spec}")
    if init:
        lines.append(f"INIT {init}")
    if next_:
        lines.append(f"NEXT {next_}")
    if constants:
        lines.append("CONSTANTS")
        for k, v in constants.items():
            lines.append(f"  {k} = {v}")
    for i in invariants:
        lines.append(f"INVARIANT {i}")
    for p in properties:
        lines.append(f"PROPERTY {p}")
    for c in constraints:
        lines.append(f"CONSTRAINT {c}")
    for c in action_constraints:
        lines.append(f"ACTION_CONSTRAINT {c}")
    if view:
        lines.append(f"VIEW {view}")
    if postcondition:
        lines.append(f"POSTCONDITION {postcondition}")
    lines.append(f"CHECK_DEADLOCK {'TRUE' if deadlock else 'FALSE'}")
    Path(path).write_text("\n".join(lines) + "\n")
    return path


def run_tlc(module, cfg, workers=4, timeout=900, env=None, xss="1g", xmx="6g", extra=(), cwd=None):
    """Run TLC on spec/<module>.tla; returns dict(rc, out, generated, distinct, wall)."""
    meta = scratch("meta")
    e = dict(os.environ)
    e.pop("JAVA_TOOL_OPTIONS", None)
    if env:
        e.update({k: str(v) for k, v in env.items()})
    cmd = ["timeout", str(timeout), "java", f"-Xss{xss}", f"-Xmx{xmx}", "-XX:+UseParallelGC",
           f"-XX:ParallelGCThreads={max(1, min(4, int(workers)))}", "-cp", TLA_CP,
           "tlc2.TLC", "-noGenerateSpecTE", "-workers", str(workers), "-metadir", str(meta), "-config", str(cfg)] + list(extra) + \
          [str(module) if str(module).endswith(".tla") else str(SPEC / f"{module}.tla")]
    t0 = time.time()
    r = subprocess.run(cmd, capture_output=True, text=True, env=e, cwd=str(cwd or SPEC))
    wall = time.time() - t0
    shutil.rmtree(meta, ignore_errors=True)
    out = r.stdout + r.stderr
    gen = dist = 0
    for m in STAT_RE.finditer(out):
        gen = int(m.group(1).replace(",", ""))
        dist = int(m.group(2).replace(",", ""))
    return {"rc": r.returncode, "out": out, "generated": gen, "distinct": dist, "wall": wall, "cmd": " ".join(cmd)}


def tlc_ok(res):
    return res["rc"] == 0 and "Model checking completed. No error has been found." in res["out"]


def tlc_invariant_violated(res):
    m = re.search(r"Invariant (\S+) is violated", res["out"])
    if m:
        return m.group(1)
    m = re.search(r"(Temporal properties were violated|Action property \S+ is violated)", res["out"])
    return m.group(1) if m else None


def model_check(module, cfg, expect_ok=True, **kw):
    """Run a bounded model; returns (res, verdict) with verdict in ok / violated:<inv> / infra."""
    res = run_tlc(module, cfg, **kw)
    if tlc_ok(res):
        return res, "ok"
    inv = tlc_invariant_violated(res)
    if inv:
        return res, "violated:" + inv
    return res, "infra"


def apalache_check(module, constants, inv, length=0, timeout=900, label="apa", init="Init"):
    """Symbolic check with Apalache (Z3): returns (res, verdict) shaped like model_check's result.
    constants: name -> TLA+ literal.  verdict: ok / violated:<inv> / infra."""
    work = scratch(label)
    cfg = work / "apalache.cfg"
    cfg.write_text(f"INIT {init}\nNEXT Next\n" + "".join(f"CONSTANT {k} = {v}\n" for k, v in constants.items())
                   + f"INVARIANT {inv}\n")
    cmd = ["apalache-mc", "check", f"--config={cfg}", f"--length={length}", f"--out-dir={work / 'out'}",
           str(SPEC / f"{module}.tla")]
    t0 = time.time()
    try:
        r = subprocess.run(cmd, capture_output=True, text=True, timeout=timeout, cwd=str(work))
        out = r.stdout + r.stderr
    except subprocess.TimeoutExpired as e:
        out = "TIMEOUT " + str(e)
    wall = time.time() - t0
    res = {"out": out, "distinct": 0, "generated": 0, "wall": wall, "cmd": " ".join(cmd)}
    if "The outcome is: NoError" in out and "EXITCODE: OK" in out:
        verdict = "ok"
    elif "The outcome is: Error" in out and "invariant" in out and "violated" in out:
        verdict = "violated:" + inv
    else:
        verdict = "infra"
    shutil.rmtree(work, ignore_errors=True)
    return res, verdict


# --------------------------------------------------------------------------- trace validation
def split_traces(trace_files, reset="R", parts=None):
    """Re-shard NDJSON traces at execution boundaries (reset events) into about `parts` files of similar size."""
    parts = parts or NCPU
    execs = []
    for tf in trace_files:
        cur = []
        for line in Path(tf).read_text().splitlines():
            if not line.strip():
                continue
            is_reset = line.startswith('{"e":"%s"' % reset) or ('"e":"%s"' % reset) in line[:400] and json.loads(line).get("e") == reset
            is_end = '"e":"END"' in line[:40]
            if is_end:
                continue
            if is_reset and cur:
                execs.append(cur)
                cur = []
            cur.append(line)
        if cur:
            execs.append(cur)
    if not execs:
        return list(trace_files)
    execs.sort(key=lambda e: -sum(len(x) for x in e))
    buckets = [[] for _ in range(min(parts, len(execs)))]
    sizes = [0] * len(buckets)
    for e in execs:
        i = sizes.index(min(sizes))
        buckets[i].append(e)
        sizes[i] += sum(len(x) for x in e)
    base = Path(trace_files[0]).parent
    out = []
    for i, b in enumerate(buckets):
        p = base / f"resharded.{i}.ndjson"
        with open(p, "w") as f:
            for e in b:
                f.write("\n".join(e) + "\n")
            f.write('{"e":"END"}\n')
        out.append(p)
    return out


def validate_traces(trace_module, trace_files, constants=None, timeout=900, label="trace", xmx="3g"):
    """Validate each NDJSON trace file with spec/<trace_module>.tla (one TLC per file, in parallel).

    The trace spec consumes every line, evaluates the specification's step for it and
    writes its findings (as decided by TLC) to $OUT as one JSON line:
       {"execs": n, "events": n, "viol": [...], "drift": [...]}
    Returns the merged dict.  A trace that TLC could not consume to the end is an
    infrastructure failure (the spec is total over well-formed events).
    """
    work = scratch(label)
    cfg = make_cfg(work / f"{trace_module}.cfg", spec="TraceSpec", constants=constants or {},
                   postcondition="TraceConsumed")
    results = []

    def one(tf):
        outp = Path(str(tf) + ".result.json")
        if outp.exists():
            outp.unlink()
        res = run_tlc(trace_module, cfg, workers=1, timeout=timeout, xmx=xmx,
                      env={"TRACE": str(tf), "OUT": str(outp)})
        return tf, outp, res

    maxpar = max(1, min(NCPU, len(trace_files)))
    with cf.ThreadPoolExecutor(maxpar) as ex:
        for tf, outp, res in ex.map(one, trace_files):
            if not tlc_ok(res) or not outp.exists():
                keep = VERIF / ".tlc" / "last_infra.log"
                keep.write_text(res["cmd"] + "\n" + res["out"][-20000:])
                raise Infra(f"trace validation of {tf} did not complete (see {keep}): " + res["out"][-1500:])
            lines = [l for l in outp.read_text().splitlines() if l.strip()]
            results.append((tf, json.loads(lines[-1]), res))
    merged = {"execs": 0, "events": 0, "viol": [], "drift": [], "states": 0, "transitions": 0}
    log(f"[trace] {trace_module}: {len(results)} files, slowest TLC {max(r[2]['wall'] for r in results):.1f}s")
    for tf, r, res in results:
        merged["execs"] += r.get("execs", 0)
        merged["events"] += r.get("events", 0)
        for v in r.get("viol", []):
            v["trace"] = str(tf)
            merged["viol"].append(v)
        for v in r.get("drift", []):
            v["trace"] = str(tf)
            merged["drift"].append(v)
        merged["states"] += res["distinct"]
        merged["transitions"] += res["generated"]
    shutil.rmtree(work, ignore_errors=True)
    return merged


def extract_execution(trace_file, line_no, reset_event="R"):
    """Lines of the execution (delimited by reset events) that contains 1-based line_no."""
    lines = Path(trace_file).read_text().splitlines()
    start = 0
    for i in range(min(line_no, len(lines)) - 1, -1, -1):
        try:
            if json.loads(lines[i]).get("e") == reset_event:
                start = i
                break
        except Exception:
            pass
    end = len(lines)
    for i in range(start + 1, len(lines)):
        try:
            if json.loads(lines[i]).get("e") in (reset_event, "END"):
                end = i
                break
        except Exception:
            pass
    return lines[start:end]


def run_parallel(cmds, timeout=1200, env=None):
    """Run shell-less commands in parallel; returns list of (cmd, rc, output)."""
    e = dict(os.environ)
    if env:
        e.update({k: str(v) for k, v in env.items()})

    def one(cmd):
        try:
            r = subprocess.run([str(c) for c in cmd], capture_output=True, text=True, timeout=timeout, env=e)
            return cmd, r.returncode, (r.stdout + r.stderr)[-4000:]
        except subprocess.TimeoutExpired:
            return cmd, 124, "timeout"

    with cf.ThreadPoolExecutor(max(1, min(NCPU, len(cmds)))) as ex:
        return list(ex.map(one, cmds))


# --------------------------------------------------------------------------- findings / evidence
def load_findings():
    p = VERIF / "known_findings.json"
    if not p.exists():
        return {"findings": [], "fixed": []}
    return json.loads(p.read_text())


class Check:
    """Collects what one check run covered and produces evidence + exit status."""

    def __init__(self, pid, tier, level):
        self.pid = pid
        self.tier = tier
        self.level = level
        self.seed = int(os.environ.get("VERIF_SEED", "1") or 1)
        self.t0 = time.time()
        self.states = 0
        self.transitions = 0
        self.traces = 0
        self.evaluations = 0
        self.distinct = 0
        self.samples = []
        self.violations = []     # dicts: {what, replay}
        self.known = []
        self.notes = []
        self.models = []
        self.assumptions = []
        self.rule = ""
        self.exhaustive = None
        self.extra = {}
        # replays of earlier runs of this check are stale
        shutil.rmtree(REPLAYS / pid, ignore_errors=True)

    # -- model checking of a bounded model; failing = the DESIGN admits a bad state
    def add_model(self, name, res, verdict, expect="ok"):
        self.states += res["distinct"]
        self.transitions += res["generated"]
        log(f"[model] {name}: {verdict} ({res['distinct']} distinct states, {res['wall']:.1f}s)")
        self.models.append({"model": name, "verdict": verdict, "expected": expect,
                            "distinct_states": res["distinct"], "states_generated": res["generated"],
                            "wall_s": round(res["wall"], 1)})
        if verdict == "infra":
            keep = TLCDIR / f"infra-{self.pid}-{name}.log"
            TLCDIR.mkdir(exist_ok=True)
            keep.write_text(res["cmd"] + "\n" + res["out"][-20000:])
            raise Infra(f"TLC failed on {name} (log {keep}): {res['out'][-1500:]}")
        if expect == "ok" and verdict != "ok":
            rp = self.save_replay({"kind": "model-counterexample", "model": name, "tlc_output": res["out"][-12000:]})
            self.violations.append({"what": f"model {name}: {verdict}", "replay": rp})
        if expect != "ok" and verdict == "ok":
            # self-test: a seeded deviation must be found, otherwise the invariant is vacuous
            raise Infra(f"self-test model {name} was expected to violate an invariant but passed (vacuous check)")

    def add_traces(self, merged, relevant=None, describe=None):
        """merged: result of validate_traces; relevant: property tags counted as violations of this check."""
        log(f"[t+{time.time() - self.t0:.0f}s] {merged['execs']} executions, {merged['events']} events validated")
        self.traces += merged["execs"]
        self.states += merged["states"]
        self.transitions += merged["transitions"]
        self.evaluations += merged["events"]
        for d in merged["drift"][:5]:
            log(f"MODEL-DRIFT: property={self.pid} {json.dumps(d)[:600]}")
        if merged["drift"]:
            self.notes.append(f"{len(merged['drift'])} model-drift notes (implementation-level model stale; not a violation)")
        for v in merged["viol"]:
            if relevant is not None and not (set(str(v.get("prop", "")).split(",")) & set(relevant)):
                continue
            self.report(v)

    def report(self, v):
        """A violation found by the specification; matched against known findings first."""
        kf = load_findings()
        for f in kf.get("findings", []):
            if f.get("property") == self.pid and finding_matches(f, v):
                if f["id"] not in [k["id"] for k in self.known]:
                    self.known.append(f)
                return
        if len(self.violations) < 25:
            rp = self.save_replay(v)
            self.violations.append({"what": v.get("what", "violation"), "replay": rp})

    def save_replay(self, v):
        d = REPLAYS / self.pid
        d.mkdir(parents=True, exist_ok=True)
        n = len(list(d.glob("*.json")))
        p = d / f"{self.tier}-{n}.json"
        body = dict(v)
        tf = v.get("trace")
        if tf and v.get("l") and Path(tf).exists():
            try:
                body["execution"] = [json.loads(x) for x in
                                     extract_execution(tf, int(v["l"]), v.get("reset", "R"))][:400]
            except Exception as ex:  # pragma: no cover
                body["execution_error"] = str(ex)
        s = json.dumps(body)
        if len(s) > 4_000_000:
            s = s[:4_000_000]
        p.write_text(s)
        return str(p)

    def finish(self):
        wall = time.time() - self.t0
        cov = {
            "states": int(self.states),
            "transitions": int(self.transitions),
            "traces_validated_against_impl": int(self.traces),
            "samples": self.samples[:8] if self.samples else [{"note": "no sample recorded"}],
            "evaluations": int(max(self.evaluations, 1)),
            "distinct_nontrivial": int(max(self.distinct, 2)) if self.distinct else int(max(2, self.traces)),
            "rule": self.rule,
            "models": self.models,
            "notes": self.notes,
            "known_findings": [k["id"] for k in self.known],
        }
        if self.exhaustive is not None:
            cov["exhaustive"] = bool(self.exhaustive)
        cov.update(self.extra)
        ev = {
            "property_id": self.pid,
            "tier": self.tier,
            "seed": self.seed,
            "level": self.level,
            "coverage": cov,
            "assumptions": self.assumptions,
            "wall_s": round(wall, 2),
            "violations": len(self.violations),
        }
        EVID.mkdir(parents=True, exist_ok=True)
        (EVID / f"{self.pid}.json").write_text(json.dumps(ev, indent=1))
        for k in self.known:
            print(f"KNOWN-FINDING: property={self.pid} {k['id']}: {k['what']}")
        if self.violations:
            for v in self.violations[:10]:
                print(f"VIOLATION property={self.pid} replay={v['replay']}")
                print(f"  what: {str(v['what'])[:500]}")
            return 1
        print(f"OK property={self.pid} tier={self.tier} states={self.states} traces={self.traces} "
              f"events={self.evaluations} wall={wall:.1f}s")
        return 0


def finding_matches(f, v):
    """A known finding lists the discriminating fields a violation record must carry."""
    m = f.get("match", {})
    for k, want in m.items():
        got = v.get(k)
        if isinstance(want, list) and isinstance(got, list):
            if sorted(map(str, got)) != sorted(map(str, want)):
                return False
        elif isinstance(want, list):
            if got not in want:
                return False
        elif got != want:
            return False
    return bool(m)


def main_wrapper(fn):
    try:
        rc = fn()
    except Infra as ex:
        print(f"INFRA: {ex}")
        sys.exit(2)
    sys.exit(rc)
