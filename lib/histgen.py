"""Random API histories for the exporter driver (values only; every expectation about
them is computed by the TLA+ specification, never here).

Numbers are Nat256 lists (big-endian bytes, no leading zeros); see harness/records.h.
"""
import random

QR_BITS = 18
SIG_BITS = 17
ALL_QRH = (1 << QR_BITS) - 1
ALL_SIGH = (1 << SIG_BITS) - 1


def nat(v):
    out = []
    while v > 0:
        out.append(v & 0xFF)
        v >>= 8
    return out[::-1]


def snum(v):
    return {"neg": False, "a": nat(v)} if v >= 0 else {"neg": True, "a": nat(-1 - v)}


def bounded(rng, bits):
    """Boundary-heavy unsigned value of at most `bits` bits."""
    top = (1 << bits) - 1
    cands = [0, 1, 23, 24, 255, 256, 65535, 65536, (1 << 32) - 1, 1 << 32, (1 << 63) - 1, 1 << 63, top, top - 1]
    cands = [c for c in cands if c <= top]
    if rng.random() < 0.5:
        return rng.choice(cands)
    b = rng.randint(1, bits)
    return rng.getrandbits(b)


def sbounded(rng):
    cands = [0, 1, -1, 23, -24, -25, 255, -256, -257, 65535, -65536, -65537, (1 << 31) - 1, -(1 << 31), (1 << 32),
             -(1 << 32) - 1, (1 << 63) - 1, -(1 << 63)]
    if rng.random() < 0.5:
        return rng.choice(cands)
    v = rng.getrandbits(rng.randint(1, 63))
    return v if rng.random() < 0.5 else -1 - v


class Pools:
    """Small pools so that table values repeat, plus fresh values so that they differ."""

    def __init__(self, rng):
        self.rng = rng
        self.ips = [[8, 8, 8, 8], [10, 0, 0, 1], [0x20, 0x01, 0x0d, 0xb8] + [0] * 11 + [1], [127, 0, 0, 1], []]
        self.names = [[3, 119, 119, 119, 7, 101, 120, 97, 109, 112, 108, 101, 3, 99, 111, 109, 0],
                      [0], [2, 99, 122, 0], [5, 108, 111, 99, 97, 108, 0]]
        self.rdatas = [[1, 2, 3, 4], [], [255] * 3, [0, 0, 41, 16, 0]]

    def bytes_(self, maxlen=40):
        r = self.rng
        n = r.choice([0, 1, 2, 5, 16, 23, 24, 31, maxlen])
        return [r.getrandbits(8) for _ in range(n)]

    def ip(self):
        r = self.rng
        return list(r.choice(self.ips)) if r.random() < 0.8 else [r.getrandbits(8) for _ in range(r.choice([4, 16, 3, 0, 17]))]

    def name(self):
        r = self.rng
        return list(r.choice(self.names)) if r.random() < 0.8 else self.bytes_(300 if r.random() < 0.1 else 40)

    def rdata(self):
        r = self.rng
        return list(r.choice(self.rdatas)) if r.random() < 0.7 else self.bytes_(70)

    def ct(self):
        r = self.rng
        if r.random() < 0.7:
            return {"type": nat(r.choice([1, 28, 255, 256, 65535, 0])), "class": nat(r.choice([1, 3, 255, 0, 65535]))}
        return {"type": nat(r.getrandbits(16)), "class": nat(r.getrandbits(16))}

    def text(self):
        r = self.rng
        # valid UTF-8 throughout: ASCII, empty, a two-byte character in the middle, and texts that END in a 2-, 3- and 4-byte character
        return r.choice([[65, 83, 49, 50, 51], [], [67, 90], [0xC4, 0x8C, 0x52], [120] * 30,
                         [0x4C, 0xC3, 0xAD], [0xE2, 0x82, 0xAC], [65, 0xF0, 0x9F, 0x98, 0x80], [0xC5, 0x88]])


def gen_ts(rng, tps, base=None):
    """Normalised timestamp with secs*tps+ticks < 2^63.  tps may be (lo, hi): the block the record ends up
    in uses one of several parameter sets, so ticks < lowest rate and secs fits the highest rate."""
    if isinstance(tps, tuple):
        tps, tps_hi = tps
    else:
        tps_hi = tps
    lim = ((1 << 63) - 1) // tps_hi
    if base is None:
        secs = rng.choice([0, 1, 1500000000, (1 << 31) - 1, 1 << 31, (1 << 32) - 1, 1 << 32, min(lim - 1, 9223372036)])
        secs = min(secs, lim - 1)
    else:
        secs = max(0, min(lim - 1, base + rng.choice([-2, -1, 0, 0, 1, 2, 3600])))
    ticks = rng.choice([0, 0, tps - 1, tps // 2, rng.randrange(tps)])
    return secs, ticks


def gen_rr(rng, pools, question=False):
    r = {"name": pools.name(), "ct": pools.ct()}
    if not question:
        if rng.random() < 0.7:
            r["ttl"] = nat(bounded(rng, 32))
        if rng.random() < 0.7:
            r["rdata"] = pools.rdata()
    return r


def gen_rrlist(rng, pools, question=False, allow_empty=True):
    n = rng.choice([0, 1, 1, 2, 3]) if allow_empty else rng.choice([1, 1, 2, 3])
    return [gen_rr(rng, pools, question) for _ in range(n)]


QR_FIELDS = ["ts", "client_ip", "client_port", "transaction_id", "server_ip", "server_port", "qr_transport_flags",
             "qr_type", "qr_sig_flags", "query_opcode", "qr_dns_flags", "query_rcode", "query_classtype",
             "query_qdcount", "query_ancount", "query_nscount", "query_arcount", "query_edns_version",
             "query_udp_size", "query_opt_rdata", "response_rcode", "client_hoplimit", "response_delay", "query_name",
             "query_size", "response_size", "bailiwick", "processing_flags", "query_questions", "query_answers",
             "query_authority", "query_additional", "response_questions", "response_answers", "response_authority",
             "response_additional", "asn", "country_code", "round_trip_time"]


def gen_qr_field(rng, pools, f, tps, base_secs):
    if f == "ts":
        s, t = gen_ts(rng, tps, base_secs)
        return {"s": nat(s), "t": nat(t)}
    if f in ("client_ip", "server_ip"):
        return pools.ip()
    if f in ("client_port", "transaction_id", "server_port", "query_rcode", "query_qdcount", "query_ancount",
             "query_nscount", "query_arcount", "query_udp_size", "response_rcode"):
        return nat(bounded(rng, 16))
    if f == "qr_dns_flags":
        return nat(bounded(rng, 15))
    if f in ("qr_transport_flags", "qr_sig_flags", "query_opcode", "query_edns_version", "client_hoplimit"):
        return nat(bounded(rng, 8))
    if f == "processing_flags":
        return nat(rng.choice([0, 1, 255]))
    if f == "qr_type":
        return nat(rng.choice([0, 1, 2, 3, 4, 5]))
    if f == "query_classtype":
        return pools.ct()
    if f in ("query_opt_rdata",):
        return pools.rdata()
    if f in ("query_name", "bailiwick"):
        return pools.name()
    if f in ("query_size", "response_size"):
        return nat(bounded(rng, 64))
    if f in ("response_delay", "round_trip_time"):
        return snum(sbounded(rng))
    if f in ("query_questions", "response_questions"):
        return gen_rrlist(rng, pools, question=True)
    if f.endswith(("_answers", "_authority", "_additional")):
        return gen_rrlist(rng, pools)
    if f in ("asn", "country_code"):
        return pools.text()
    raise KeyError(f)


def gen_qr(rng, pools, tps, base_secs, mode=None):
    mode = mode or rng.choice(["full", "sparse", "sparse", "one", "empty", "dense"])
    if mode == "full":
        fields = list(QR_FIELDS)
    elif mode == "empty":
        fields = []
    elif mode == "one":
        fields = [rng.choice(QR_FIELDS)]
    elif mode == "dense":
        fields = [f for f in QR_FIELDS if rng.random() < 0.8]
    else:
        fields = [f for f in QR_FIELDS if rng.random() < 0.25]
    rec = {}
    for f in fields:
        rec[f] = gen_qr_field(rng, pools, f, tps, base_secs)
    return rec


def gen_aec(rng, pools):
    # a small pool of keys so that the same event is buffered repeatedly within a block (aggregation), plus fresh ones
    if rng.random() < 0.7:
        # neighbouring keys differ in exactly one optional member, absent versus present with value 0 included
        k = rng.randrange(8)
        a = {"ae_type": nat(0 if k < 6 else 1), "ip_address": list(pools.ips[0 if k != 7 else 1])}
        if k in (1, 4):
            a["ae_code"] = nat(0)
        if k == 2:
            a["ae_code"] = nat(3)
        if k in (3, 4):
            a["ae_transport_flags"] = nat(0)
        if k == 5:
            a["ae_transport_flags"] = nat(1)
    else:
        a = {"ae_type": nat(rng.choice([0, 1, 2, 3, 4, 5])), "ip_address": list(rng.choice(pools.ips[:3]))}
        if rng.random() < 0.5:
            a["ae_code"] = nat(rng.choice([0, 3, 255]))
        if rng.random() < 0.5:
            a["ae_transport_flags"] = nat(rng.choice([0, 1, 2, 31]))
    if rng.random() < 0.4:
        a["ae_count_in"] = nat(rng.choice([0, 1, 7, 1 << 40]))     # left-over count of a record that was read earlier
    return a


def gen_mm(rng, pools, tps, base_secs, mode=None):
    mode = mode or rng.choice(["full", "sparse", "one"])
    names = ["ts", "client_ip", "client_port", "server_ip", "server_port", "mm_transport_flags", "mm_payload"]
    if mode == "full":
        fields = names
    elif mode == "one":
        fields = [rng.choice(names)]
    else:
        fields = [f for f in names if rng.random() < 0.4]
    m = {}
    for f in fields:
        if f == "ts":
            s, t = gen_ts(rng, tps, base_secs)
            m[f] = {"s": nat(s), "t": nat(t)}
        elif f in ("client_ip", "server_ip"):
            m[f] = pools.ip()
        elif f in ("client_port", "server_port"):
            m[f] = nat(bounded(rng, 16))
        elif f == "mm_transport_flags":
            m[f] = nat(bounded(rng, 8))
        else:
            m[f] = rng.choice([[1, 2, 3], [], [0] * 40, pools.bytes_(200)])
    return m


def gen_stats(rng, allow_empty=True):
    names = ["processed_messages", "qr_data_items", "unmatched_queries", "unmatched_responses", "discarded_opcode",
             "malformed_items"]
    mode = rng.choice(["full", "some", "empty"] if allow_empty else ["full", "some"])
    fields = names if mode == "full" else [] if mode == "empty" else [f for f in names if rng.random() < 0.5]
    if mode == "some" and not fields and not allow_empty:
        fields = [rng.choice(names)]
    return {f: nat(bounded(rng, 32)) for f in fields}


def gen_coll(rng, pools, mode=None):
    mode = mode or rng.choice(["full", "some", "empty"])
    names = ["query_timeout", "skew_timeout", "snaplen", "promisc", "interfaces", "server_address", "vlan_ids", "filter",
             "generator_id", "host_id"]
    fields = names if mode == "full" else [] if mode == "empty" else [f for f in names if rng.random() < 0.5]
    c = {}
    for f in fields:
        if f in ("query_timeout", "skew_timeout", "snaplen"):
            c[f] = nat(bounded(rng, 64))
        elif f == "promisc":
            c[f] = rng.random() < 0.5
        elif f == "interfaces":
            c[f] = [pools.text() for _ in range(rng.choice([0, 1, 2]))]
        elif f == "server_address":
            c[f] = [pools.ip() for _ in range(rng.choice([0, 1, 3]))]
        elif f == "vlan_ids":
            c[f] = [nat(bounded(rng, 16)) for _ in range(rng.choice([0, 1, 4]))]
        else:
            c[f] = pools.text()
    return c


def gen_bp(rng, pools, tps=None, maxitems=None, hints=None, rich=False, coll=None):
    tps = tps or rng.choice([1, 1, 1000, 1000000, 1000000000, 7, 10])
    if maxitems is None:
        maxitems = rng.choice([0, 1, 2, 3, 5, 10000])
    if hints is None:
        hints = gen_hints(rng)
    bp = {"tps": nat(tps), "max": nat(maxitems), "qrh": nat(hints[0]), "sigh": nat(hints[1]), "rrh": nat(hints[2]),
          "odh": nat(hints[3]),
          "opcodes": [nat(x) for x in ([0, 1, 2, 4, 5, 6] if not rich else rng.choice([[], [0], [0, 1, 2, 4, 5, 6], [7, 15, 255]]))],
          "rr_types": [nat(x) for x in ([1, 2, 28] if not rich else rng.choice([[], [1], [1, 2, 5, 65535, 256], [0]]))]}
    if rich:
        for f in ["storage_flags", "client_address_prefix_ipv4", "client_address_prefix_ipv6", "server_address_prefix_ipv4",
                  "server_address_prefix_ipv6"]:
            if rng.random() < 0.5:
                bp[f] = nat(bounded(rng, 8) if f != "storage_flags" else rng.choice([0, 1, 7, 255]))
        for f in ["sampling_method", "anonymization_method"]:
            if rng.random() < 0.5:
                bp[f] = pools.text()
        if coll is None and rng.random() < 0.7:
            coll = gen_coll(rng, pools)
    if coll is not None:
        bp["coll"] = coll
    return bp


def histgen_text1(pools):
    """a non-empty text in the representation the pools use"""
    for _ in range(50):
        t = pools.text()
        if len(t) > 0:
            return t[:1]
    raise RuntimeError("no non-empty text")


def bp_neighbours(rng, pools, bp):
    """Parameter sets that differ from `bp` in exactly ONE member (another value, or present / absent): two files whose
    sets are such neighbours hold different parameters, however similar - whatever compares or shares parameter sets
    must see every member."""
    import copy
    out = []

    def other(v, bits):
        w = nat(bounded(rng, bits))
        return w if w != v else nat((1 << (bits - 1)) - 3)

    for f, bits in (("qrh", 18), ("sigh", 17), ("rrh", 2), ("odh", 2)):
        n = copy.deepcopy(bp)
        v = 0
        for b in bp[f]:
            v = (v << 8) | b
        n[f] = nat(v ^ (1 << rng.randrange(bits)))
        out.append((f, n))
    n = copy.deepcopy(bp); n["max"] = other(bp["max"], 16) or nat(5); out.append(("max", n))
    for f in ("opcodes", "rr_types"):
        n = copy.deepcopy(bp); n[f] = bp[f][:-1] if bp[f] else [nat(3)]; out.append((f + "-shorter", n))
        n = copy.deepcopy(bp); n[f] = bp[f] + [nat(200)]; out.append((f + "-longer", n))
        if len(bp[f]) >= 2:
            n = copy.deepcopy(bp); n[f] = [bp[f][1], bp[f][0]] + bp[f][2:]; out.append((f + "-order", n))
    for f in ("storage_flags", "client_address_prefix_ipv4", "client_address_prefix_ipv6", "server_address_prefix_ipv4",
              "server_address_prefix_ipv6"):
        n = copy.deepcopy(bp)
        if f in bp:
            n[f] = other(bp[f], 8); out.append((f, n))
            n = copy.deepcopy(bp); del n[f]; out.append((f + "-absent", n))
        else:
            n[f] = nat(rng.choice([0, 24, 64])); out.append((f + "-present", n))
    for f in ("sampling_method", "anonymization_method"):
        n = copy.deepcopy(bp)
        if f in bp:
            n[f] = bp[f] + bp[f] + histgen_text1(pools); out.append((f, n))
            n = copy.deepcopy(bp); del n[f]; out.append((f + "-absent", n))
        else:
            n[f] = pools.text()[:0]; out.append((f + "-present-empty", n))
    if "coll" in bp:
        n = copy.deepcopy(bp); del n["coll"]; out.append(("coll-absent", n))
        for f in ["query_timeout", "skew_timeout", "snaplen", "promisc", "interfaces", "server_address", "vlan_ids", "filter",
                  "generator_id", "host_id"]:
            n = copy.deepcopy(bp)
            c = n["coll"]
            if f not in c:
                c[f] = (nat(7) if f in ("query_timeout", "skew_timeout", "snaplen") else True if f == "promisc"
                        else [] if f in ("interfaces", "server_address", "vlan_ids") else pools.text()[:0])
                out.append(("coll." + f + "-present", n))
                continue
            if f in ("query_timeout", "skew_timeout", "snaplen"):
                c[f] = other(c[f], 32)
            elif f == "promisc":
                c[f] = not c[f]
            elif f == "interfaces":
                c[f] = c[f] + [pools.text()]
            elif f == "server_address":
                c[f] = c[f] + [pools.ip()]
            elif f == "vlan_ids":
                c[f] = c[f] + [nat(9)]
            else:
                c[f] = c[f] + histgen_text1(pools)
            out.append(("coll." + f, n))
            n = copy.deepcopy(bp); del n["coll"][f]; out.append(("coll." + f + "-absent", n))
    else:
        n = copy.deepcopy(bp); n["coll"] = {}; out.append(("coll-present-empty", n))
    return out


def gen_hints(rng, mode=None):
    mode = mode or rng.choice(["all", "all", "all", "random", "dropone", "onlyone", "none", "sections"])
    qrh, sigh, rrh, odh = ALL_QRH, ALL_SIGH, 3, 3
    if mode == "random":
        qrh, sigh, rrh, odh = rng.getrandbits(18), rng.getrandbits(17), rng.getrandbits(2), rng.getrandbits(2)
    elif mode == "dropone":
        k = rng.randrange(4)
        if k == 0:
            qrh &= ~(1 << rng.randrange(18))
        elif k == 1:
            sigh &= ~(1 << rng.randrange(17))
        elif k == 2:
            rrh &= ~(1 << rng.randrange(2))
        else:
            odh &= ~(1 << rng.randrange(2))
    elif mode == "onlyone":
        k = rng.randrange(3)
        if k == 0:
            qrh, sigh = 1 << rng.randrange(18), ALL_SIGH
        elif k == 1:
            qrh, sigh = 1 << 4, 1 << rng.randrange(17)
        else:
            qrh, sigh, rrh = 0x3F800, 0, 1 << rng.randrange(2)
    elif mode == "none":
        qrh, sigh, rrh, odh = 0, 0, 0, 0
    elif mode == "sections":
        qrh = (ALL_QRH & ~0x3F800) | (rng.getrandbits(7) << 11)
    elif mode == "wide":
        # the whole declared width of each hint, unassigned bits included
        w32 = lambda: rng.choice([0xFFFFFFFF, 0x80000000, 0x7FFFFFFF, rng.getrandbits(32), rng.getrandbits(32) | 0x80000000,
                                  1 << rng.randrange(32)])
        w8 = lambda: rng.choice([0xFF, 0x80, 0x7F, rng.getrandbits(8), 1 << rng.randrange(8)])
        qrh, sigh, rrh, odh = w32(), w32(), w8(), w8()
    return qrh, sigh, rrh, odh


def tps_of(bp):
    v = 0
    for b in bp["tps"]:
        v = (v << 8) | b
    return v


def gen_history(rng, nops=30, comp=None, out=None, nbps=None, rich=False, rot=True, stats_p=0.3, sizes=None,
                hints_mode=None, qr_mode=None, allow_edit=True):
    pools = Pools(rng)
    nbps = nbps or rng.choice([1, 1, 2, 3])
    bps = [gen_bp(rng, pools, rich=rich, maxitems=(rng.choice(sizes) if sizes else None),
                  hints=(gen_hints(rng, hints_mode) if hints_mode else None)) for _ in range(nbps)]
    pre = {"major": nat(rng.choice([1, 1, 1, 0, 255])) if rich else nat(1), "minor": nat(rng.choice([0, 0, 1, 255])) if rich else nat(0),
           "bps": list(bps)}
    pv = rng.choice([None, 0, 1, 2, 255]) if rich else 1
    if pv is not None:
        pre["private"] = nat(pv)
    h = {"comp": comp or rng.choice(["none", "none", "none", "gz", "xz"]), "out": out or rng.choice(["file", "file", "fd"]),
         "preamble": pre, "ops": []}
    header_n = len(bps)      # sets known to the header of the current output (exact once a block was written)
    total_n = len(bps)
    blocks_written = False
    buffered = False         # the buffered block may hold records
    active = 0
    base = rng.choice([0, 0, 1500000000, 1 << 32])     # 0: instants at and right after the epoch
    for _ in range(nops):
        tps = (min(tps_of(b) for b in bps), max(tps_of(b) for b in bps))
        x = rng.random()
        op = None
        if x < 0.55:
            op = {"op": "qr", "r": gen_qr(rng, pools, tps, base, qr_mode)}
        elif x < 0.67:
            op = {"op": "aec", "r": gen_aec(rng, pools)}
        elif x < 0.79:
            op = {"op": "mm", "r": gen_mm(rng, pools, tps, base)}
        elif x < 0.85:
            op = {"op": "wb"}
            blocks_written = True
            buffered = False
        elif x < 0.90 and rot:
            op = {"op": "rot", "export": rng.random() < 0.5}
            if rng.random() < 0.12:
                op["same"] = True        # (named outputs) onto the name in use
            elif rng.random() < 0.12:
                op["ext"] = True         # (named, compressed outputs) onto the name in use + the compression extension
            blocks_written = False
            if op["export"]:
                buffered = False
            header_n = total_n
        elif x < 0.94 and total_n < 6:
            nb = gen_bp(rng, pools, rich=rich, maxitems=(rng.choice(sizes) if sizes else None))
            bps.append(nb)
            op = {"op": "addbp", "bp": nb}
            total_n += 1
            if not blocks_written:
                header_n = total_n
        elif x < 0.955 and not blocks_written and not buffered and allow_edit:
            # the active set is replaced in place (get_active_block_parameters_ref) while the output has no header yet;
            # as documented for switching sets, write_block() right after makes the buffered (empty) block pick it up
            nb = gen_bp(rng, pools, rich=rich, maxitems=(rng.choice(sizes) if sizes else None))
            bps[active] = nb
            h["ops"].append({"op": "wb"})
            h["ops"].append({"op": "editbp", "bp": nb})
            op = {"op": "wb"}
        elif x < 0.98:
            # documented precondition: a set added after the header was written is used only after rotation
            i = rng.randrange(0, header_n + 1)
            if i >= header_n:
                i = rng.choice([header_n + 5, 255])          # out of range: must be refused
                op = {"op": "setbp", "i": i}
            else:
                op = {"op": "setbp", "i": i}
                active = i
        else:
            op = {"op": "counts"}
        if op["op"] in ("qr", "aec", "mm"):
            buffered = True
            blocks_written = True   # conservatively: a buffer call may flush
            if rng.random() < stats_p:
                op["stats"] = gen_stats(rng)
        h["ops"].append(op)
    if rng.random() < 0.2:
        h["unwind"] = True      # the exporter is destroyed by stack unwinding (an unrelated exception is in flight)
    return h


def respect_header(h):
    """Re-establishes the documented caller duty after operations were inserted into a history: a parameter set added
    while the output may already hold blocks is activated only after the next rotation.  Every call that may write a
    block fixes the header (conservatively); a setbp to a set that is then missing from it is dropped."""
    total = len(h["preamble"]["bps"])
    header = None                     # number of sets in the header of the current output, None = not written yet
    ops = []
    for o in h["ops"]:
        k = o["op"]
        if k in ("qr", "aec", "mm", "wb", "wbx", "xwb"):
            if header is None:
                header = total
        elif k == "rot":
            header = None             # the next output gets its header with its first block
        elif k == "addbp":
            total += 1
        elif k == "setbp":
            if header is not None and header <= o["i"] < total:
                continue
        ops.append(o)
    h["ops"] = ops
    return h


# ------------------------------------------------------------------ blocks built directly with the raw add_* API
def _uniq(seq):
    out = []
    for x in seq:
        if x not in out:
            out.append(x)
    return out


def gen_raw_block(rng, pools, bpi, bp):
    """A 'wbx' operation: tables with distinct entries (so index = position) and items whose indices address them."""
    tps = tps_of(bp)
    odh = 0
    for b in bp["odh"]:
        odh = (odh << 8) | b
    ips = _uniq([pools.ip() for _ in range(rng.choice([1, 2, 3]))])
    names = _uniq([pools.name() for _ in range(rng.choice([1, 2, 4]))])
    cts = _uniq([pools.ct() for _ in range(rng.choice([1, 2]))])

    def idx(n):
        return nat(rng.randrange(n))
    qrr = _uniq([{"name_index": idx(len(names)), "classtype_index": idx(len(cts))} for _ in range(rng.choice([0, 1, 2]))])
    rr = []
    for _ in range(rng.choice([0, 1, 3])):
        r = {"name_index": idx(len(names)), "classtype_index": idx(len(cts))}
        if rng.random() < 0.5:
            r["ttl"] = nat(bounded(rng, 32))
        if rng.random() < 0.5:
            r["rdata_index"] = idx(len(names))
        rr.append(r)
    rr = _uniq(rr)
    qlist = _uniq([[idx(len(qrr)) for _ in range(rng.choice([0, 1, 2]))] if qrr else [] for _ in range(rng.choice([0, 1, 2]))])
    rrlist = _uniq([[idx(len(rr)) for _ in range(rng.choice([0, 1, 3]))] if rr else [] for _ in range(rng.choice([0, 1, 2]))])
    sigs = []
    for _ in range(rng.choice([0, 1, 2])):
        s = {}
        if rng.random() < 0.8:       # else: present but empty
            if rng.random() < 0.6:
                s["server_address_index"] = idx(len(ips))
            if rng.random() < 0.6:
                s["server_port"] = nat(bounded(rng, 16))
            if rng.random() < 0.4:
                s["query_classtype_index"] = idx(len(cts))
            if rng.random() < 0.4:
                s["query_opt_rdata_index"] = idx(len(names))
            if rng.random() < 0.4:
                s["qr_type"] = nat(rng.randrange(6))
            if rng.random() < 0.3:
                s["query_ancount"] = nat(bounded(rng, 32))
        sigs.append(s)
    sigs = _uniq(sigs)
    mmds = []
    for _ in range(rng.choice([0, 1, 2])):
        m = {}
        if rng.random() < 0.8:
            if rng.random() < 0.5:
                m["server_address_index"] = idx(len(ips))
            if rng.random() < 0.5:
                m["server_port"] = nat(bounded(rng, 16))
            if rng.random() < 0.5:
                m["mm_payload"] = rng.choice([[1, 2, 3], [], [0] * 30])
        mmds.append(m)
    mmds = _uniq(mmds)
    tables = {"ip": ips, "name": names, "ct": cts}
    for k, v in (("qrr", qrr), ("rr", rr), ("qlist", qlist), ("rrlist", rrlist), ("sig", sigs), ("mmd", mmds)):
        if v:
            tables[k] = v
    lim = ((1 << 63) - 1) // tps

    def ts():
        return {"s": nat(rng.choice([0, 5, 1500000000 % lim])), "t": nat(rng.randrange(tps))}
    qrs = []
    for _ in range(rng.choice([0, 1, 2, 3])):
        q = {"client_port": nat(bounded(rng, 16))}
        if rng.random() < 0.5:
            q["time_offset"] = ts()
        if rng.random() < 0.5:
            q["client_address_index"] = idx(len(ips))
        if sigs and rng.random() < 0.6:
            q["qr_signature_index"] = idx(len(sigs))
        if rng.random() < 0.4:
            q["query_name_index"] = idx(len(names))
        if rng.random() < 0.4:
            q["response_delay"] = snum(sbounded(rng))
        if rng.random() < 0.3:
            q["rpd"] = {} if rng.random() < 0.4 else {"bailiwick_index": idx(len(names))}
        for f in ("qe", "re"):
            if rng.random() < 0.4:
                e = {}
                if qlist and rng.random() < 0.6:
                    e["question_index"] = idx(len(qlist))
                if rrlist and rng.random() < 0.6:
                    e[rng.choice(["answer_index", "authority_index", "additional_index"])] = idx(len(rrlist))
                q[f] = e          # possibly present but empty
        if rng.random() < 0.2:
            q["asn"] = pools.text()
        qrs.append(q)
    aecs = []
    if odh & 2:
        for _ in range(rng.choice([0, 1, 2])):
            a = {"ae_type": nat(rng.randrange(6)), "ae_address_index": idx(len(ips))}
            if rng.random() < 0.5:
                a["ae_code"] = nat(rng.choice([0, 3]))
            aecs.append(a)
        aecs = _uniq(aecs)
    mms = []
    for _ in range(rng.choice([0, 0, 1, 2])):
        m = {"client_port": nat(bounded(rng, 16))}
        if rng.random() < 0.5:
            m["time_offset"] = ts()
        if mmds and rng.random() < 0.6:
            m["message_data_index"] = idx(len(mmds))
        if rng.random() < 0.4:
            m["client_address_index"] = idx(len(ips))
        mms.append(m)
    op = {"op": "wbx", "bpi": bpi, "bp": bp, "tables": tables, "qrs": qrs, "aecs": aecs, "mms": mms}
    if rng.random() < 0.4:
        op["stats"] = gen_stats(rng)
    return op


def add_external_block_ops(rng, h, p=0.35):
    """Interleaves operations on a block the application keeps itself (generic CdnsBlock API + write_block(block)).
    Documented caller duty kept: the block is armed only with parameter sets of the initial preamble (they are in every
    header) and histories with in-place edits of sets are not combined with it."""
    if any(o["op"] == "editbp" for o in h["ops"]):
        return h
    pools = Pools(rng)
    n0 = len(h["preamble"]["bps"])
    bps = h["preamble"]["bps"]
    tps = (min(tps_of(b) for b in bps), max(tps_of(b) for b in bps))
    ops = []
    for o in h["ops"]:
        ops.append(o)
        if o["op"] == "addbp":
            bps = bps + [o["bp"]]
            tps = (min(tps_of(b) for b in bps), max(tps_of(b) for b in bps))
        if rng.random() < p:
            x = rng.random()
            if x < 0.45:
                ops.append({"op": "xqr", "r": gen_qr(rng, pools, tps, 1500000000)})
            elif x < 0.55:
                ops.append({"op": "xaec", "r": gen_aec(rng, pools)})
            elif x < 0.65:
                ops.append({"op": "xmm", "r": gen_mm(rng, pools, tps, 1500000000)})
            elif x < 0.80:
                ops.append({"op": "xwb"})
                if rng.random() < 0.7:
                    ops.append({"op": "xclear"})
            elif x < 0.88:
                ops.append({"op": "xset", "i": rng.randrange(n0)})
            elif x < 0.94:
                ops.append({"op": "xnew", "i": rng.randrange(n0)})
            else:
                ops.append({"op": "xclear"})
            if ops[-1]["op"] in ("xqr", "xaec", "xmm") and rng.random() < 0.3:
                ops[-1]["stats"] = gen_stats(rng)
            if rng.random() < 0.15:
                # the kept block is moved / copied to another object, which takes its place
                ops.append({"op": "xmove", "how": rng.choice(["mctor", "cctor", "massign", "cassign", "vector"])}
                           if rng.random() < 0.6 else {"op": "xreload"})
    h["ops"] = ops
    return respect_header(h)


def aec_flush_family(rng):
    """Address events around a flush: the last event before a flush and the first one after it come from the SAME address, then
    another address follows (and the first one again) - for an explicit write_block(), for the automatic flush at 1, 2 and 3 items
    and across a rotation, with the repeated address first, second or alone in the earlier block's table.  What a block aggregates
    under a key and what its tables hold must not depend on what the previous block held."""
    hs = []
    ips = [[8, 8, 8, 8], [10, 0, 0, 1], [0x20, 0x01, 0x0d, 0xb8] + [0] * 11 + [1]]
    for (x, y) in ((0, 1), (1, 0), (0, 2), (2, 1)):
        X = {"ae_type": nat(0), "ip_address": list(ips[x])}
        X2 = {"ae_type": nat(1), "ip_address": list(ips[x])}
        X3 = {"ae_type": nat(2), "ip_address": list(ips[x]), "ae_code": nat(0)}
        Y = {"ae_type": nat(0), "ip_address": list(ips[y])}
        Y2 = {"ae_type": nat(1), "ip_address": list(ips[y]), "ae_code": nat(3)}
        firsts = [[X], [Y, X], [X2, X], [Y, Y2, X], [X3, X2, X], [X, Y, X]]
        for first in firsts:
            for how in ("wb", "auto", "rot"):
                sz = len(first) if how == "auto" else 10000
                h = gen_history(rng, nops=0, comp="none", out="file", nbps=1, rot=False, sizes=[sz], hints_mode="all")
                ops = [{"op": "aec", "r": dict(a)} for a in first]
                if how == "wb":
                    ops.append({"op": "wb"})
                elif how == "rot":
                    ops.append({"op": "rot", "export": True})
                ops += [{"op": "aec", "r": dict(a)} for a in (X, Y, X, Y2, Y, X2)] + [{"op": "wb"}]
                h["ops"] = ops
                hs.append(h)
    return hs


def incompressible_rotation_family(rng, comps=("gz", "xz"), n=110):
    """Compressed outputs that hold several KiB the compressor cannot shrink (random names) when a rotation - or the destruction -
    closes them: the compressor then has far more pending than one step of its finishing loop delivers."""
    hs = []
    for comp in comps:
        for out in ("file", "fd"):
            h = gen_history(rng, nops=0, comp=comp, out=out, nbps=1, rot=False, sizes=[10000], hints_mode="all")
            pools = Pools(rng)
            tps = tps_of(h["preamble"]["bps"][0])
            ops = []
            for part in range(2):
                for i in range(n):
                    r = gen_qr(rng, pools, (tps, tps), 1500000000, "sparse")
                    r["query_name"] = [rng.getrandbits(8) for _ in range(48)]
                    ops.append({"op": "qr", "r": r})
                ops.append({"op": "rot", "export": True} if part == 0 else {"op": "wb"})
            h["ops"] = ops
            hs.append(h)
    return hs

