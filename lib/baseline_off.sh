#!/bin/bash
# Repository's own test suite with the verification guard OFF (no -DCDNS_VERIF):
# rebuild /repo/_build from the working tree and run the 99 tests.
set -e
cd /repo
if [ ! -f _build/build.ninja ] && [ ! -f _build/Makefile ]; then
  cmake -G Ninja -B _build -S . -DBUILD_TESTS=ON -DCMAKE_BUILD_TYPE=RelWithDebInfo -DCMAKE_CXX_FLAGS=-Wno-error >/dev/null
fi
cmake --build _build -j16 2>&1 | tail -3
ctest --test-dir _build -j8 --timeout 900 --output-junit /repo/_build/verif_baseline.junit.xml 2>&1 | tail -5
./_build/tests/tests 2>&1 | tail -3
