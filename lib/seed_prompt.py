#!/usr/bin/env python3
"""seed_prompt.py <Cxx> <round>: print the brief given to a fresh sub-agent that is asked for a
seeded change (it sees only the property text, its own scratch worktree and one-line summaries of
earlier changes it must differ from - nothing about how /verif checks anything)."""
import glob
import json
import sys
from pathlib import Path

ROOT = Path(__file__).resolve().parent.parent


def main():
    pid, rnd = sys.argv[1], sys.argv[2]
    focus = sys.argv[3] if len(sys.argv) > 3 else ""
    prop = next(json.loads(l) for l in open(ROOT / "properties.jsonl") if json.loads(l)["id"] == pid)
    earlier = []
    for m in sorted(glob.glob(str(ROOT / "seeded" / f"{pid}*" / "meta.json"))):
        earlier.append("- " + (json.load(open(m)).get("summary") or "")[:260].replace("\n", " "))
    wt = f"/tmp/seed{rnd}_{pid}"
    out = f"/tmp/seed{rnd}_{pid}_out"
    print(f"""You are helping to evaluate a verification effort for the C++ library CZ-NIC/c-dns (C-DNS, RFC 8618: CBOR capture format for DNS traffic). Your job: produce ONE realistic, subtle code change to the library that BREAKS the semantic property below, while the library still compiles and its existing unit-test suite still passes. Think of the kind of slip a maintainer could make in a refactoring / optimisation / clean-up / hardening commit that review would wave through.

Your scratch git worktree of the repository is {wt} (work only there; never touch /repo or /verif, do not read anything under /verif). Put your deliverables in {out}/ (create it).

THE PROPERTY ({pid}):
{json.dumps(prop, indent=1)}

Requirements for the change
1. It touches only files under src/ (not tests/, not python/, not code guarded by `#ifdef CDNS_VERIF`, and do not alter the CDNS_VERIF hook declarations). Small: typically 3-40 changed lines, with a plausible cover story.
2. With the change the library builds and ALL existing tests pass:
     cd {wt} && cmake -G Ninja -B _build -S . -DBUILD_TESTS=ON -DBUILD_DOC=OFF -DCMAKE_BUILD_TYPE=RelWithDebInfo >/dev/null && cmake --build _build -j4 | tail -3 && ./_build/tests/tests | tail -3
   (expect '[  PASSED  ] 98 tests.').
3. The violation must need something SPECIFIC to manifest - a particular multi-step sequence of API calls, an unusual but legitimate input/configuration, a particular alignment with an internal buffer, a crash or I/O fault at a particular point, a particular thread interleaving, or two cooperating sites that each look fine alone. Ordinary use (the obvious happy path, default parameters, a couple of records) must NOT expose it. Prefer triggers that are narrow (one value class, one boundary, one ordering) but perfectly legal under the property's wording. The property really must be violated under its own wording (not merely a neighbouring property).
{("3b. Preferred kind of trigger for this change (if the property admits it; otherwise choose freely): " + focus) if focus else ""}
4. It must be DIFFERENT in mechanism and in trigger from these earlier changes made for the same property (do not re-do them or near variants):
{chr(10).join(earlier) if earlier else '- (none)'}
5. Demonstration: {out}/demo.cpp - a self-contained program using the library's public headers that exits 0 when the property holds and exits 1 (printing what went wrong) when your change is applied. It is compiled as
     g++ -std=c++14 -msse4 -I{wt}/src demo.cpp {wt}/src/*.cpp -lz -llzma -lpthread -o demo
   (If the property concerns a command-line tool or process death and a program is impractical, write {out}/demo.sh instead; it may use the binaries in {wt}/_build and must follow the same exit convention.) Verify yourself: demo FAILS (exit 1) with the change, PASSES (exit 0) without it (git -C {wt} apply -R patch.diff, rebuild, run, then re-apply the change). The demo must be deterministic (for thread-related properties: make it fail reliably, e.g. many iterations).
6. Deliverables in {out}/:
   - patch.diff : `git -C {wt} diff > {out}/patch.diff` (must apply with `git apply` to a clean checkout of the same commit)
   - demo.cpp or demo.sh
   - meta.json : {{"property": "{pid}", "summary": "<what was changed, where, cover story; 2-4 sentences>", "needs": "<exactly what is needed for the violation to manifest and why ordinary use/tests don't show it>", "files": ["src/..."], "how_verified": "<commands you ran and what they printed>"}}
7. Leave the worktree with the change applied (and _build built). Do not use git stash. Do not commit.

Read the relevant source first (start from the property's anchors), choose the change carefully, and test it. Report back briefly: the summary, the trigger, and the observed demo results with/without the change.""")


if __name__ == "__main__":
    main()
