#!/usr/bin/env python3
"""Regenerates /verif/MANIFEST.json from the table below (run after adding a check)."""
import json
import subprocess
from pathlib import Path

ROOT = Path(__file__).resolve().parent.parent

TRUST = ("TLC 1.8 + CommunityModules Json/IOUtils; the hand-written TLA+ modules as the reading of RFC 8949/8618; "
         "the C++ drivers' logging; ")

CHECKS = {
    "C06": dict(
        category="model_checking",
        text=("TLC model-checks the encoder specification (Encoder.tla: Abs = RFC 8949 preferred encoding appended per call, "
              "Impl = staging buffer with the code's flush thresholds) exhaustively for a 12-byte buffer, and validates every "
              "call of recorded executions of the real CdnsEncoder (every fill level x 18 operations x boundary arguments at "
              "buffer 2048 and, exhaustively, at a scaled buffer of 12; all 8-bit / 16-bit values; random sequences with "
              "rotations on fd, named, gzip and xz outputs) against the specification."),
        design_ref="DESIGN.md section 3 / C06",
        note=TRUST + "python3 zlib/lzma for compressed outputs. Exhaustive only for the stated small constants and fill sweep; "
                     "arguments beyond the boundary set are sampled.",
        technique="TLA+ spec (Encoder.tla) model-checked with TLC + TLC trace validation of recorded encoder calls (TraceEncoder.tla)",
    ),
    "C05": dict(
        category="model_checking",
        text=("TLC model-checks DecoderImpl (window refill with istream eof semantics) against the property-level decoder "
              "(AbsExpect: exhausted stream => end-of-input for every operation) for windows 2..7, every generated item, every "
              "truncation and alignment; recorded executions of the real decoder on streams of length k*65535+d (and k*5+d on a "
              "scaled window), string/file/unopened streams, first operation peek or read, and every truncation of every "
              "generated item are validated event by event. File-level part (only complete blocks from a truncated file) is "
              "covered by the reader traces of C01/C08."),
        design_ref="DESIGN.md section 3 / C05",
        note=TRUST + "lengths beyond 3 windows and cut points away from window/block boundaries are sampled, not exhaustive.",
        technique="TLA+ spec (Decoder.tla) model-checked with TLC + TLC trace validation of recorded decoder calls (TraceDecoder.tla)",
    ),
    "C07": dict(
        category="model_checking",
        text=("TLC model-checks DecoderImpl against AbsExpect (value RFC 8949 assigns; skip consumes exactly one item) over the "
              "bounded grammar CborGen (all major types, non-preferred widths, chunked strings, nested and indefinite containers, "
              "tags, floats), all alignments to windows 2..7; TLC generates the same items as scenarios which the driver places at "
              "every alignment around the real 65535-byte window (and exhaustively on a 5-byte window), reads/skips them and reads a "
              "sentinel; every recorded outcome is validated against the specification."),
        design_ref="DESIGN.md section 3 / C07",
        note=TRUST + "the grammar slice is bounded (depth <= 6, about 130 item shapes); negative integers below -2^63 are outside "
                     "the return type and excluded.",
        technique="TLA+ spec (Decoder.tla, CborGen.tla) model-checked with TLC; TLC-generated items replayed on the real decoder and "
                  "validated by TLC (TraceDecoder.tla)",
    ),
}

PENDING_REASON = "check not built yet in this revision (specification in progress); see DESIGN.md"


def main():
    props = [json.loads(l)["id"] for l in (ROOT / "properties.jsonl").read_text().splitlines() if l.strip()]
    hooks_commits = subprocess.run(["git", "-C", "/repo", "log", "--format=%H", "--grep=^verif hooks"],
                                   capture_output=True, text=True).stdout.split()
    man = {
        "version": 1,
        "setup_cmd": "python3 lib/setup.py",
        "hooks": {
            "guard": "CDNS_VERIF",
            "enable": ("checks compile /repo/src/*.cpp themselves with -DCDNS_VERIF (plus -DCDNS_VERIF_ENC_BUFFER=<n> / "
                       "-DCDNS_VERIF_DEC_BUFFER=<n> for the scaled-buffer replays) into /verif/.build; see lib/vlib.py"),
            "baseline_off_cmd": "bash lib/baseline_off.sh",
            "source_commits": hooks_commits,
            "add_only": True,
        },
        "engines": [
            {"name": "tlc", "path": "/opt/veriftools/tla/tla2tools.jar",
             "serves_properties": sorted(CHECKS), "kind_free_text": "explicit-state model checker for the TLA+ specification in /verif/spec; "
             "also evaluates the trace specifications on executions recorded from the real code"},
            {"name": "drivers", "path": "/verif/harness", "serves_properties": sorted(CHECKS),
             "kind_free_text": "C++ observation drivers linked with /repo/src compiled from the working tree (-DCDNS_VERIF)"},
        ],
        "checks": [],
        "not_applicable": [],
        "notes": "bin/check <id> <quick|thorough>; exit 2 + 'INFRA:' = machinery failure, never a violation. "
                 "known_findings.json lists recorded findings and fixed defects.",
    }
    for pid in props:
        if pid in CHECKS:
            c = CHECKS[pid]
            man["checks"].append({
                "property_id": pid,
                "quick_cmd": f"bin/check {pid} quick",
                "thorough_cmd": f"bin/check {pid} thorough",
                "evidence_file": f"/verif/evidence/{pid}.json",
                "replay_cmd_template": f"bin/check {pid} quick --replay {{path}}",
                "engine": "tlc",
                "level_claimed": {"category": c["category"], "text": c["text"], "design_ref": c["design_ref"]},
                "level_note": c["note"],
                "technique": c["technique"],
            })
        else:
            man["not_applicable"].append({"property_id": pid, "reason": PENDING_REASON})
    (ROOT / "MANIFEST.json").write_text(json.dumps(man, indent=1) + "\n")
    print("MANIFEST.json:", len(man["checks"]), "checks,", len(man["not_applicable"]), "not claimed")


if __name__ == "__main__":
    main()
