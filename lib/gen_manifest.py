#!/usr/bin/env python3
"""Regenerates /verif/MANIFEST.json from the table below (run after adding a check)."""
import json
import subprocess
from pathlib import Path

ROOT = Path(__file__).resolve().parent.parent

TRUST = ("TLC 1.8 + CommunityModules Json/IOUtils; the hand-written TLA+ modules as the reading of RFC 8949/8618; "
         "the C++ drivers' logging; ")

CHECKS = {
    "C06": dict(
        category="model_checking",
        text=("TLC model-checks the encoder specification (Encoder.tla: Abs = RFC 8949 preferred encoding appended per call, "
              "Impl = staging buffer with the code's flush thresholds) exhaustively for a 12-byte buffer, and validates every "
              "call of recorded executions of the real CdnsEncoder (every fill level x 18 operations x boundary arguments at "
              "buffer 2048 and, exhaustively, at a scaled buffer of 12; all 8-bit / 16-bit values; random sequences with "
              "rotations on fd, named, gzip and xz outputs) against the specification."),
        design_ref="DESIGN.md section 3 / C06",
        note=TRUST + "python3 zlib/lzma for compressed outputs. Exhaustive only for the stated small constants and fill sweep; "
                     "arguments beyond the boundary set are sampled.",
        technique="TLA+ spec (Encoder.tla) model-checked with TLC + TLC trace validation of recorded encoder calls (TraceEncoder.tla)",
    ),
    "C05": dict(
        category="model_checking",
        text=("TLC model-checks DecoderImpl (window refill with istream eof semantics) against the property-level decoder "
              "(AbsExpect: exhausted stream => end-of-input for every operation) for windows 2..7, every generated item, every "
              "truncation and alignment; recorded executions of the real decoder on streams of length k*65535+d (and k*5+d on a "
              "scaled window), string / file / forward-only / breaking (I/O error at a refill) / unopened streams, first operation "
              "peek or read, and every truncation of every generated item are validated event by event. File level: Reader.tla (the "
              "reader as a state machine over header / block / break tokens, both kinds of blocks array, every cut) is model-checked; "
              "real exporter files and TLC-written variants with a definite-length blocks array / indefinite-length file array are "
              "cut at block boundaries, window boundaries and random points: exactly the complete blocks, then end-of-input."),
        design_ref="DESIGN.md section 3 / C05",
        note=TRUST + "lengths beyond 3 windows and cut points away from window/block boundaries are sampled, not exhaustive.",
        technique="TLA+ specs (Decoder.tla, Reader.tla) model-checked with TLC + TLC trace validation of recorded decoder calls "
                  "(TraceDecoder.tla) and of reader dumps of truncated files (TraceReader.tla)",
    ),
    "C07": dict(
        category="model_checking",
        text=("TLC model-checks DecoderImpl against AbsExpect (value RFC 8949 assigns; skip consumes exactly one item) over the "
              "bounded grammar CborGen (all major types, non-preferred widths, chunked strings, nested and indefinite containers, "
              "tags, floats), all alignments to windows 2..7; TLC generates the same items as scenarios which the driver places at "
              "every alignment around the real 65535-byte window (and exhaustively on a 5-byte window), reads/skips them and reads a "
              "sentinel, on string, file, forward-only, breaking and growing streams (items appended after the decoder saw the end of "
              "what was there); every recorded outcome is validated against the specification."),
        design_ref="DESIGN.md section 3 / C07",
        note=TRUST + "the grammar slice is bounded (depth <= 6, about 130 item shapes); negative integers below -2^63 are outside "
                     "the return type and excluded.",
        technique="TLA+ spec (Decoder.tla, CborGen.tla) model-checked with TLC; TLC-generated items replayed on the real decoder and "
                  "validated by TLC (TraceDecoder.tla)",
    ),
    "C01": dict(
        category="model_checking",
        text=("Recorded executions of the real CdnsExporter over random API histories (all optional-member subsets, boundary "
              "integers, byte strings, repeated/distinct table values, RR lists, 1-3 parameter sets with random hints, tick rates "
              "and block sizes, explicit block writes, rotations, three compression modes) are validated by TLC against the "
              "Exporter state machine: every call's return value/counters, and for every closed output the denotation of its real "
              "bytes under an independent TLA+ reading of RFC 8949/8618 (Cbor.tla, CdnsFormat.tla) as well as the library reader's "
              "dump must equal the hint-filtered records the model holds, in order, with AEC counts and block statistics."),
        design_ref="DESIGN.md section 3 / C01",
        note=TRUST + "python3 zlib/lzma. Histories are sampled (seeded); the state machine itself is model-checked under C12/C13.",
        technique="TLC trace validation of recorded exporter executions against Exporter.tla + independent TLA+ RFC 8618 interpreter "
                  "evaluated by TLC on the real output bytes",
    ),
    "C02": dict(
        category="model_checking",
        text=("Every closed output of recorded executions (random histories; histories with present-but-empty BlockStatistics, "
              "CollectionParameters, record sections and records; every rotation/destruction path; three compression modes) is "
              "parsed by TLC with a strict RFC 8949 parser and validated against the RFC 8618 schema with index closure "
              "(CdnsFormat!FileErrs); outputs without a block must be empty. The exporter state machine is model-checked "
              "(header written with the first block, blocks refer to sets in the header)."),
        design_ref="DESIGN.md section 3 / C02",
        note=TRUST + "blocks built directly through the raw add_* API are covered by the C11/C19 block driver, not here.",
        technique="TLC evaluates the TLA+ CBOR parser and RFC 8618 schema (Cbor.tla, CdnsFormat.tla) on the real bytes of every output "
                  "of recorded executions; Exporter.tla model-checked",
    ),
    "C04": dict(
        category="model_checking",
        text=("For a family of hint masks (all/none, each of the 18+17 bits cleared and alone, all RR/other-data masks, all subsets "
              "of the four section bits, random masks) and records with every optional member set, TLC checks on the real output "
              "bytes that no member excluded by a cleared bit is present, that every table entry is reachable from a stored item, "
              "that AEC/MM arrays exist only when enabled, and that the preamble states the hints applied. The same masks are put in "
              "force on a block the application keeps itself (armed with a set other than #0, moved / copied to another object - "
              "also by a growing std::vector -, taken through a file and the reader, written, cleared, re-used): MCExporterX + replay. "
              "Members of resource records (ttl, rdata) and whole malformed messages / address events the hints exclude count like "
              "excluded members of a record."),
        design_ref="DESIGN.md section 3 / C04",
        note=TRUST + "2^18 x 2^17 masks are covered by families and random samples, not enumerated.",
        technique="TLC trace validation: hint semantics in Records.tla applied to submitted records, compared with the TLA+ RFC 8618 "
                  "denotation of the real bytes; reachability computed by TLC on the parsed tables",
    ),
    "C09": dict(
        category="model_checking",
        text=("Generated FilePreamble values (versions, private version present/absent, 1..8 parameter sets, optional member subsets, "
              "absent/empty/partial/full collection parameters, lists incl. unassigned codes, full-width integers) are written by the "
              "real exporter and read back; TLC compares both the independent denotation of the bytes and the library reader's result "
              "with the supplied value, member for member. An exporter that gains a parameter set between two outputs is also run with "
              "one I/O fault at every system call: each later output's preamble must hold the sets known when it was opened."),
        design_ref="DESIGN.md section 3 / C09",
        note=TRUST + "preambles are sampled (seeded).",
        technique="TLC trace validation: supplied preamble vs TLA+ denotation of the real bytes and vs reader dump",
    ),
    "C10": dict(
        category="model_checking",
        text=("TLC keeps, in the Exporter model, the sum of the byte counts returned by buffer/write_block/rotate calls per output and "
              "compares it with the uncompressed size of the real closed output (+1 on destruction) for every history (three "
              "compression modes, file-name and descriptor outputs, rotations, empty structures; an output that holds no block must "
              "have received exactly what was reported, i.e. nothing; the ledger is a matter of sizes and is evaluated whether or not "
              "the content parses; exporters destroyed by stack unwinding; outputs with more than 2^16 blocks); per-call counts of the encoder are "
              "validated against Len(EncBytes) by TraceEncoder (see C06)."),
        design_ref="DESIGN.md section 3 / C10",
        note=TRUST + "python3 zlib/lzma.",
        technique="TLC trace validation (TraceExporter.tla ledger, TraceEncoder.tla per-call return values)",
    ),
    "C12": dict(
        category="model_checking",
        text=("TLC model-checks the exporter state machine for all histories up to 4 (quick) / 5 (thorough) calls over an alphabet of "
              "storable/unstorable records, two AEC keys, malformed messages, write_block, rotation, parameter switches, for all "
              "block-size pairs in {0..3}: record conservation in order, block sizes, flush-exactly. TLC then emits every complete "
              "history of the model and the driver replays them on the real exporter; return values (zero/non-zero), all counters and "
              "the parsed outputs are validated by TLC. Random longer histories add hint- and size-variation; outputs of more than 2^16 "
              "blocks and counters after a failed write are covered by the many-blocks and fault-sweep families."),
        design_ref="DESIGN.md section 3 / C12",
        note=TRUST + "exhaustive only up to the stated history length and alphabet.",
        technique="TLA+ spec (Exporter.tla) model-checked with TLC; TLC-generated behaviours replayed on the real exporter and "
                  "validated with TraceExporter.tla",
    ),
    "C13": dict(
        category="model_checking",
        text=("Same model and generator as C12 with rotation (export true/false), consecutive empty rotations and parameter sets added "
              "mid-stream: invariants self-contained outputs, closed outputs frozen, record stream conserved across outputs. Generated "
              "and random rotation-heavy histories run on the real exporter with file-name and descriptor outputs in three compression "
              "modes (rotation onto the name in use, to descriptor 0, outputs of more than 2^16 blocks); every closed output is parsed by TLC "
              "and must be empty or a complete valid file holding exactly the model's blocks."),
        design_ref="DESIGN.md section 3 / C13",
        note=TRUST + "rotation with an argument of another kind than the constructor's is generated for descriptor histories; the pinned "
                     "behaviour is a known finding (known_findings.json).",
        technique="TLA+ spec (Exporter.tla) model-checked with TLC; TLC-generated behaviours replayed and validated with TraceExporter.tla",
    ),
    "C11": dict(
        category="model_checking",
        text=("TLC model-checks BlockTable (Abs: duplicate-free sequence, Add = find-or-append; Impl: reverse index of references) "
              "for all histories of add/clear/copy/destroy up to 5-6 steps; TLC emits every history and the driver replays them on "
              "each of the nine real tables with values handed over in fresh objects and in re-used scratch objects that keep their "
              "capacity (pairs differing in exactly one optional member, the empty list and the empty string among them), "
              "plus growth sequences of thousands of adds and longer random histories with assignments onto used blocks; every returned "
              "index, size and read-back value is validated by TLC; 8 threads filling their own blocks at the same time; a block "
              "handed from thread to thread (every other add on a thread of its own, never overlapping). "
              "Exporter streams across many flushes: TLC checks every written table for duplicates and index closure."),
        design_ref="DESIGN.md section 3 / C11",
        note=TRUST + "value ids are mapped to concrete table values by the driver (harness/tbl_driver.cpp).",
        technique="TLA+ spec (BlockTable.tla) model-checked with TLC; TLC-generated histories replayed on real tables and validated "
                  "with TraceTables.tla; table checks of TraceExporter.tla on real output bytes",
    ),
    "C17": dict(
        category="model_checking",
        text=("TLC checks the timestamp formulas of the code in W-bit two's-complement words against exact arithmetic for every "
              "word (including the minimum) as offset and a grid of instants/rates (exact offset, inverse, refusal leaves value "
              "unchanged, ordering), and the earliest-time rule of the block model for all arrival orders of timed/untimed, "
              "storable/unstorable records. Recorded calls of the real Timestamp under UBSan (exhaustive small grid, boundary "
              "values up to INT64_MIN/MAX, rates 1..10^9, random) are verified by TLC with unbounded arithmetic; on real exporter "
              "output TLC checks earliest-time <= every stored instant and exact recovery of every record time."),
        design_ref="DESIGN.md section 3 / C17",
        note=TRUST + "UBSan for undefined arithmetic; 64-bit values are sampled (boundaries + random), the scaled word model is exhaustive.",
        technique="TLA+ spec (Timestamp.tla, Exporter.tla) model-checked with TLC; TLC trace validation with unbounded arithmetic "
                  "(TraceTimestamp.tla, TraceExporter.tla)",
    ),
    "C19": dict(
        category="model_checking",
        text=("TLC model-checks BlockTable Impl (keys are references into a table's storage; dereferencing a key whose storage was "
              "cleared or destroyed is the bad state ub) against Abs for all histories of add/clear/copy/destroy over three block "
              "slots; the pinned shallow copy is a seeded self-test. Every generated history containing a copy is replayed under "
              "AddressSanitizer on real blocks for nine tables x copy/move construction and assignment x CdnsBlock/CdnsBlockRead "
              "and blocks returned by the reader; TLC validates every index/size/value and that a copy owns all its lookup keys. "
              "BlockValue.tla treats whole blocks as values - items, read cursors, the address-event iterator and the block "
              "parameters a block is filled under (fullness, hints, tick rate) - for the six manners of obtaining a block; all "
              "histories <= 5-6 ops model-checked (five named deviations must fail) and replayed on real CdnsBlockRead / CdnsBlock "
              "objects: every read, every item count, what add_*() reports and the serialisation read back are validated by TLC; the "
              "earliest time of a copy is compared with that of a freshly built block given the same items."),
        design_ref="DESIGN.md section 3 / C19",
        note=TRUST + "ASan/UBSan; the CDNS_VERIF probe reading key addresses.",
        technique="TLA+ spec (BlockTable.tla) model-checked with TLC; TLC-generated histories replayed under ASan and validated with "
                  "TraceTables.tla",
    ),
    "C14": dict(
        category="model_checking",
        text=("Writer.tla models the output stack at system-call level (staging, write calls in any split, finish, close, rename); "
              "TLC checks that every closed output holds exactly the units handed to it for named/descriptor x compressed/plain "
              "scenarios with rotations. Recorded runs of the real gzip/xz/plain writers (chunk sequences 1 B..8 MiB quick / 32 MiB "
              "thorough; zero, text, random, empty; rotation points; file-name and descriptor targets) and of the exporter end to "
              "end are validated by TLC: each closed output must be a single complete stream (python zlib/lzma, independent) with "
              "the right suffix whose content is exactly the chunk sequence / record sequence of the scenario; also for incompressible "
              "outputs through the residues of the compressors' chunking, chunk lengths around the scratch-buffer fractions "
              "behind a backlog (ASan), sessions run during stack unwinding, 16 threads each driving its own compressed output, and - "
              "through the fault sweep - outputs opened after a fault that nobody reported."),
        design_ref="DESIGN.md section 3 / C14",
        note=TRUST + "python3 zlib/lzma; the driver's memcmp of decompressed data against the chunks it generated.",
        technique="TLA+ spec (Writer.tla) model-checked with TLC + TLC trace validation of recorded writer/exporter runs (TraceWriter.tla)",
    ),
    "C15": dict(
        category="model_checking",
        text=("Writer.tla has an always-enabled Crash action; TLC checks in every reachable state (all interleavings, all crash "
              "points) that a file under a final name is pre-existing or a complete output, for plain/compressed named outputs "
              "with rotations and rotation onto an existing name; seeded deviations (rename before the last writes, writing to the "
              "final name) must be found. On the real code every scenario is re-run in a child process killed immediately before "
              "its k-th write/writev/rename for every k; TLC validates the system-call log (data only to .part, rename only "
              ".part -> final, nothing after the rename) and every post-crash directory (names re-used, stale .part files, "
              "compressed outputs closed while the compressor holds back tens of KiB, a final rotation that cannot succeed, a rename the "
              "environment refuses, a final name that is a symbolic link, outputs whose last bytes align with the scaled staging buffer, "
              "sessions run inside a clean-up routine during stack unwinding)."),
        design_ref="DESIGN.md section 3 / C15",
        note=TRUST + "interposition of write/writev/rename in the driver executable; crash = _exit before the call (no power-loss semantics).",
        technique="TLA+ spec (Writer.tla) model-checked with TLC over all crash points + crash-point enumeration on the real code "
                  "validated by TLC (TraceWriter.tla)",
    ),
    "C16": dict(
        category="fault_enumeration",
        text=("Writer.tla with a failing write system call (single or persistent) at every index: invariant 'no rotate returns "
              "normally for an output that lost bytes'. On the real exporter every write/writev of every scenario (plain/gzip/xz x "
              "file-name/descriptor, rotations) is made to fail with ENOSPC, EIO or a short count, once and persistently; TLC walks "
              "the ordered log of API outcomes and system calls and checks reporting and the documented recovery (rotate to a "
              "healthy destination, write_block, complete valid file with the failed block's records), also when the failing write "
              "lies inside a first block larger than the staging buffer, and for a rotation whose argument is of the other kind than "
              "the constructor's. Three genuine defects of the "
              "pinned code are recorded as known findings (known_findings.json); any other violation is reported."),
        design_ref="DESIGN.md section 3 / C16 and section 5",
        note=TRUST + "interposition of write/writev; destruction is outside the guarantee.",
        technique="TLA+ spec (Writer.tla) model-checked with TLC over all fault points + fault-point enumeration on the real code "
                  "validated by TLC (TraceWriter.tla)",
    ),
    "C18": dict(
        category="model_checking",
        text=("Merge.tla: MergeAbs (what the merged file must hold) vs MergeImpl (the tool's two passes with the name-keyed index "
              "map) for all tuples of up to three inputs from six kinds (ok with 1-2 sets, version mismatch, unopenable, truncated, "
              "empty-block-only, same file twice); the pinned pass-2 behaviour is a seeded self-test. Real cdns-merge runs on tuples "
              "of real exporter files (differing parameter sets, tick rates, hints, versions; truncated anywhere; missing, garbage, "
              "empty files; a file listed twice; ~40 files holding the same records under parameter sets exactly one member "
              "apart; inputs written by TLC whose blocks hold statistics only; an unreadable input listed first before inputs of "
              "another version): TLC parses all inputs and the output independently and compares block by block "
              "(records, statistics, parameter equality), and checks the stdout of cdns-itemcount for all four option combinations "
              "against the counts of the independent parse."),
        design_ref="DESIGN.md section 3 / C18",
        note=TRUST + "python orchestration (argument lists, stdout capture); tuples are sampled (seeded).",
        technique="TLA+ spec (Merge.tla) model-checked with TLC + TLC validation of real tool runs via the TLA+ RFC 8618 interpreter "
                  "(TraceMerge.tla)",
    ),
    "C20": dict(
        category="exploration",
        text=("Threads.tla: every interleaving of N threads working on their own instances preserves each thread's sequential "
              "result; a shared static scratch buffer (seeded deviation) is found by TLC. Binding: 2..16 real threads, each with "
              "its own exporter/reader/renderers on distinct outputs (file-name and descriptor, three compression modes), run "
              "concurrently; every per-thread trace is validated by TLC with the same TraceExporter specification used for "
              "sequential runs, so any deviation from the sequential semantics (wrong bytes, records, counters) is a violation; "
              "the same driver runs under ThreadSanitizer, whose race report truncates the traces and is recorded as a violation; "
              "pairs of exporters and pairs of readers operated alternately on ONE thread must behave as if alone; "
              "every closed output of the concurrent run must be byte-identical to that of the same programs run one after "
              "another on one thread (digests compared by TLC, TraceReader event B); concurrent readers likewise; copies of one read "
              "block (constructed, assigned, moved) are walked by N threads at once and compared with an independent reading."),
        design_ref="DESIGN.md section 3 / C20",
        note=TRUST + "ThreadSanitizer; schedules are those the OS produced (sampled, with injected yields), not enumerated.",
        technique="TLA+ spec (Threads.tla) model-checked with TLC; per-thread traces of concurrent runs validated with "
                  "TraceExporter.tla; ThreadSanitizer as race instrument",
    ),
    "C03": dict(
        category="exploration",
        text=("The specification states totality of the read side (Decoder!ImplOp: every operation on every stream ends in a value, "
              "a decoder exception or end-of-input; ghosts for the largest reservation and the native recursion depth are "
              "model-checked with the pinned deviations as self-tests). The C++ memory-safety part is observed, not proved: "
              "TLC-generated structure-aware mutants of real files (every length field replaced by values up to 2^64-1, wrong "
              "major types, nesting, out-of-range indices, malformed names/addresses in every string), hand-made extremes (nesting "
              "up to 10^6, indefinite chunks announcing 2^47 bytes), random bytes, flipped and truncated valid files are fed to "
              "every decoder operation, the reader and accessors, every string() renderer (ASan+UBSan, allocation cap, 8 MiB stack) "
              "and to the five tools as child processes; TLC checks each recorded outcome is value/exception/end in bounded time; "
              "blocks kept by move across reads are rendered twice with the freed memory scribbled in between; the decoder operations "
              "that size something and the reader also run on forward-only streams, two tools read through a pipe."),
        design_ref="DESIGN.md section 3 / C03 and section 4",
        note="AddressSanitizer and UBSan are the instruments; the input space is sampled; TLC + CommunityModules; python orchestration "
             "of child processes and rlimits.",
        technique="TLA+ spec totality + ghosts (Decoder.tla) model-checked with TLC; TLC-generated mutants (Rewrite.tla) executed under "
                  "ASan/UBSan, outcomes validated against the spec's outcome classes (TraceSafety.tla)",
    ),
    "C08": dict(
        category="model_checking",
        text=("Rewrite.tla defines the semantics-preserving rewrites of RFC 8949/8618 on CBOR trees (definite<->indefinite per "
              "container and string, chunking, non-minimal head widths, rotation of map members, unknown positive/negative keys "
              "with tagged / float / nested / indefinite values). TLC parses real exporter files, applies compositions of rewrites "
              "at seed-chosen nodes, serialises the variants, checks that each is a valid file with the same denotation, and "
              "validates that the real reader returns exactly the same dump for the original and every variant."),
        design_ref="DESIGN.md section 3 / C08",
        note=TRUST + "variants are a seeded family (12 per file quick, 50 thorough), not all compositions.",
        technique="TLC-generated re-encodings (Rewrite.tla, GenVariants.tla) replayed on the real reader and validated by TLC "
                  "(TraceReader.tla) together with the denotation invariance of the TLA+ reading",
    ),
}

PENDING_REASON = "check not built yet in this revision (specification in progress); see DESIGN.md"


def main():
    props = [json.loads(l)["id"] for l in (ROOT / "properties.jsonl").read_text().splitlines() if l.strip()]
    hooks_commits = subprocess.run(["git", "-C", "/repo", "log", "--format=%H", "--grep=^verif hooks"],
                                   capture_output=True, text=True).stdout.split()
    man = {
        "version": 1,
        "setup_cmd": "python3 lib/setup.py",
        "hooks": {
            "guard": "CDNS_VERIF",
            "enable": ("checks compile /repo/src/*.cpp themselves with -DCDNS_VERIF (plus -DCDNS_VERIF_ENC_BUFFER=<n> / "
                       "-DCDNS_VERIF_DEC_BUFFER=<n> for the scaled-buffer replays) into /verif/.build; see lib/vlib.py"),
            "baseline_off_cmd": "bash lib/baseline_off.sh",
            "source_commits": hooks_commits,
            "add_only": True,
        },
        "engines": [
            {"name": "tlc", "path": "/opt/veriftools/tla/tla2tools.jar",
             "serves_properties": sorted(CHECKS), "kind_free_text": "explicit-state model checker for the TLA+ specification in /verif/spec; "
             "also evaluates the trace specifications on executions recorded from the real code"},
            {"name": "drivers", "path": "/verif/harness", "serves_properties": sorted(CHECKS),
             "kind_free_text": "C++ observation drivers linked with /repo/src compiled from the working tree (-DCDNS_VERIF)"},
        ],
        "checks": [],
        "not_applicable": [],
        "notes": "bin/check <id> <quick|thorough>; exit 2 + 'INFRA:' = machinery failure, never a violation. "
                 "known_findings.json lists recorded findings and fixed defects.",
    }
    for pid in props:
        if pid in CHECKS:
            c = CHECKS[pid]
            man["checks"].append({
                "property_id": pid,
                "quick_cmd": f"bin/check {pid} quick",
                "thorough_cmd": f"bin/check {pid} thorough",
                "evidence_file": f"/verif/evidence/{pid}.json",
                "replay_cmd_template": f"bin/check {pid} quick --replay {{path}}",
                "engine": "tlc",
                "level_claimed": {"category": c["category"], "text": c["text"], "design_ref": c["design_ref"]},
                "level_note": c["note"],
                "technique": c["technique"],
            })
        else:
            man["not_applicable"].append({"property_id": pid, "reason": PENDING_REASON})
    (ROOT / "MANIFEST.json").write_text(json.dumps(man, indent=1) + "\n")
    print("MANIFEST.json:", len(man["checks"]), "checks,", len(man["not_applicable"]), "not claimed")


if __name__ == "__main__":
    main()
