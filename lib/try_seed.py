#!/usr/bin/env python3
"""try_seed.py <Cxx> [check ids...]: confirm a seeded change produced by a sub-agent and run checks against it.

1. in the agent's worktree /tmp/seed_<Cxx>: rebuild, existing tests pass WITH the change, demo fails; without: demo passes
2. apply patch to /repo, run the given checks (default: the property's own), undo
3. store under /verif/seeded/<Cxx>[-n]/ : patch.diff, demo, meta.json (+ what was run)
"""
import json
import shutil
import subprocess
import sys
from pathlib import Path


def sh(cmd, cwd=None, timeout=3000):
    r = subprocess.run(cmd, shell=True, cwd=cwd, capture_output=True, text=True, timeout=timeout)
    return r.returncode, (r.stdout + r.stderr)


def main():
    args = [a for a in sys.argv[1:] if not a.startswith("--")]
    prefix = next((a.split("=", 1)[1] for a in sys.argv[1:] if a.startswith("--prefix=")), "seed")
    # --worktree: run the checks against the scratch worktree (VERIF_REPO, same content as /repo + patch) instead of
    #             patching /repo, so that several changes can be tried at the same time
    # --verif=<dir>: use the checks of another checkout of /verif (e.g. the commit before a strengthening: first-run verdict)
    # --no-store: do not write /verif/seeded/<id>
    use_wt = "--worktree" in sys.argv
    verif = next((a.split("=", 1)[1] for a in sys.argv[1:] if a.startswith("--verif=")), "/verif")
    no_store = "--no-store" in sys.argv
    pid = args[0]
    checks = args[1:] or [pid]
    wt = Path(f"/tmp/{prefix}_{pid}")
    out = Path(f"/tmp/{prefix}_{pid}_out")
    patch = out / "patch.diff"
    meta = json.loads((out / "meta.json").read_text())
    rec = {"property": pid, "summary": meta.get("summary"), "needs": meta.get("needs"), "files": meta.get("files"), "ran": {}}
    # 1. confirm in the worktree
    # bring the worktree to exactly HEAD + patch.diff (parallel agents shared one git stash; do not rely on their state)
    sh("git checkout -- .", cwd=wt)
    rc, o = sh(f"git apply {patch}", cwd=wt)
    if rc != 0:
        print("patch does not apply to the worktree:", o[:300]); return 1
    rc, o = sh("git diff --stat | tail -1; cmake --build _build -j8 2>&1 | tail -1; ./_build/tests/tests 2>&1 | tail -1", cwd=wt)
    rec["ran"]["tests_with_change"] = o.strip().splitlines()[-1] if o.strip() else ""
    demo_cpp = out / "demo.cpp"
    demo_sh = out / "demo.sh"
    def run_demo():
        if demo_cpp.exists():
            rc, o = sh(f"g++ -std=c++14 -msse4 -I{wt}/src {demo_cpp} {wt}/src/*.cpp -lz -llzma -lpthread -o /tmp/{prefix}_{pid}_demo 2>&1 | tail -3; /tmp/{prefix}_{pid}_demo; echo EXIT=$?", cwd=out, timeout=900)
        else:
            rc, o = sh(f"bash {demo_sh}; echo EXIT=$?", cwd=out, timeout=900)
        ex = [l for l in o.splitlines() if l.startswith("EXIT=")]
        return (ex[-1] if ex else (o.strip().splitlines()[-1] if o.strip() else "")), o[-600:]
    with_change, log1 = run_demo()
    sh(f"git apply -R {patch}", cwd=wt)
    if demo_sh.exists():
        sh("cmake --build _build -j8", cwd=wt)
    without, log2 = run_demo()
    sh(f"git apply {patch}", cwd=wt)
    if demo_sh.exists():
        sh("cmake --build _build -j8", cwd=wt)
    rec["ran"]["demo_with_change"] = with_change
    rec["ran"]["demo_without_change"] = without
    print("tests:", rec["ran"]["tests_with_change"], "| demo with:", with_change, "| without:", without)
    # 2. run checks against it
    rc, o = sh(f"git -C /repo apply --check {patch}")
    if rc != 0:
        print("PATCH DOES NOT APPLY to /repo:", o[:300])
        return 1
    if not use_wt:
        sh(f"git -C /repo apply {patch}")
    try:
        for c in checks:
            rc, o = sh((f"VERIF_REPO={wt} " if use_wt else "") + f"bin/check {c} quick", cwd=verif)
            lines = [l for l in o.splitlines() if l.startswith(("VIOLATION", "OK ", "INFRA", "KNOWN", "  what"))]
            rec["ran"][f"check_{c}_quick"] = {"exit": rc, "lines": lines[:6]}
            print(f"check {c}: exit {rc}", lines[:4])
    finally:
        if not use_wt:
            sh("git -C /repo checkout -- .")
    if no_store:
        return 0
    # 3. store
    n = 0
    tag = "" if prefix == "seed" else "-r" + prefix[4:]
    dst = Path(f"/verif/seeded/{pid}{tag}")
    while dst.exists():
        n += 1
        dst = Path(f"/verif/seeded/{pid}{tag}-{n}")
    dst.mkdir(parents=True)
    shutil.copy(patch, dst / "patch.diff")
    for f in (demo_cpp, demo_sh):
        if f.exists():
            shutil.copy(f, dst / f.name)
    rec["agent_meta"] = meta
    (dst / "meta.json").write_text(json.dumps(rec, indent=1))
    print("stored in", dst)
    return 0


if __name__ == "__main__":
    sys.exit(main())
